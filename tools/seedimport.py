#!/usr/bin/env python3
"""usage: seedimport.py <seedout-dir>/<k> <name> '<json line printed by seedeval.sh>' [checks.log]
Copies a confirmed seeded change into /verif/seeded/<name>/ and records what was run."""
import json, os, shutil, sys
src, name, evalj = sys.argv[1], sys.argv[2], json.loads(sys.argv[3])
log = sys.argv[4] if len(sys.argv) > 4 else None
dst = f"/verif/seeded/{name}"
os.makedirs(dst, exist_ok=True)
for f in ("patch.diff", "demo_test.go"):
    shutil.copy(os.path.join(src, f), os.path.join(dst, f))
meta = json.load(open(os.path.join(src, "meta.json")))
meta["confirmed"] = {
    "how": "tools/seedeval.sh in a scratch worktree of /repo HEAD: demo without the change, git apply, go build ./..., demo with the change, unedited suite (go test -vet=off -count=1 ./...), then gmcheck all --tier quick on the changed tree",
    "applies": evalj["applies"], "builds": evalj["builds"], "suite_with_change": evalj["suite"],
    "demo_without_change": evalj["demo_without"], "demo_with_change": evalj["demo_with"],
}
meta["author"] = "independent sub-agent given only the property text and a scratch worktree"
json.dump(meta, open(os.path.join(dst, "meta.json"), "w"), indent=1)
print(dst)
