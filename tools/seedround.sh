#!/bin/bash
# usage: seedround.sh <seedout-root> <Cxx> <offset>   — evaluates <root>/<Cxx>/{1,2,3} and imports the confirmed ones as
# /verif/seeded/<Cxx>-<k+offset>
root=$1; id=$2; off=$3
for k in 1 2 3; do
  d=$root/$id/$k
  [ -f $d/patch.diff ] && [ -f $d/meta.json ] && [ -f $d/demo_test.go ] || { echo "missing $d"; continue; }
  n=$((k+off)); tmp=/tmp/seedstage/$id-$n; rm -rf $tmp; mkdir -p /tmp/seedstage; cp -r $d $tmp
  res=$(/verif/tools/seedeval.sh $tmp)
  echo "$res"
  ok=$(echo "$res" | jq -r 'select(.applies=="yes" and .builds=="pass" and .suite=="pass" and .demo_without=="pass" and .demo_with=="fail") | .seed')
  if [ -n "$ok" ]; then python3 /verif/tools/seedimport.py $tmp $id-$n "$res" >/dev/null; else echo "NOT CONFIRMED: $id-$n"; fi
  sort -u /tmp/seedeval-logs/$id-$n.checks.log | cut -c1-260
done
