#!/bin/bash
# Runs every behaviour-preserving refactoring kept under /verif/neutral against every check (4 at a time); prints
# the ones that raise an alarm. Exit 0 iff none does.
cd /verif
out=$(ls -d neutral/*/ | xargs -P ${NEUTRAL_JOBS:-4} -n 1 tools/neutraleval.sh 2>&1 | sort)
echo "$out" | grep -v '"alarms":""'
n=$(echo "$out" | grep -c '"alarms":""'); t=$(echo "$out" | wc -l)
echo "silent on $n of $t behaviour-preserving refactorings"
[ "$n" = "$t" ]
