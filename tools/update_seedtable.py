#!/usr/bin/env python3
# usage: update_seedtable.py <seedtable log>  — puts the table printed by `gmcheck seedtable` into DESIGN.md (section 8)
# and notes/seedtable-latest.md, in natural order, and records "caught" in each seed's meta.json.
import sys, re, json, os
rows = [l.rstrip("\n") for l in open(sys.argv[1]) if re.match(r"^\| C\d\d-\d+ \|", l)]
def key(l):
    m = re.match(r"^\| C(\d\d)-(\d+) ", l); return (int(m.group(1)), int(m.group(2)))
rows.sort(key=key)
table = "| seed | breaks | reported by |\n|---|---|---|\n" + "\n".join(rows) + "\n"
d = open("/verif/DESIGN.md").read()
i = d.index("| seed | breaks | reported by |")
j = i
lines = d[i:].split("\n")
n = 0
for k, l in enumerate(lines):
    if k < 2 or re.match(r"^\| C\d\d-\d+ \|", l):
        n += len(l) + 1
    else:
        break
d = d[:i] + table + d[i + n:]
open("/verif/DESIGN.md", "w").write(d)
open("/verif/notes/seedtable-latest.md", "w").write(table)
nc = []
for l in rows:
    m = re.match(r"^\| (C\d\d-\d+) \| (C\d\d) \| (.*) \|$", l)
    sid, caught = m.group(1), "not caught" not in m.group(3)
    p = f"/verif/seeded/{sid}/meta.json"
    if os.path.exists(p):
        meta = json.load(open(p))
        meta["caught"] = caught
        meta["reported_by"] = "" if not caught else m.group(3)
        json.dump(meta, open(p, "w"), indent=1)
        open(p, "a").write("\n")
    if not caught:
        nc.append(sid)
print(len(rows), "seeds;", len(nc), "not caught:", " ".join(nc))
