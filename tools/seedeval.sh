#!/bin/bash
# usage: seedeval.sh <seed-dir>   (contains patch.diff, demo_test.go, meta.json)
# 1. confirms the seed in a scratch worktree of /repo (suite passes with it; demo fails with it and passes without)
# 2. applies it to /repo, runs every check's quick tier, undoes it. Prints one JSON line.
set -u
export GOFLAGS=-mod=mod GOPROXY=off GOSUMDB=off GOTOOLCHAIN=local GOWORK=off
sd=$(realpath "$1")
name=$(basename "$(dirname "$sd")")-$(basename "$sd")
wt=/tmp/sw-$name
demo_dir=$(jq -r .demo_dir "$sd/meta.json"); demo_cmd=$(jq -r .demo_cmd "$sd/meta.json")
[ "$demo_dir" = "null" ] && demo_dir=.
git -C /repo worktree remove --force "$wt" >/dev/null 2>&1
git -C /repo worktree add --detach "$wt" HEAD -q || { echo "{\"seed\":\"$name\",\"error\":\"worktree\"}"; exit 1; }
trap 'git -C /repo worktree remove --force "$wt" >/dev/null 2>&1' EXIT
cp "$sd/demo_test.go" "$wt/$demo_dir/zz_seed_demo_test.go"
demo_without=fail; (cd "$wt" && timeout 600 bash -c "$demo_cmd" >/tmp/sw-$name.without.log 2>&1) && demo_without=pass
applies=yes; (cd "$wt" && git apply "$sd/patch.diff") || applies=no
suite=skip; demo_with=skip; builds=skip
if [ $applies = yes ]; then
  builds=fail; (cd "$wt" && go build ./... >/dev/null 2>&1) && builds=pass
  demo_with=fail; (cd "$wt" && timeout 600 bash -c "$demo_cmd" >/tmp/sw-$name.with.log 2>&1) && demo_with=pass
  rm -f "$wt/$demo_dir/zz_seed_demo_test.go"
  suite=fail
  for try in 1 2 3; do  # the suite has wall-clock performance tests that flake under load
    (cd "$wt" && timeout 1200 go test -vet=off -count=1 ./... >/tmp/sw-$name.suite.log 2>&1) && { suite=pass; break; }
    grep -q "took too long" /tmp/sw-$name.suite.log || break
  done
fi
caught=""
if [ $applies = yes ]; then
  if git -C /repo apply "$sd/patch.diff"; then
    out=$(/verif/bin/gmcheck all --tier quick --no-evidence 2>&1 | grep -v '^   ')
    git -C /repo checkout -- . ; git -C /repo clean -fdq
    caught=$(echo "$out" | grep '^VIOLATION' | sed 's/.*property=\([A-Z0-9]*\).*/\1/' | sort -u | tr '\n' ' ')
    echo "$out" | grep -e '^VIOLATED' -e '^UNDECIDED' | cut -c1-300 > /tmp/sw-$name.checks.log
  else
    applies=no-on-repo
  fi
fi
echo "{\"seed\":\"$name\",\"applies\":\"$applies\",\"builds\":\"$builds\",\"suite\":\"$suite\",\"demo_without\":\"$demo_without\",\"demo_with\":\"$demo_with\",\"caught_by\":\"$caught\"}"
