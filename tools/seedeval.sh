#!/bin/bash
# usage: seedeval.sh <seed-dir> [--on-repo]   (seed-dir contains patch.diff, demo_test.go, meta.json)
# 1. confirms the seed in a scratch worktree of /repo: the demo passes without the change, the change applies and
#    builds, the demo fails with it, the unedited suite passes with it;
# 2. runs every check's quick tier on the changed tree (default: the scratch worktree through --repo; with --on-repo the
#    patch is applied to /repo itself, the checks run there and the patch is undone straight afterwards).
# Prints one JSON line; the rule-level report goes to <logdir>/<name>.checks.log. Removes the worktree on exit.
set -u
export GOFLAGS=-mod=mod GOPROXY=off GOSUMDB=off GOTOOLCHAIN=local GOWORK=off
sd=$(realpath "$1"); onrepo=${2:-}
name=$(basename "$sd"); case "$name" in C[0-9][0-9]-*) ;; *) name=$(basename "$(dirname "$sd")")-$name;; esac
logdir=${SEEDEVAL_LOGDIR:-/tmp/seedeval-logs}; mkdir -p "$logdir"
wt=/tmp/sw-$name
demo_dir=$(jq -r '.demo_dir // "."' "$sd/meta.json"); demo_cmd=$(jq -r .demo_cmd "$sd/meta.json")
git -C /repo worktree remove --force "$wt" >/dev/null 2>&1
git -C /repo worktree add --detach "$wt" HEAD -q || { echo "{\"seed\":\"$name\",\"error\":\"worktree\"}"; exit 1; }
trap 'git -C /repo worktree remove --force "$wt" >/dev/null 2>&1; rm -rf "$wt"' EXIT
cp "$sd/demo_test.go" "$wt/$demo_dir/zz_seed_demo_test.go"
demo_without=fail; (cd "$wt" && timeout 900 bash -c "$demo_cmd" >"$logdir/$name.without.log" 2>&1) && demo_without=pass
applies=yes; (cd "$wt" && git apply "$sd/patch.diff") || applies=no
suite=skip; demo_with=skip; builds=skip; caught=""; nviol=0
if [ $applies = yes ]; then
  builds=fail; (cd "$wt" && go build ./... >/dev/null 2>&1) && builds=pass
  demo_with=fail; (cd "$wt" && timeout 900 bash -c "$demo_cmd" >"$logdir/$name.with.log" 2>&1) && demo_with=pass
  rm -f "$wt/$demo_dir/zz_seed_demo_test.go"
  suite=fail
  for try in 1 2 3; do  # the suite has wall-clock performance tests that flake under load
    (cd "$wt" && timeout 1200 go test -vet=off -count=1 ./... >"$logdir/$name.suite.log" 2>&1) && { suite=pass; break; }
    grep -q "took too long" "$logdir/$name.suite.log" || break
  done
  if [ -n "${SEEDEVAL_NOCHECK:-}" ]; then
    out=""
  elif [ "$onrepo" = "--on-repo" ]; then
    if git -C /repo apply "$sd/patch.diff"; then
      out=$(/verif/bin/gmcheck all --tier quick --no-evidence 2>&1 | grep -v '^   ')
      git -C /repo checkout -- . ; git -C /repo clean -fdq
    else
      out="ERROR patch does not apply to /repo"
    fi
  else
    out=$(/verif/bin/gmcheck all --tier quick --no-evidence --repo "$wt" 2>&1 | grep -v '^   ')
  fi
  caught=$(echo "$out" | grep '^VIOLATION' | sed 's/.*property=\([A-Z0-9]*\).*/\1/' | sort -u | tr '\n' ' ')
  echo "$out" | grep -e '^VIOLATED' -e '^UNDECIDED' -e '^ERROR' | cut -c1-400 > "$logdir/$name.checks.log"
  nviol=$(wc -l < "$logdir/$name.checks.log")
fi
res="{\"seed\":\"$name\",\"applies\":\"$applies\",\"builds\":\"$builds\",\"suite\":\"$suite\",\"demo_without\":\"$demo_without\",\"demo_with\":\"$demo_with\",\"caught_by\":\"${caught% }\",\"reports\":$nviol}"
echo "$res" | tee "$logdir/$name.json"
