#!/bin/bash
# usage: neutraleval.sh <dir with patch.diff>   — a behaviour-preserving change: every check must stay silent on it.
# Applies the patch in a scratch worktree of /repo HEAD, builds, runs the unedited suite and every check's quick tier.
set -u
export GOFLAGS=-mod=mod GOPROXY=off GOSUMDB=off GOTOOLCHAIN=local GOWORK=off
sd=$(realpath "$1")
name=$(basename "$(dirname "$sd")")-$(basename "$sd")
logdir=${SEEDEVAL_LOGDIR:-/tmp/seedeval-logs}; mkdir -p "$logdir"
wt=/tmp/nw-$name
git -C /repo worktree remove --force "$wt" >/dev/null 2>&1
git -C /repo worktree add --detach "$wt" HEAD -q || { echo "{\"neutral\":\"$name\",\"error\":\"worktree\"}"; exit 1; }
trap 'git -C /repo worktree remove --force "$wt" >/dev/null 2>&1; rm -rf "$wt"' EXIT
applies=yes; (cd "$wt" && git apply "$sd/patch.diff") || applies=no
builds=skip; suite=skip; alarms=""; n=0
if [ $applies = yes ]; then
  builds=fail; (cd "$wt" && go build ./... >/dev/null 2>&1) && builds=pass
  suite=fail
  [ -n "${NEUTRAL_NOSUITE:-}" ] && suite=skipped
  [ -z "${NEUTRAL_NOSUITE:-}" ] && for try in 1 2 3; do
    (cd "$wt" && timeout 1200 go test -vet=off -count=1 ./... >"$logdir/$name.suite.log" 2>&1) && { suite=pass; break; }
    grep -q "took too long" "$logdir/$name.suite.log" || break
  done
  out=$(${GMCHECK:-/verif/bin/gmcheck} all --tier quick --no-evidence --repo "$wt" 2>&1 | grep -v '^   ')
  alarms=$(echo "$out" | grep '^VIOLATION' | sed 's/.*property=\([A-Z0-9]*\).*/\1/' | sort -u | tr '\n' ' ')
  echo "$out" | grep -e '^VIOLATED' -e '^UNDECIDED' -e '^ERROR' | cut -c1-500 > "$logdir/$name.checks.log"
  n=$(wc -l < "$logdir/$name.checks.log")
fi
echo "{\"neutral\":\"$name\",\"applies\":\"$applies\",\"builds\":\"$builds\",\"suite\":\"$suite\",\"alarms\":\"${alarms% }\",\"reports\":$n}" | tee "$logdir/$name.json"
