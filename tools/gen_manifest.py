#!/usr/bin/env python3
"""Regenerates /verif/MANIFEST.json from the table below (kept in one place so it stays valid)."""
import json, subprocess

props = [json.loads(l)["id"] for l in open("/verif/properties.jsonl")]

BIN = "/verif/bin/gmcheck"
ENSURE = "test -x /verif/bin/gmcheck || (cd /verif/checker && GOFLAGS=-mod=vendor GOPROXY=off GOSUMDB=off GOTOOLCHAIN=local GOWORK=off go build -o /verif/bin/gmcheck .) && "

# id -> (level, technique, text, note, design_ref)
claimed = {
 "C06": ("other", "effect analysis over SSA + refined VTA call graph (stores into shared/node memory, nondeterminism sources, Convert shape)",
         "Static effect analysis decides necessary conditions of purity for every path of the code: no store into configuration/global memory reachable per call outside sync.Once, no stateful foreign object in shared memory, rendering never writes node memory (except nil-guarded memoisation), no nondeterminism source, Convert = Parse;Render. It covers all inputs, histories and configurations of the built-in components at once but does not compare output bytes.",
         "type-directed memory classes; VTA call graph with pass-site refinement; user extensions and caller-supplied Context out of scope", "DESIGN.md 3/C06"),
 "C07": ("proof", "effect analysis: shared-memory write inventory + sync.Once discipline + init-only registries + thread-safe foreign receivers + C12",
         "A complete race-freedom argument modulo the stated trusted base: every write performed by a call goes to memory no concurrent call can reach (S, O, I, T) and the source buffer is never written (B = C12). All obligations are recomputed from /repo's source on every run.",
         "Go memory model for sync.Once; table of concurrency-safe stdlib types; call-graph refinement; type-directed memory classes; user extensions out of scope", "DESIGN.md 3/C07"),
 "C12": ("proof", "ownership (freshness) dataflow over SSA for every []byte write site + copy-on-write typestate + unsafe inventory",
         "Every way Go code can write through a []byte (indexed store, copy, append, writing callee, unsafe) is enumerated over all functions of the 9 packages and each destination is proved to be memory allocated by the writing activation (or a capped sub-slice for append). Complete modulo the trusted base.",
         "Go slice semantics; table of writing stdlib functions; io.Writer contract; user-supplied Writer/extensions out of scope", "DESIGN.md 3/C12"),
}

na_reasons = {
 "C02": "conformance is a relation between input structure and the specification's output values; no clause is visible in the shape of the code and the specification text is not available offline (DESIGN.md section 4)",
 "C16": "numbering/back-link consistency depends on counts accumulated across parse phases and on which references survive into the rendered tree; value-level, out of reach of static analysis here (DESIGN.md section 4)",
}

checks = []
for pid in props:
    if pid in claimed:
        level, tech, text, note, ref = claimed[pid]
        checks.append({
            "property_id": pid,
            "quick_cmd": f"{ENSURE}{BIN} {pid} --tier quick",
            "thorough_cmd": f"{ENSURE}{BIN} {pid} --tier thorough",
            "evidence_file": f"/verif/evidence/{pid}.json",
            "replay_cmd_template": f"{BIN} {pid} --replay {{path}}",
            "engine": "gmcheck",
            "level_claimed": {"category": level, "text": text, "design_ref": ref},
            "level_note": note,
            "technique": "static analysis: " + tech,
        })
na = []
for pid in props:
    if pid not in claimed:
        na.append({"property_id": pid, "reason": na_reasons.get(pid, "check not built yet (planned rules in DESIGN.md section 3)")})

m = {
 "version": 1,
 "setup_cmd": "cd /verif/checker && GOFLAGS=-mod=vendor GOPROXY=off GOSUMDB=off GOTOOLCHAIN=local GOWORK=off go build -o /verif/bin/gmcheck .",
 "hooks": {"guard": "verif", "enable": "none needed: static analysis reads /repo's source; nothing is compiled into goldmark",
           "baseline_off_cmd": "cd /repo && GOFLAGS=-mod=mod GOPROXY=off GOSUMDB=off go test -vet=off -count=1 ./...",
           "source_commits": [], "add_only": True},
 "engines": [{"name": "gmcheck", "path": "/verif/checker", "serves_properties": sorted(claimed), "kind_free_text": "custom static analyser over go/packages + go/ssa + VTA call graph (x/tools v0.29.0, vendored)"}],
 "checks": checks,
 "notes": "All checks are static: they load and type-check /repo's current source on every run. Repairs of genuine defects found by the rules are the 'fix:' commits in /repo, recorded in /verif/known_findings.txt.",
 "not_applicable": na,
}
json.dump(m, open("/verif/MANIFEST.json", "w"), indent=1)
print("claimed:", sorted(claimed), "n/a:", [x["property_id"] for x in na])
