#!/usr/bin/env python3
"""Regenerates /verif/MANIFEST.json from the checker's own registry (`gmcheck describe`) and the
technique table below, so the manifest always lists exactly the properties that have rules."""
import json, subprocess

props = [json.loads(l)["id"] for l in open("/verif/properties.jsonl")]

BIN = "/verif/bin/gmcheck"
BUILD = "cd /verif/checker && GOFLAGS=-mod=vendor GOPROXY=off GOSUMDB=off GOTOOLCHAIN=local GOWORK=off go build -o /verif/bin/gmcheck ."
ENSURE = "test -x /verif/bin/gmcheck || (" + BUILD + ") && "

desc = {d["ID"]: d for d in json.loads(subprocess.check_output([BIN, "describe"]))}

# id -> the deciding method, in a few words
technique = {
 "C01": "loop-progress (stuck-cycle) analysis over SSA cycles, must-advance path rule for inline parsers, countdown-underflow contradiction rule, reachable-panic inventory, registry/type-assertion agreement, window-guard coverage of constant-offset lookahead reads, compared-before-use rule for computed slice ends",
 "C02": "constant evaluation and sibling cross-check of the numeric-character-reference decoders (base and length guard of every strconv.Parse call on a scanned digit run) + evaluation of the backslash-escapable byte set for all 256 values, typestate of the label normaliser, column-origin rule for indentation helpers in block parsers, Open-initialises-state rule for per-block context keys, all-byte-values evaluation of the title delimiter pairs at sibling sites",
 "C16": "template extraction from the sink model's attribute contexts (id/href piece sequences compared across render functions) + dominance rules for the numbering discipline + stale-cursor (iterate-and-remove) rule, no-loop rule for the numbering store, insertion-point rule of the list sort",
 "C03": "taint-to-sink dataflow over SSA with an HTML lexer-state dataflow over the constant writes (attribute contexts), dominance by the Unsafe flag, constant-vocabulary extraction, escape-table evaluation",
 "C04": "dominance/guard analysis of every href/src sink found by the lexer-state dataflow + same-value (SSA identity) rule between tested and written URL + constant evaluation of the predicate tables",
 "C05": "path enumeration over the SSA CFG of every tree mutator with paired-effect (count vs attach/detach) accounting, link-symmetry rule, who-may-call rule for raw link setters, detached-node/ends/foreign-guard path rules, stale-cursor (iterate-and-unlink) rule for sibling and link-field cursors",
 "C06": "effect analysis over SSA + refined VTA call graph (stores into shared/node memory, nondeterminism sources, Convert shape)",
 "C07": "effect analysis: shared-memory write inventory + sync.Once discipline + init-only registries + thread-safe foreign receivers + C12",
 "C08": "symbolic linear-form rule on every reader.Advance argument in BlockParser.Open/Continue (never the whole peeked line) + who-may-call rule for AdvanceLine, blank-line guard rule for trigger-less block parsers, path rule for the block-quote marker and its one optional space",
 "C09": "call-graph phase separation (AddReference only in the block phase, lookups only in the inline phase, block phase dominates inline phase) + first-definition-wins dominance rule, Open-initialises-state dominance rule for per-block context keys, close-all-at-end-of-input rule for the block-phase driver, title-delimiter sibling agreement",
 "C10": "option-flag use-shape analysis over SSA (each load of XHTML/HardWraps/Unsafe only as a branch between constant writes that differ as the statement allows) + option propagation/table agreement, path rule: every soft-break path consults HardWraps",
 "C11": "shape rule for GFM composition + path rule: only the width predicate may suppress the soft line break, constant evaluation of extension trigger sets against the statement's characters, required-literal analysis of the table delimiter patterns",
 "C12": "ownership (freshness) dataflow over SSA for every []byte write site + copy-on-write typestate + unsafe inventory",
 "C13": "path enumeration over tree mutators (count/link pairing, symmetry, detach-before-attach) + finite-state exploration of the Walk helper's CFG x abstract status/error domain, insertion-point rule for the in-place sort, loop invariant for the carried head",
 "C14": "return-value provenance (Render returns Flush() or the walk error; Convert returns it) + single-output-channel rule over all sinks + no control flow on write results, origin rule for the BufWriter (caller's own or bufio.NewWriter of the caller's writer)",
 "C15": "postcondition rule on the id generator (returned id inserted under a miss-edge of a lookup of the same key, non-empty) + per-document table + must-serve dataflow in every heading parser's Close",
 "C17": "dominance rule on the table transformer (header width == alignments) + per-iteration path enumeration of the row builder (one cell per column index, bounded by len(alignments)), counter-continuity rule between the cell loops",
 "C18": "cache-coherence path rule on every reader method (each store to the cursor resets the derived caches) + restore-on-exit rule for the search helpers + sibling cross-check",
 "C19": "per-cycle byte-set evaluation of URLEscape (every verbatim byte admitted by the path facts, evaluated for all 256 values), freshness (no aliasing) rule for derived byte filters, constant evaluation of the lookup tables, no-argument-write rule for exported util functions, sibling/field-coverage rule for derived filters, exact-window-guard contradiction rule, typestate of the label normaliser",
 "C20": "dominance rules over the initialisers (sort dominates build, free parsers after all block parsers), comparator normal form, registration-loop direction, bounds-guarded dispatch",
}

technique_round3 = {
 "C01": "positive-step rule for computed index advances, owner-guard rule for per-block state resets, completeness/linearity rule for the link-in-link search",
 "C02": "blank-flag carry-over rule for replacing blocks, fold-case analysis of the HTML block end condition, per-cycle byte-set evaluation of the case-folding loop",
 "C03": "escape-always-written reachability rule in the sanitiser loops, return-provenance rule for the rewriting utilities, byte-comparison dominance rule for filter membership, stored-value provenance of by-name option setters",
 "C04": "path enumeration of the URL predicate (false only after all scheme tests failed), stored-value provenance of by-name option setters",
 "C05": "sibling-loop cycle rule for the link-in-link search, link symmetry inside re-linking helpers",
 "C06": "pass-through rule for Convert wrappers, allocation-site (ownership) rule for configured-in-place components, package-level objects in the shared-memory class",
 "C07": "package-level objects in the shared-memory class, ownership rule for configured-in-place components",
 "C08": "dominance rule for the blank-line skipper, path enumeration of the block quote render function (tags on every path, branch-condition whitelist), span-provenance rule (two different segment bases) for raw source reads in the inline phase",
 "C09": "owner-guard dominance rule for per-block state resets, fold-case analysis (regexp syntax tree / ToLower dataflow) of the type-1 HTML block end condition",
 "C10": "stored-value provenance of by-name option setters, allocation-site (ownership) rule for configured-in-place components",
 "C11": "restore-between-parsers cycle rule in the inline dispatch loop, reachability rule from parent-mutating calls to nil returns, returned-list provenance in the delimiter-row parser",
 "C12": "foreign-writer table extended to package slices and bytes.NewBuffer ownership",
 "C13": "link symmetry inside re-linking helpers",
 "C14": "pass-through rule for Convert wrappers",
 "C15": "constructor-provenance rule for every context Parse installs",
 "C16": "must-clear forward dataflow for document accumulators in the AST transformer, dominance rule: returned reference node is appended to the reference list, tree-mutator path rules",
 "C17": "path enumeration of the table render functions (status constant, tags on every entering/leaving path)",
 "C18": "field-dependence rule: Value loads no cursor field",
 "C19": "byte-comparison dominance rule for filter membership, per-cycle byte-set evaluation of the case-folding loop, return-provenance rule for rewriters, interprocedural provenance of parsed code points",
 "C20": "restore-between-parsers cycle rule, walk-not-bypassed reachability rule in openBlocks, spread/store provenance in the add function",
}
technique_round3["C01"] += ", attachment precondition propagated up the call chain from the paragraph transformers"
technique_round3["C02"] += ", exact backward/forward window-guard rules (needed-offset analysis), IsRaw dominance rule for the decoding writer"
technique_round3["C05"] += ", must-dispose path rule for openers taken off the pending list"
technique_round3["C09"] += ", exact window guards outside util (needed-offset analysis), nil-line/blank-line successor agreement"
technique_round3["C11"] += ", literal-prefix analysis of the WWW pattern with a dominating raw-line prefix test"
technique_round3["C01"] += ", inductive flag/mark/index invariant over feasible loop cycles, forward must-analysis 'success implies progress' for sub-parsers called in loops"
technique_round3["C05"] += ", stale-handle rule for loops that replace the node they work on"
technique_round3["C09"] += ", read-modify-write rule for document-level accumulators in the parse context"
technique_round3["C16"] += ", dominance of the list sort over attaching the list"
technique_round3["C19"] += ", ordering rule (copy parent state before adding keys) in the deriving methods"
technique_round3["C01"] += ", window rule through helper reads with both-edge guard normalisation, sibling agreement of comparisons with a named byte constant"
technique_round3["C02"] += ", key-provenance rule for lower-case word tables, per-cycle index-advance rule in the resolving writer"
technique_round3["C06"] += ", global-rooted write rule over constructors and option constructors"
technique_round3["C08"] += ", segment-provenance rule for source slices in render functions, taint rule: the preceding character reaches no comparison with a white-space constant"
technique_round3["C10"] += ", allocation-rooted application of functional options in constructors, segment-provenance rule for source slices in render functions"
technique_round3["C11"] += ", allow-list of registration constructors for the options an Extend method passes on, per-edge byte-set data-flow over the typographer, dominance of a caret test on the peeked line in the footnote parsers"
technique_round3["C13"] += ", path rule: end pointers stored wherever the unlinked child was first or last, adopted-parameter propagation for detach-from-anywhere helpers"
technique_round3["C15"] += ", allocation-rooted application of functional options in the heading parser constructors"
technique_round3["C16"] += ", single-allocation rule for the table of running ordinals"
for k, v in technique_round3.items():
    technique[k] = technique[k] + "; " + v

na_reasons = {
 "C02": "conformance is a relation between input structure and the specification's output values; no clause is visible in the shape of the code and the specification text is not available offline (DESIGN.md section 4)",
 "C16": "numbering/back-link consistency depends on counts accumulated across parse phases and on which references survive into the rendered tree; value-level, out of reach of static analysis here (DESIGN.md section 4)",
}

checks = []
for pid in props:
    if pid in desc:
        d = desc[pid]
        note = "trusted base: " + "; ".join(d.get("Trusted") or ["Go semantics as modelled by go/ssa"]) + ". assumes: " + "; ".join(d.get("Assumes") or ["user-supplied extensions out of scope"])
        checks.append({
            "property_id": pid,
            "quick_cmd": f"{ENSURE}{BIN} {pid} --tier quick",
            "thorough_cmd": f"{ENSURE}{BIN} {pid} --tier thorough",
            "evidence_file": f"/verif/evidence/{pid}.json",
            "replay_cmd_template": f"{BIN} {pid} --replay {{path}}",
            "engine": "gmcheck",
            "level_claimed": {"category": d["Level"], "text": d["Explain"], "design_ref": f"DESIGN.md 3/{pid}"},
            "level_note": note,
            "technique": "static analysis: " + technique[pid],
        })
na = []
for pid in props:
    if pid not in desc:
        na.append({"property_id": pid, "reason": na_reasons.get(pid, "check not built yet (planned rules in DESIGN.md section 3)")})

m = {
 "version": 1,
 "setup_cmd": BUILD,
 "hooks": {"guard": "verif", "enable": "none needed: static analysis reads /repo's source; nothing is compiled into goldmark",
           "baseline_off_cmd": "cd /repo && GOFLAGS=-mod=mod GOPROXY=off GOSUMDB=off go test -vet=off -count=1 ./...",
           "source_commits": [], "add_only": True},
 "engines": [{"name": "gmcheck", "path": "/verif/checker", "serves_properties": sorted(desc), "kind_free_text": "custom static analyser over go/packages + go/ssa + VTA call graph (x/tools v0.29.0, vendored)"}],
 "checks": checks,
 "notes": "All checks are static: they load and type-check /repo's current source on every run. Repairs of genuine defects found by the rules are the 'fix:' commits in /repo, recorded in /verif/known_findings.txt.",
 "not_applicable": na,
}
json.dump(m, open("/verif/MANIFEST.json", "w"), indent=1)
print("claimed:", sorted(desc), "n/a:", [x["property_id"] for x in na])
