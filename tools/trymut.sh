#!/bin/bash
# usage: trymut.sh <patch.diff> <ID|all> [more gmcheck args]
# Applies a patch to a scratch copy of /repo (never to /repo itself), runs the checks on it, removes the copy.
set -u
patch=$1; shift
id=$1; shift
d=$(mktemp -d /tmp/gmmut-XXXXXX)
trap 'rm -rf "$d"' EXIT
cp -r /repo/. "$d"/ && rm -rf "$d/.git"
if ! (cd "$d" && patch -p1 -s --no-backup-if-mismatch < "$patch"); then echo "PATCH-FAILED $patch"; exit 3; fi
/verif/bin/gmcheck "$id" --repo "$d" "$@" | grep -v '^   ' | sed "s#$d/##g" | cut -c1-400
exit ${PIPESTATUS[0]}
