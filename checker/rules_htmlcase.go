package main

// rules_htmlcase.go — C09-H (also C02): the end condition of HTML blocks that start with <script, <pre, <style or
// <textarea is matched case-insensitively, like their start condition (CommonMark: "case-insensitive; it need not
// match the start tag"). A block whose end tag is written </PRE> must close; otherwise it swallows every following
// block of the document.

import (
	"fmt"
	"go/token"
	"go/types"
	"regexp/syntax"
	"strings"

	"golang.org/x/tools/go/ssa"
)

func hasASCIILetter(s string) bool {
	for i := 0; i < len(s); i++ {
		c := s[i] | 0x20
		if c >= 'a' && c <= 'z' {
			return true
		}
	}
	return false
}

// regexpFoldsLetters: every literal of the pattern that contains an ASCII letter is matched with case folding.
func regexpFoldsLetters(re *syntax.Regexp) bool {
	switch re.Op {
	case syntax.OpLiteral:
		if hasASCIILetter(string(re.Rune)) && re.Flags&syntax.FoldCase == 0 {
			return false
		}
	case syntax.OpCharClass:
		// classes are sets; a class listing only one case of a letter is case-sensitive
		has := func(r rune) bool {
			for i := 0; i+1 < len(re.Rune); i += 2 {
				if re.Rune[i] <= r && r <= re.Rune[i+1] {
					return true
				}
			}
			return false
		}
		for c := 'a'; c <= 'z'; c++ {
			if has(c) != has(c-32) {
				return false
			}
		}
	}
	for _, s := range re.Sub {
		if !regexpFoldsLetters(s) {
			return false
		}
	}
	return true
}

// needleLetters: does the constant byte string compared against contain ASCII letters? (unknown => true)
func (w *World) needleLetters(v ssa.Value) bool {
	v = stripConv(v)
	if cv, ok := v.(*ssa.Convert); ok {
		if s, ok := constString(cv.X); ok {
			return hasASCIILetter(s)
		}
	}
	if s, ok := constString(v); ok {
		return hasASCIILetter(s)
	}
	if bl, ok := byteLiteral(v); ok {
		return hasASCIILetter(string(bl))
	}
	if u, ok := v.(*ssa.UnOp); ok && u.Op == token.MUL {
		if g, ok := u.X.(*ssa.Global); ok {
			// the value stored at package initialisation
			for _, fn := range w.Funcs {
				if fn.Name() != "init" || fn.Pkg != g.Pkg {
					continue
				}
				for _, b := range fn.Blocks {
					for _, ins := range b.Instrs {
						if st, ok := ins.(*ssa.Store); ok && st.Addr == ssa.Value(g) {
							return w.needleLetters(st.Val)
						}
					}
				}
			}
		}
	}
	return true
}

func foldedHaystack(v ssa.Value) bool {
	found := false
	operandsClosure(v, func(x ssa.Value) bool {
		if c, ok := x.(*ssa.Call); ok {
			if cal := c.Common().StaticCallee(); cal != nil {
				switch cal.String() {
				case "bytes.ToLower", "bytes.ToUpper", "strings.ToLower", "strings.ToUpper":
					found = true
				}
			}
		}
		return !found
	})
	return found
}

// caseSensitiveTests lists the byte tests in the given blocks (and in module helpers they call with a []byte) that
// compare letters case-sensitively.
func (w *World) caseSensitiveTests(fn *ssa.Function, in func(*ssa.BasicBlock) bool, depth int, seen map[*ssa.Function]bool, nTests *int) []string {
	var bad []string
	for _, b := range fn.Blocks {
		if !in(b) {
			continue
		}
		for _, ins := range b.Instrs {
			// a test kept as a function value: a bound regexp method (re.Match) or a closure
			if mc, isMC := ins.(*ssa.MakeClosure); isMC {
				if cf, isF := mc.Fn.(*ssa.Function); isF {
					if strings.Contains(cf.String(), "(*regexp.Regexp).") && len(mc.Bindings) == 1 {
						*nTests++
						if msg := w.regexpCaseSensitive(mc.Bindings[0], w.InstrPos(mc)); msg != "" {
							bad = append(bad, msg)
						}
					} else if w.InModule(cf) && !seen[cf] && depth < 3 {
						seen[cf] = true
						bad = append(bad, w.caseSensitiveTests(cf, func(*ssa.BasicBlock) bool { return true }, depth+1, seen, nTests)...)
					}
				}
				continue
			}
			c, ok := ins.(*ssa.Call)
			if !ok {
				continue
			}
			cal := c.Common().StaticCallee()
			if cal == nil {
				continue
			}
			name := cal.String()
			switch {
			case strings.HasPrefix(name, "(*regexp.Regexp).Match") || strings.HasPrefix(name, "(*regexp.Regexp).Find"):
				*nTests++
				if msg := w.regexpCaseSensitive(c.Common().Args[0], w.InstrPos(c)); msg != "" {
					bad = append(bad, msg)
				}
				continue
			case name == "bytes.Contains" || name == "bytes.HasPrefix" || name == "bytes.HasSuffix" || name == "bytes.Equal" || name == "bytes.Index":
				*nTests++
				if w.needleLetters(c.Common().Args[1]) && !foldedHaystack(c.Common().Args[0]) {
					bad = append(bad, w.InstrPos(c)+": "+name+" compares letters case-sensitively")
				}
			case name == "bytes.EqualFold":
				*nTests++
			case w.InModule(cal) && depth < 3 && !seen[cal]:
				takesBytes := false
				for _, a := range c.Common().Args {
					if isByteSlice(a.Type()) {
						takesBytes = true
					}
				}
				if takesBytes && cal.Signature.Results().Len() == 1 && isBool(cal.Signature.Results().At(0).Type()) {
					seen[cal] = true
					inCal := func(*ssa.BasicBlock) bool { return true }
					if w.htmlType1 != nil {
						if sub, k := blocksUnderBlockType(cal, *w.htmlType1); k > 0 {
							inCal = func(b *ssa.BasicBlock) bool { return sub[b] }
						}
					}
					bad = append(bad, w.caseSensitiveTests(cal, inCal, depth+1, seen, nTests)...)
				}
			}
		}
	}
	return bad
}

func ruleHTMLBlockEndCaseInsensitive(w *World, r *Report) {
	r.Rule("C09-H", "In the Continue method of the block parser that produces HTML blocks, the arm selected by block type 1 (script/pre/style/textarea) decides the end of the block only by byte tests that treat letters case-insensitively: a regular expression all of whose letter-bearing literals carry the fold-case flag, bytes.EqualFold, or a bytes.Contains/HasPrefix/… whose subject went through ToLower/ToUpper (tests against letter-free constants are exempt). An end tag spelled </PRE> or </Script> otherwise never closes the block, which then swallows the rest of the document: a closed block changes how everything after it is rendered.")
	it := w.Iface("parser", "BlockParser")
	n := 0
	for _, t := range w.Implementers(it) {
		open, cont := w.MethodOf(t, "Open"), w.MethodOf(t, "Continue")
		if open == nil || cont == nil || !w.InModule(cont) {
			continue
		}
		// produces HTML blocks?
		makes := false
		for _, b := range open.Blocks {
			for _, ins := range b.Instrs {
				if c, ok := ins.(*ssa.Call); ok {
					if cal := c.Common().StaticCallee(); cal != nil && cal.Name() == "NewHTMLBlock" {
						makes = true
					}
				}
			}
		}
		if !makes {
			continue
		}
		type1, ok := constIntOfObj(w, "ast", "HTMLBlockType1")
		if !ok {
			r.Unknown("ast.HTMLBlockType1", "", "constant not found")
			return
		}
		// the blocks that can run when the block's type is 1: every comparison of a value of the block-type type with a
		// constant is decided, other branches are followed both ways
		arm, nTypeTests := blocksUnderBlockType(cont, type1)
		key := typeShort(t) + ".Continue: type-1 end condition is case-insensitive"
		if nTypeTests == 0 {
			r.Unknown(key, w.FnPos(cont), "no arm selected by HTMLBlockType1 found")
			continue
		}
		n++
		nTests := 0
		w.htmlType1 = &type1
		bad := w.caseSensitiveTests(cont, func(b *ssa.BasicBlock) bool { return arm[b] }, 0, map[*ssa.Function]bool{}, &nTests)
		switch {
		case len(bad) > 0:
			r.Bad(key, w.FnPos(cont), strings.Join(bad, "; "))
		case nTests == 0:
			r.Unknown(key, w.FnPos(cont), "the arm contains no recognisable byte test")
		default:
			r.OK(key, w.FnPos(cont), fmt.Sprintf("%d byte test(s), all case-insensitive", nTests))
		}
	}
	r.Expect("HTML block parsers", n, 1)
}

// blocksUnderBlockType: the blocks of fn reachable from its entry when every value of the HTML block-type type equals k
// (in Continue and the helpers it hands the type to, such a value is the type of the block being continued); the second
// result counts the comparisons that were decided.
func blocksUnderBlockType(fn *ssa.Function, k int64) (map[*ssa.BasicBlock]bool, int) {
	out := map[*ssa.BasicBlock]bool{}
	if len(fn.Blocks) == 0 {
		return out, 0
	}
	nTests := 0
	decide := func(iff *ssa.If) (bool, bool) {
		bo, ok := iff.Cond.(*ssa.BinOp)
		if !ok || (bo.Op != token.EQL && bo.Op != token.NEQ) {
			return false, false
		}
		x, y := bo.X, bo.Y
		c, isC := constInt(y)
		if !isC {
			c, isC = constInt(x)
			x = y
		}
		if !isC || !strings.Contains(typeShort(x.Type()), "HTMLBlockType") {
			return false, false
		}
		if _, isConst := x.(*ssa.Const); isConst {
			return false, false
		}
		return (c == k) == (bo.Op == token.EQL), true
	}
	work := []*ssa.BasicBlock{fn.Blocks[0]}
	out[fn.Blocks[0]] = true
	for len(work) > 0 {
		b := work[len(work)-1]
		work = work[:len(work)-1]
		succs := b.Succs
		if iff, ok := b.Instrs[len(b.Instrs)-1].(*ssa.If); ok {
			if truth, known := decide(iff); known {
				nTests++
				if truth {
					succs = b.Succs[:1]
				} else {
					succs = b.Succs[1:2]
				}
			}
		}
		for _, s := range succs {
			if !out[s] {
				out[s] = true
				work = append(work, s)
			}
		}
	}
	return out, nTests
}

func constIntOfObj(w *World, pkg, name string) (int64, bool) {
	c, ok := w.Obj(pkg, name).(*types.Const)
	if !ok {
		return 0, false
	}
	return constIntVal(c)
}

// regexpCaseSensitive: "" if the regexp value (a load of a package-level variable compiled from one constant) folds
// case on every letter-bearing literal, otherwise what is wrong.
func (w *World) regexpCaseSensitive(v ssa.Value, pos string) string {
	ld, ok := v.(*ssa.UnOp)
	if !ok {
		return pos + ": regular expression that is not a package-level constant pattern"
	}
	g, ok := ld.X.(*ssa.Global)
	if !ok {
		return pos + ": regular expression that is not a package-level constant pattern"
	}
	pat, ok := w.globalRegexpPattern(g)
	if !ok {
		return pos + ": pattern of " + g.Name() + " is not a single constant"
	}
	re, err := syntax.Parse(pat, syntax.Perl)
	if err != nil || !regexpFoldsLetters(re) {
		return fmt.Sprintf("%s: pattern %q matches letters case-sensitively", pos, pat)
	}
	return ""
}
