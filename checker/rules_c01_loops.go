package main

// rules_c01_loops.go — C01-L (no stuck cycle) and C01-A (inline parsers advance on success).

import (
	"fmt"
	"go/token"
	"go/types"
	"sort"
	"strings"

	"golang.org/x/tools/go/ssa"
)

// =============================== C01-A ============================================================

var readerAdvancers = map[string]bool{"Advance": true, "AdvanceAndSetPadding": true, "AdvanceLine": true, "SkipSpaces": true,
	"SkipBlankLines": true, "Match": true, "FindSubMatch": true, "ReadRune": true, "FindClosure": true}

type advSummary struct {
	all    bool // every return is reached only after a moving call on the reader
	nonNil bool // every return of a possibly non-nil first result is reached only after a moving call
	why    string
	pos    token.Pos
}

type advAnalysis struct {
	w      *World
	reader *types.Named
	memo   map[*ssa.Function]*advSummary
	active map[*ssa.Function]bool
}

func (a *advAnalysis) readerParam(fn *ssa.Function) *ssa.Parameter {
	for _, p := range fn.Params {
		if types.Identical(p.Type(), a.reader) {
			return p
		}
	}
	return nil
}

// callSummary: if c passes rp to a module function with a body as its reader parameter, returns its summary.
func (a *advAnalysis) callSummary(c *ssa.CallCommon, rp *ssa.Parameter) *advSummary {
	cal := c.StaticCallee()
	if cal == nil || cal.Blocks == nil || !a.w.InModule(cal) {
		return nil
	}
	crp := a.readerParam(cal)
	if crp == nil {
		return nil
	}
	idx := paramIndex(cal, crp)
	if idx < 0 || idx >= len(c.Args) || c.Args[idx] != ssa.Value(rp) {
		return nil
	}
	return a.summary(cal)
}

func (a *advAnalysis) summary(fn *ssa.Function) *advSummary {
	if s, ok := a.memo[fn]; ok {
		return s
	}
	if a.active[fn] {
		return &advSummary{why: "recursion"}
	}
	a.active[fn] = true
	defer delete(a.active, fn)
	rp := a.readerParam(fn)
	s := &advSummary{all: true, nonNil: true}
	if rp == nil {
		s.all, s.nonNil = false, false
		a.memo[fn] = s
		return s
	}
	moves := func(ins ssa.Instruction) bool {
		c, ok := ins.(ssa.CallInstruction)
		if !ok {
			return false
		}
		com := c.Common()
		if com.IsInvoke() && com.Value == ssa.Value(rp) && readerAdvancers[com.Method.Name()] {
			return true
		}
		if cs := a.callSummary(com, rp); cs != nil && cs.all {
			return true
		}
		return false
	}
	// nonNilImpliesAdvanced: v is the (first) result of a call whose summary says non-nil ⇒ advanced
	nnCall := func(v ssa.Value) bool {
		v = stripIfaceConv(v)
		if ex, ok := v.(*ssa.Extract); ok && ex.Index == 0 {
			v = ex.Tuple
		}
		c, ok := v.(*ssa.Call)
		if !ok {
			return false
		}
		cs := a.callSummary(c.Common(), rp)
		return cs != nil && cs.nonNil
	}
	n := len(fn.Blocks)
	in := make([]bool, n)
	out := make([]bool, n)
	for i := range in {
		in[i], out[i] = true, true
	}
	edgeState := func(p *ssa.BasicBlock, succIdx int) bool {
		s := out[p.Index]
		if s {
			return true
		}
		if iff, ok := p.Instrs[len(p.Instrs)-1].(*ssa.If); ok && len(p.Succs) == 2 && p.Succs[0] != p.Succs[1] {
			for _, at := range condAtoms(iff.Cond, succIdx == 0) {
				if x, isNil, ok := nilTest(at.V); ok && isNil != at.Truth && nnCall(x) {
					return true
				}
				// ok-flag of a two-result call: `x, ok := f(block)`; not used by the built-in parsers
			}
		}
		return false
	}
	for changed := true; changed; {
		changed = false
		for _, b := range fn.Blocks {
			st := true
			if b.Index == 0 {
				st = false
			} else {
				for _, p := range b.Preds {
					for si, su := range p.Succs {
						if su == b && !edgeState(p, si) {
							st = false
						}
					}
				}
				if len(b.Preds) == 0 {
					st = false
				}
			}
			in[b.Index] = st
			for _, ins := range b.Instrs {
				if moves(ins) {
					st = true
				}
			}
			if st != out[b.Index] {
				out[b.Index] = st
				changed = true
			}
		}
	}
	var leafOK func(v ssa.Value, seen map[ssa.Value]bool) bool
	leafOK = func(v ssa.Value, seen map[ssa.Value]bool) bool {
		v = stripIfaceConv(v)
		if seen[v] {
			return true
		}
		seen[v] = true
		if isNilConst(v) || nnCall(v) {
			return true
		}
		if phi, ok := v.(*ssa.Phi); ok {
			blk := phi.Block()
			for i, e := range phi.Edges {
				p := blk.Preds[i]
				es := false
				for si, su := range p.Succs {
					if su == blk && edgeState(p, si) {
						es = true
					}
				}
				if es {
					continue
				}
				if !leafOK(e, seen) {
					return false
				}
			}
			return true
		}
		return false
	}
	for _, b := range fn.Blocks {
		rt, ok := b.Instrs[len(b.Instrs)-1].(*ssa.Return)
		if !ok {
			continue
		}
		// state just before the return
		st := in[b.Index]
		for _, ins := range b.Instrs {
			if moves(ins) {
				st = true
			}
		}
		if st {
			continue
		}
		s.all = false
		if len(rt.Results) == 0 {
			s.nonNil = false
			s.pos = rt.Pos()
			continue
		}
		res := rt.Results[0]
		switch res.Type().Underlying().(type) {
		case *types.Pointer, *types.Interface:
			if !leafOK(res, map[ssa.Value]bool{}) {
				s.nonNil = false
				if s.pos == token.NoPos {
					s.pos = rt.Pos()
				}
			}
		default:
			s.nonNil = false
			s.pos = rt.Pos()
		}
	}
	a.memo[fn] = s
	return s
}

func stripIfaceConv(v ssa.Value) ssa.Value {
	for {
		switch x := v.(type) {
		case *ssa.MakeInterface:
			v = x.X
		case *ssa.ChangeInterface:
			v = x.X
		case *ssa.ChangeType:
			v = x.X
		default:
			return v
		}
	}
}

func ruleInlineParsersAdvance(w *World, r *Report) {
	r.Rule("C01-A", "In every implementation of parser.InlineParser.Parse, every path to a return of a possibly non-nil node contains a call that can move the block reader (Advance, AdvanceAndSetPadding, AdvanceLine, SkipSpaces, SkipBlankLines, Match, FindSubMatch, ReadRune, FindClosure on the reader parameter, or a module callee receiving the reader that moves it on all its paths; a result handed through from a callee whose own non-nil returns all advance is accepted). parseBlock re-peeks the same position after a non-nil result, so a non-nil return without progress is an unconditional hang with unbounded growth of the tree.")
	reader := w.Named("text", "Reader")
	it := w.Iface("parser", "InlineParser")
	if reader == nil || it == nil {
		r.Unknown("parser.InlineParser / text.Reader", "", "not found")
		return
	}
	a := &advAnalysis{w: w, reader: reader, memo: map[*ssa.Function]*advSummary{}, active: map[*ssa.Function]bool{}}
	n := 0
	for _, t := range w.Implementers(it) {
		fn := w.MethodOf(t, "Parse")
		if fn == nil || fn.Blocks == nil || !w.InModule(fn) {
			continue
		}
		n++
		key := w.FnKey(fn)
		s := a.summary(fn)
		if s.why == "recursion" {
			r.Unknown(key, w.FnPos(fn), "recursive helper: not decided")
		} else if s.nonNil {
			r.OK(key, w.FnPos(fn), "every possibly non-nil return is preceded by a reader-moving call on every path")
		} else {
			r.Bad(key, w.Pos(s.pos), "a path returns a possibly non-nil node without any call that moves the reader: the inline loop would re-parse the same position forever")
		}
	}
	r.Expect("InlineParser implementations", n, 5)
}

// =============================== C01-L ============================================================

var pureStdPkgs = map[string]bool{"bytes": true, "strings": true, "unicode": true, "unicode/utf8": true, "strconv": true, "math": true, "math/bits": true, "unicode/utf16": true}

type purity struct {
	w    *World
	memo map[*ssa.Function]int // 0 unknown, 1 pure, 2 impure, 3 in progress
}

func (p *purity) pureFn(fn *ssa.Function) bool {
	if fn == nil {
		return false
	}
	switch p.memo[fn] {
	case 1:
		return true
	case 2:
		return false
	case 3:
		return true // optimistic on recursion (greatest fixpoint); a recursive pure function is still pure
	}
	if fn.Blocks == nil || !p.w.InModule(fn) {
		res := false
		if fn.Pkg != nil && pureStdPkgs[fn.Pkg.Pkg.Path()] && fn.Signature.Recv() == nil {
			res = true
		}
		if fn.Pkg == nil && fn.Object() != nil && fn.Object().Pkg() != nil && pureStdPkgs[fn.Object().Pkg().Path()] && fn.Signature.Recv() == nil {
			res = true
		}
		if res {
			p.memo[fn] = 1
		} else {
			p.memo[fn] = 2
		}
		return res
	}
	p.memo[fn] = 3
	ok := true
	for _, b := range fn.Blocks {
		for _, ins := range b.Instrs {
			if !p.pureInstr(ins, fn) {
				ok = false
			}
		}
	}
	if ok {
		p.memo[fn] = 1
	} else {
		p.memo[fn] = 2
	}
	return ok
}

func localAllocRoot(addr ssa.Value) bool {
	for {
		switch x := addr.(type) {
		case *ssa.FieldAddr:
			addr = x.X
		case *ssa.IndexAddr:
			addr = x.X
		case *ssa.Alloc:
			return !x.Heap
		default:
			return false
		}
	}
}

// pureInstr: the instruction changes no state observable by a later evaluation of the same code.
// inCallee != nil: the instruction belongs to a callee (stores to its own stack cells are invisible to the caller).
func (p *purity) pureInstr(ins ssa.Instruction, inCallee *ssa.Function) bool {
	switch x := ins.(type) {
	case *ssa.Store:
		if inCallee != nil && localAllocRoot(x.Addr) {
			return true
		}
		return false
	case *ssa.MapUpdate, *ssa.Send, *ssa.Go, *ssa.Defer, *ssa.Panic, *ssa.RunDefers, *ssa.Select, *ssa.Next:
		return false
	case *ssa.UnOp:
		return x.Op != token.ARROW
	case ssa.CallInstruction:
		com := x.Common()
		if b, ok := com.Value.(*ssa.Builtin); ok {
			switch b.Name() {
			case "len", "cap", "min", "max", "real", "imag", "complex":
				return true
			}
			return false
		}
		if cal := com.StaticCallee(); cal != nil {
			return p.pureFn(cal)
		}
		// dynamic: all callees per the call graph must be pure
		cg := p.w.CG()
		fn := ins.Parent()
		found := false
		for _, e := range cg.Out[fn] {
			if e.Site == ins && e.Kind == EdgeCall {
				found = true
				if !p.pureFn(e.To) {
					return false
				}
			}
		}
		return found
	}
	return true
}

type natLoop struct {
	header *ssa.BasicBlock
	body   map[*ssa.BasicBlock]bool
}

func naturalLoops(fn *ssa.Function) (loops []*natLoop, irreducible int) {
	byHeader := map[*ssa.BasicBlock]*natLoop{}
	// DFS to find retreating edges
	state := map[*ssa.BasicBlock]int{}
	var dfs func(b *ssa.BasicBlock)
	dfs = func(b *ssa.BasicBlock) {
		state[b] = 1
		for _, s := range b.Succs {
			if state[s] == 1 {
				if s.Dominates(b) {
					l := byHeader[s]
					if l == nil {
						l = &natLoop{header: s, body: map[*ssa.BasicBlock]bool{s: true}}
						byHeader[s] = l
						loops = append(loops, l)
					}
					// add nodes reaching b without passing s
					stack := []*ssa.BasicBlock{b}
					for len(stack) > 0 {
						x := stack[len(stack)-1]
						stack = stack[:len(stack)-1]
						if l.body[x] {
							continue
						}
						l.body[x] = true
						stack = append(stack, x.Preds...)
					}
				} else {
					irreducible++
				}
			} else if state[s] == 0 {
				dfs(s)
			}
		}
		state[b] = 2
	}
	if len(fn.Blocks) > 0 {
		dfs(fn.Blocks[0])
	}
	sort.Slice(loops, func(i, j int) bool { return loops[i].header.Index < loops[j].header.Index })
	return
}

func isRangeLoop(l *natLoop) bool {
	// a loop driven by a Next instruction (range over map/string) or by the rangeindex idiom is finite by construction
	for _, ins := range l.header.Instrs {
		if _, ok := ins.(*ssa.Next); ok {
			return true
		}
	}
	return strings.HasPrefix(l.header.Comment, "rangeindex") || strings.HasPrefix(l.header.Comment, "rangeiter")
}

func ruleStuckCycles(w *World, r *Report) {
	r.Rule("C01-L", "For every natural loop of every module function reachable from Convert/Parse/Render, every simple cycle header→header is enumerated (pruned at the first block that contains a store, a map update, an impure call, a range step, a channel operation or a panic). A cycle is STUCK when every header phi receives, along that cycle, exactly the value it already had: nothing the branch conditions can depend on changes, so once entered the cycle repeats forever. No stuck cycle may exist. (Range loops are finite by construction and skipped.)")
	e := w.Entries()
	reach := w.CG().Reach(e.All(), nil)
	var fns []*ssa.Function
	for fn := range reach {
		if w.InModule(fn) && fn.Blocks != nil {
			fns = append(fns, fn)
		}
	}
	// the exported util/text functions are public API as well: include every module function
	inReach := len(fns)
	seenFn := map[*ssa.Function]bool{}
	for _, f := range fns {
		seenFn[f] = true
	}
	for _, f := range w.Funcs {
		if !seenFn[f] {
			fns = append(fns, f)
		}
	}
	sort.Slice(fns, func(i, j int) bool { return fns[i].String() < fns[j].String() })
	pu := &purity{w: w, memo: map[*ssa.Function]int{}}
	nLoops, nCycles, nPure, nStuck, nSkipped := 0, 0, 0, 0, 0
	for _, fn := range fns {
		loops, irr := naturalLoops(fn)
		if irr > 0 {
			r.Unknown(w.FnKey(fn)+": irreducible control flow", w.FnPos(fn), fmt.Sprintf("%d retreating edges whose target does not dominate the source: loop analysis not applicable", irr))
		}
		// block purity
		bpure := map[*ssa.BasicBlock]bool{}
		for _, b := range fn.Blocks {
			ok := true
			for _, ins := range b.Instrs {
				if !pu.pureInstr(ins, nil) {
					ok = false
					break
				}
			}
			bpure[b] = ok
		}
		for li, l := range loops {
			if isRangeLoop(l) {
				nSkipped++
				continue
			}
			nLoops++
			key := fmt.Sprintf("%s: loop #%d (%s)", w.FnKey(fn), li+1, l.header.Comment)
			if !bpure[l.header] {
				r.OK(key, w.blockPos(l.header), "the loop header itself changes state on every iteration")
				continue
			}
			var phis []*ssa.Phi
			for _, ins := range l.header.Instrs {
				if p, ok := ins.(*ssa.Phi); ok {
					phis = append(phis, p)
				} else {
					break
				}
			}
			count := 0
			exceeded := false
			stuckPath := ""
			var path []*ssa.BasicBlock
			on := map[*ssa.BasicBlock]bool{}
			var dfs func(b *ssa.BasicBlock)
			dfs = func(b *ssa.BasicBlock) {
				if exceeded || stuckPath != "" {
					return
				}
				path = append(path, b)
				on[b] = true
				defer func() { path = path[:len(path)-1]; on[b] = false }()
				for _, s := range b.Succs {
					if s == l.header {
						count++
						nCycles++
						if count > maxPaths {
							exceeded = true
							return
						}
						nPure++
						// resolve each header phi along the cycle
						stuck := true
						for _, p := range phis {
							// incoming operand from b
							var inc ssa.Value
							for pi, pr := range l.header.Preds {
								if pr == b {
									inc = p.Edges[pi]
								}
							}
							if resolveAlong(inc, path) != ssa.Value(p) {
								stuck = false
								break
							}
						}
						if stuck {
							var names []string
							for _, pb := range path {
								names = append(names, fmt.Sprintf("%d(%s)", pb.Index, pb.Comment))
							}
							stuckPath = strings.Join(names, " → ")
							return
						}
						continue
					}
					if !l.body[s] || on[s] || !bpure[s] {
						continue
					}
					dfs(s)
				}
			}
			dfs(l.header)
			switch {
			case stuckPath != "":
				nStuck++
				r.Bad(key, w.blockPos(l.header), "stuck cycle: along the blocks "+stuckPath+" no loop-carried value changes, nothing is stored and only pure code runs, so the exit tests can never change — an input that reaches this arm never terminates")
			case exceeded:
				r.Unknown(key, w.blockPos(l.header), "more than 4096 pure cycles: not decided")
			default:
				r.OK(key, w.blockPos(l.header), fmt.Sprintf("%d state-preserving-candidate cycles examined, each changes a loop-carried value", count))
			}
		}
	}
	r.Quiet("C01-L: %d functions (%d reachable from the entry points), %d loops analysed, %d range loops skipped, %d pure cycles examined, %d stuck", len(fns), inReach, nLoops, nSkipped, nPure, nStuck)
	r.Expect("hand-written loops analysed", nLoops, 75)
	r.Expect("pure cycles examined", nCycles, 300)
}

// resolveAlong resolves v through phis of blocks on the path (taking the operand that belongs to the path's predecessor).
func resolveAlong(v ssa.Value, path []*ssa.BasicBlock) ssa.Value {
	for depth := 0; depth < 64; depth++ {
		p, ok := v.(*ssa.Phi)
		if !ok {
			return v
		}
		blk := p.Block()
		idx := -1
		for i, b := range path {
			if b == blk {
				idx = i
			}
		}
		if idx <= 0 {
			return v // header phi itself (idx 0) or a phi outside the path
		}
		pred := path[idx-1]
		found := false
		for pi, pr := range blk.Preds {
			if pr == pred {
				v = p.Edges[pi]
				found = true
				break
			}
		}
		if !found {
			return v
		}
	}
	return v
}

func (w *World) blockPos(b *ssa.BasicBlock) string {
	for _, ins := range b.Instrs {
		if ins.Pos().IsValid() {
			return w.Pos(ins.Pos())
		}
	}
	return w.FnPos(b.Parent())
}
