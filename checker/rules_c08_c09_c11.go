package main

// rules_c08_c09_c11.go — one-clause rules for C08 (stay on the line), C09 (reference-map phase
// separation) and C11 (GFM composition, soft break never silently dropped).

import (
	"fmt"
	"go/token"
	"go/types"
	"sort"
	"strings"

	"golang.org/x/tools/go/ssa"
)

func init() {
	register(&Property{
		ID:      "C08",
		Level:   "other",
		Explain: "The equation between the two renderings relates two runs and is not decided. Decided is one clause of its mechanism, a necessary condition: a leaf block parser must not consume the line terminator, otherwise the next line's container marker is taken as content. (L) In every BlockParser.Open/Continue of the module and the module helpers they hand the reader to, AdvanceLine is never called on the reader, and no Advance/AdvanceAndSetPadding argument is — after normalising to a linear form over the peeked segment's Stop, Start, Padding, len(line) and Segment.Len() — provably at least the full length of the peeked line. The rule flags only what is provably a whole line (a bug finder without false alarms, not a proof). Does NOT decide marker/tab column arithmetic, blank-line bookkeeping or lazy continuation.",
		Rules:   []func(*World, *Report){ruleStayOnLine, ruleFreeParsersRejectBlankLines, ruleQuoteMarkerAndOneSpace, ruleOneBlankNotion, ruleQuoteWrapper, ruleSpansThroughReader, ruleRenderersReadPerSegment, rulePrecedingCharacterClassified},
	})
	register(&Property{
		ID:      "C09",
		Level:   "other",
		Explain: "Independence of neighbouring blocks depends on the values of context flags across lines and is not decided. Decided is the clause that makes link reference definitions position-independent: (P) Context.AddReference is called only from code reachable from the block phase and not from the inline phase, Context.Reference lookups happen only in code reachable from the inline phase (or later) and not from the block phase, and in Parse the block-phase call dominates the start of the inline phase — so every lookup sees every definition wherever it stands; the first definition wins (the store in AddReference is dominated by the miss edge of a lookup of the same key). Does NOT decide the A/heading/B independence equation or label normalisation.",
		Rules:   []func(*World, *Report){ruleReferencePhases, ruleBlockStateInitialised, ruleBlockStateOwner, ruleAccumulatorsExtended, ruleEndOfInputClosesAll, ruleTitleDelimiters, ruleHTMLBlockEndCaseInsensitive, ruleWideGuardsEverywhere, ruleEndOfInputIsBlank},
	})
	register(&Property{
		ID:      "C11",
		Level:   "other",
		Explain: "The trigger-free equations compare two configurations on all inputs and are not decided. Decided are two clauses: (G) extension.GFM's Extend consists of exactly one Extend(m) call on each of the singletons Linkify, Table, Strikethrough, TaskList with the same argument and nothing else, so GFM is its four members by construction; (B) in the render function registered for text nodes, every path on which SoftLineBreak() is true ends with a write containing a newline unless the path skipped it on the result of the East-Asian width predicate — only the predicate may suppress a soft break, so ASCII-only input is rendered the same with the CJK extension. Does NOT decide the equations for Strikethrough, Table, TaskList, Footnote, DefinitionList, Typographer, Linkify or escaped space.",
		Rules:   []func(*World, *Report){ruleGFMComposition, ruleSoftBreakKept, ruleEscapedSpaceExact, ruleTriggerSets, ruleTableNeedsDash, ruleDecliningParserRestored, ruleDecliningParserLeavesNoNode, ruleLinkifyNeedsItsTriggers, ruleExtendOnlyRegisters, ruleTypographerByteSet, ruleFootnoteNeedsCaret},
	})
}

// ============================ C08-L ==============================================================

// linear form: sum of coeff*atom + const
type linForm struct {
	coef map[string]int
	c    int64
}

func newLin() linForm { return linForm{coef: map[string]int{}} }

func (a linForm) add(b linForm, sign int) linForm {
	out := newLin()
	for k, v := range a.coef {
		out.coef[k] += v
	}
	for k, v := range b.coef {
		out.coef[k] += sign * v
	}
	out.c = a.c + int64(sign)*b.c
	return out
}

// segOf resolves a value to "the segment returned by PeekLine on reader r": returns the PeekLine call.
func peekLineOf(v ssa.Value) *ssa.Call {
	v = throughCell(v)
	if ex, ok := v.(*ssa.Extract); ok {
		if c, ok := ex.Tuple.(*ssa.Call); ok && c.Common().IsInvoke() && c.Common().Method.Name() == "PeekLine" {
			return c
		}
	}
	return nil
}

// linearise expresses an int-valued SSA value over the atoms STOP, START, PAD of a peeked segment.
func linearise(v ssa.Value, depth int) linForm {
	out := newLin()
	v = stripConv(v)
	if depth > 12 {
		out.coef[fmt.Sprintf("?%p", v)] = 1
		return out
	}
	if c, ok := constInt(v); ok {
		out.c = c
		return out
	}
	switch x := v.(type) {
	case *ssa.BinOp:
		switch x.Op {
		case token.ADD:
			return linearise(x.X, depth+1).add(linearise(x.Y, depth+1), 1)
		case token.SUB:
			return linearise(x.X, depth+1).add(linearise(x.Y, depth+1), -1)
		}
	case *ssa.Call:
		com := x.Common()
		if builtinName(com) == "len" {
			if pl := peekLineOf(com.Args[0]); pl != nil {
				// len(line) = Stop - Start + Padding of the same peek
				out.coef[fmt.Sprintf("STOP@%p", pl)] = 1
				out.coef[fmt.Sprintf("START@%p", pl)] = -1
				out.coef["PAD"] = 1
				return out
			}
		}
		if cal := com.StaticCallee(); cal != nil && cal.Name() == "Len" && len(com.Args) == 1 && strings.HasSuffix(typeShort(deref(com.Args[0].Type())), "text.Segment") {
			var pl *ssa.Call
			if a, ok := com.Args[0].(*ssa.Alloc); ok {
				// pointer receiver on a local cell holding the peeked segment
				for _, ref := range referrersOf(a) {
					if st, ok := ref.(*ssa.Store); ok && st.Addr == ssa.Value(a) {
						pl = peekLineOf(st.Val)
					}
				}
			} else {
				pl = peekLineOf(com.Args[0])
			}
			if pl != nil {
				out.coef[fmt.Sprintf("STOP@%p", pl)] = 1
				out.coef[fmt.Sprintf("START@%p", pl)] = -1
				out.coef["PAD"] = 1
				return out
			}
		}
	case *ssa.UnOp:
		if x.Op == token.MUL {
			if fa, ok := x.X.(*ssa.FieldAddr); ok {
				t, f := fieldOfAddr(fa)
				if strings.HasSuffix(typeShort(t), "text.Segment") {
					var pl *ssa.Call
					if a, ok := fa.X.(*ssa.Alloc); ok {
						for _, ref := range referrersOf(a) {
							if st, ok := ref.(*ssa.Store); ok && st.Addr == ssa.Value(a) {
								pl = peekLineOf(st.Val)
							}
						}
					}
					if pl != nil {
						switch f.Name() {
						case "Stop":
							out.coef[fmt.Sprintf("STOP@%p", pl)] = 1
							return out
						case "Start":
							out.coef[fmt.Sprintf("START@%p", pl)] = 1
							return out
						case "Padding":
							out.coef["PAD"] = 1
							return out
						}
					}
				}
			}
		}
	case *ssa.Field:
		t, f := fieldOfField(x)
		if strings.HasSuffix(typeShort(t), "text.Segment") {
			if pl := peekLineOf(x.X); pl != nil {
				switch f.Name() {
				case "Stop":
					out.coef[fmt.Sprintf("STOP@%p", pl)] = 1
					return out
				case "Start":
					out.coef[fmt.Sprintf("START@%p", pl)] = 1
					return out
				case "Padding":
					out.coef["PAD"] = 1
					return out
				}
			}
		}
	}
	out.coef[fmt.Sprintf("?%p", v)] = 1
	return out
}

// wholeLine: the form is provably >= Stop-Start of one peeked line (padding ignored).
func wholeLine(f linForm) bool {
	var stop string
	for k, v := range f.coef {
		if strings.HasPrefix(k, "STOP@") && v == 1 {
			stop = k
		}
	}
	if stop == "" {
		return false
	}
	start := "START@" + strings.TrimPrefix(stop, "STOP@")
	rest := newLin()
	for k, v := range f.coef {
		rest.coef[k] = v
	}
	rest.coef[stop]--
	rest.coef[start]++
	for k, v := range rest.coef {
		if k == "PAD" {
			continue
		}
		if v < 0 {
			return false // something is subtracted: accepted
		}
		if v > 0 && !strings.HasPrefix(k, "?") {
			return false
		}
	}
	return f.c >= 0 && rest.coef[start] == 0
}

func (w *World) blockParserMethods() []*ssa.Function {
	var out []*ssa.Function
	it := w.Iface("parser", "BlockParser")
	for _, t := range w.Implementers(it) {
		for _, m := range []string{"Open", "Continue"} {
			if f := w.MethodOf(t, m); f != nil && w.InModule(f) {
				out = append(out, f)
			}
		}
	}
	return out
}

func ruleStayOnLine(w *World, r *Report) {
	r.Rule("C08-L", "In every BlockParser.Open/Continue and the module helpers they pass the reader to: no AdvanceLine on the reader; no Advance(a)/AdvanceAndSetPadding(a,_) whose argument, as a linear form over the peeked segment (Stop, Start, Padding, len(line), Segment.Len()), is provably the whole line or more (no subtracted term).")
	roots := w.blockParserMethods()
	r.Expect("BlockParser Open/Continue implementations", len(roots), 13)
	readerT := w.Named("text", "Reader")
	// helpers: module functions statically called (transitively) that take a text.Reader
	fns := map[*ssa.Function]bool{}
	var work []*ssa.Function
	for _, f := range roots {
		fns[f] = true
		work = append(work, f)
	}
	for len(work) > 0 {
		f := work[len(work)-1]
		work = work[:len(work)-1]
		for _, b := range f.Blocks {
			for _, ins := range b.Instrs {
				c, ok := ins.(ssa.CallInstruction)
				if !ok {
					continue
				}
				cal := c.Common().StaticCallee()
				if cal == nil || !w.InModule(cal) || fns[cal] || cal.Blocks == nil {
					continue
				}
				takes := false
				for _, p := range cal.Params {
					if readerT != nil && types.Identical(p.Type(), readerT) {
						takes = true
					}
				}
				if takes {
					fns[cal] = true
					work = append(work, cal)
				}
			}
		}
	}
	var list []*ssa.Function
	for f := range fns {
		list = append(list, f)
	}
	sort.Slice(list, func(i, j int) bool { return list[i].String() < list[j].String() })
	nAdv := 0
	for _, fn := range list {
		for _, b := range fn.Blocks {
			for _, ins := range b.Instrs {
				c, ok := ins.(ssa.CallInstruction)
				if !ok || !c.Common().IsInvoke() {
					continue
				}
				com := c.Common()
				if readerT == nil || !types.Identical(com.Value.Type(), readerT) {
					continue
				}
				switch com.Method.Name() {
				case "AdvanceLine":
					r.Bad(w.FnKey(fn)+": AdvanceLine", w.InstrPos(ins), "a block parser moves the reader to the next line itself: the next line's container markers are skipped")
				case "Advance", "AdvanceAndSetPadding":
					nAdv++
					f := linearise(com.Args[0], 0)
					key := fmt.Sprintf("%s: %s(%s)", w.FnKey(fn), com.Method.Name(), describeLin(f))
					if wholeLine(f) {
						r.Bad(key, w.InstrPos(ins), "the argument is provably the full length of the peeked line: the line terminator is consumed and the next line's container marker is read as content")
					} else {
						r.OK(key, w.InstrPos(ins), "not provably a whole line")
					}
				}
			}
		}
	}
	r.Expect("Advance calls in block parsers", nAdv, 20)
}

func describeLin(f linForm) string {
	var parts []string
	var ks []string
	for k := range f.coef {
		ks = append(ks, k)
	}
	sort.Strings(ks)
	unknown := 0
	for _, k := range ks {
		v := f.coef[k]
		if v == 0 {
			continue
		}
		name := k
		if i := strings.Index(k, "@"); i > 0 {
			name = k[:i]
		}
		if strings.HasPrefix(k, "?") {
			unknown += 1
			name = fmt.Sprintf("x%d", unknown)
		}
		parts = append(parts, fmt.Sprintf("%+d*%s", v, name))
	}
	if f.c != 0 || len(parts) == 0 {
		parts = append(parts, fmt.Sprintf("%+d", f.c))
	}
	return strings.Join(parts, " ")
}

// ============================ C09-P ==============================================================

func ruleReferencePhases(w *World, r *Report) {
	r.Rule("C09-P", "AddReference call sites lie in functions reachable from the block phase and not from the inline phase; Reference/References lookups lie in functions not reachable from the block phase; in Parse the block-phase call dominates the creation of the inline-phase callback; AddReference stores only on the miss edge of a lookup of the same key (first definition wins).")
	e := w.Entries()
	cg := w.CG()
	ctxT := w.Named("parser", "Context")
	readerT := w.Named("text", "Reader")
	for _, parse := range e.Parse {
		// block phase root: module method called in Parse with Parse's reader parameter
		var blockCall, inlineStart ssa.Instruction
		var blockRoot *ssa.Function
		var inlineRoots []*ssa.Function
		var readerParam *ssa.Parameter
		for _, p := range parse.Params {
			if readerT != nil && types.Identical(p.Type(), readerT) {
				readerParam = p
			}
		}
		for _, b := range parse.Blocks {
			for _, ins := range b.Instrs {
				switch x := ins.(type) {
				case *ssa.Call:
					cal := x.Common().StaticCallee()
					if cal != nil && w.InModule(cal) && blockRoot == nil {
						for _, a := range x.Common().Args {
							if a == ssa.Value(readerParam) {
								blockRoot, blockCall = cal, ins
							}
						}
					}
				case *ssa.MakeClosure:
					f := x.Fn.(*ssa.Function)
					if _, isOnce := cg.OnceClosures[f]; isOnce {
						continue
					}
					if _, isOnce := cg.OnceClosures[w.unwrapBound(f)]; isOnce {
						continue
					}
					inlineRoots = append(inlineRoots, f)
					if inlineStart == nil {
						inlineStart = ins
					}
				}
			}
		}
		key := w.FnKey(parse)
		if blockRoot == nil || len(inlineRoots) == 0 {
			r.Unknown(key+": phases", w.FnPos(parse), "could not identify the block-phase call (taking the reader) and the inline-phase callback")
			continue
		}
		if instrDominates(blockCall, inlineStart) {
			r.OK(key+": block phase before inline phase", w.InstrPos(blockCall), w.FnKey(blockRoot)+" completes before the inline-phase callback is created")
		} else {
			r.Bad(key+": block phase before inline phase", w.InstrPos(blockCall), "the inline phase can start before the block phase has collected all definitions")
		}
		skip := cg.OnceSkip()
		blockReach := cg.Reach([]*ssa.Function{blockRoot}, skip)
		inlineReach := cg.Reach(inlineRoots, skip)
		nAdd, nLook := 0, 0
		for _, fn := range w.Funcs {
			for _, b := range fn.Blocks {
				for _, ins := range b.Instrs {
					c, ok := ins.(ssa.CallInstruction)
					if !ok {
						continue
					}
					com := c.Common()
					name := ""
					if com.IsInvoke() && ctxT != nil && types.Identical(com.Value.Type(), ctxT) {
						name = com.Method.Name()
					}
					switch name {
					case "AddReference":
						nAdd++
						k := w.FnKey(fn) + ": AddReference"
						_, inBlock := blockReach[fn]
						_, inInline := inlineReach[fn]
						switch {
						case inInline:
							r.Bad(k, w.InstrPos(ins), "a definition can be added during the inline phase, after lookups have started", w.PathTo(inlineReach, fn)...)
						case !inBlock:
							r.Bad(k, w.InstrPos(ins), "a definition is added outside the block phase")
						default:
							r.OK(k, w.InstrPos(ins), "block phase only")
						}
					case "Reference", "References":
						nLook++
						k := w.FnKey(fn) + ": " + name
						if _, inBlock := blockReach[fn]; inBlock {
							r.Bad(k, w.InstrPos(ins), "a reference is resolved during the block phase, before later definitions are known: the result depends on where the definition stands", w.PathTo(blockReach, fn)...)
						} else {
							r.OK(k, w.InstrPos(ins), "not reachable from the block phase")
						}
					}
				}
			}
		}
		r.Expect("AddReference call sites", nAdd, 1)
		r.Expect("Reference lookups", nLook, 1)
		// the inline-phase entry (parseBlock) must not be reachable from the block phase
		for _, ir := range inlineRoots {
			for _, ed := range cg.Out[ir] {
				if _, in := blockReach[ed.To]; in && w.InModule(ed.To) && ed.To.Signature.Recv() != nil && namedOf(ed.To.Signature.Recv().Type()) == namedOf(parse.Signature.Recv().Type()) {
					r.Bad(w.FnKey(ed.To)+": inline-phase entry reachable from the block phase", w.FnPos(ed.To), "inline parsing of a block can start before all blocks (and definitions) have been read", w.PathTo(blockReach, ed.To)...)
				}
			}
		}
	}
	// first definition wins
	n := 0
	if ctxT != nil {
		for _, t := range w.Implementers(ctxT.Underlying().(*types.Interface)) {
			m := w.MethodOf(t, "AddReference")
			if m == nil || !w.InModule(m) {
				continue
			}
			for _, b := range m.Blocks {
				for _, ins := range b.Instrs {
					mu, ok := ins.(*ssa.MapUpdate)
					if !ok {
						continue
					}
					n++
					key := w.FnKey(m) + ": store of the definition"
					guarded := false
					for _, cf := range dominatingConds(b) {
						if ex, ok := cf.If.Cond.(*ssa.Extract); ok && ex.Index == 1 && !cf.Truth {
							if lk, ok := ex.Tuple.(*ssa.Lookup); ok && lk.CommaOk && sameValueLoose(lk.Index, mu.Key) && sameValueLoose(lk.X, mu.Map) {
								guarded = true
							}
						}
					}
					if guarded {
						r.OK(key, w.InstrPos(ins), "only when the label is not defined yet: the first definition wins")
					} else {
						r.Bad(key, w.InstrPos(ins), "a later definition can replace an earlier one")
					}
				}
			}
		}
	}
	r.Expect("definition stores in AddReference", n, 1)
}

// ============================ C11 =================================================================

func ruleGFMComposition(w *World, r *Report) {
	r.Rule("C11-G", "extension.GFM's Extend consists of exactly one Extend(m) call on each of the package singletons Linkify, Table, Strikethrough and TaskList, with the same m, and nothing else.")
	g := w.Global("extension", "GFM")
	if g == nil {
		r.Unknown("extension.GFM", "", "not found")
		return
	}
	nt := namedOf(deref(g.Type()))
	ext := w.MethodOf(nt, "Extend")
	if ext == nil {
		r.Unknown("extension.GFM.Extend", "", "not found")
		return
	}
	want := map[string]bool{"Linkify": true, "Table": true, "Strikethrough": true, "TaskList": true}
	got := map[string]int{}
	other := 0
	for _, b := range ext.Blocks {
		for _, ins := range b.Instrs {
			c, ok := ins.(ssa.CallInstruction)
			if !ok {
				continue
			}
			com := c.Common()
			var recv ssa.Value
			var args []ssa.Value
			isExtend := false
			if com.IsInvoke() && com.Method.Name() == "Extend" {
				recv, args, isExtend = com.Value, com.Args, true
			} else if cal := com.StaticCallee(); cal != nil && cal.Name() == "Extend" && len(com.Args) == 2 {
				recv, args, isExtend = com.Args[0], com.Args[1:], true
			}
			if !isExtend {
				other++
				r.Bad("GFM.Extend: extra call "+strings.TrimSpace(ins.String()), w.InstrPos(ins), "GFM does something besides extending with its four members")
				continue
			}
			name := ""
			if u, ok := stripMakeIface(recv).(*ssa.UnOp); ok {
				if gg, ok := u.X.(*ssa.Global); ok {
					name = gg.Name()
				}
			}
			if len(args) != 1 || args[0] != ssa.Value(ext.Params[1]) {
				r.Bad("GFM.Extend: "+name+".Extend argument", w.InstrPos(ins), "a member is extended with something other than GFM's own argument")
			}
			got[name]++
		}
	}
	for n := range want {
		if got[n] == 1 {
			r.OK("GFM.Extend: "+n, w.FnPos(ext), "extended exactly once with the same Markdown")
		} else {
			r.Bad("GFM.Extend: "+n, w.FnPos(ext), fmt.Sprintf("member extension is applied %d times", got[n]))
		}
	}
	for n, c := range got {
		if !want[n] {
			r.Bad("GFM.Extend: unexpected member "+n, w.FnPos(ext), fmt.Sprintf("applied %d times; GFM is defined as Linkify+Table+Strikethrough+TaskList", c))
		}
	}
}

func ruleSoftBreakKept(w *World, r *Report) {
	r.Rule("C11-B", "In the render function registered for KindText, every path from a true edge of SoftLineBreak() to the return performs a sink write whose constant contains a newline, unless the path took the suppressing edge of a branch on the result of the East-Asian line-break predicate (directly, or through a variable whose other values are the constant true).")
	sa := w.Sinks()
	var fns []*ssa.Function
	for _, reg := range w.Registrations() {
		if reg.Kind != nil && reg.Kind.Name() == "KindText" && reg.Func != nil {
			fns = append(fns, reg.Func)
		}
	}
	r.Expect("render functions registered for KindText", len(fns), 1)
	eaT := w.Named("renderer/html", "EastAsianLineBreaks")
	isPredicate := func(v ssa.Value) bool {
		c, ok := v.(*ssa.Call)
		if !ok {
			return false
		}
		cal := c.Common().StaticCallee()
		if cal == nil || cal.Signature.Recv() == nil || eaT == nil {
			return false
		}
		return namedOf(cal.Signature.Recv().Type()) == eaT && isBool(c.Type())
	}
	// helperSummary: a module function with a bool result all of whose returns are the constant true or the predicate
	// (an extracted "does this soft break stay?" helper): its false result can only come from the width predicate.
	var helperSummary func(fn *ssa.Function, depth int) bool
	helperSummary = func(fn *ssa.Function, depth int) bool {
		if fn == nil || !w.InModule(fn) || fn.Blocks == nil || depth > 2 || fn.Signature.Results().Len() != 1 || !isBool(fn.Signature.Results().At(0).Type()) {
			return false
		}
		hasPred := false
		for _, b := range fn.Blocks {
			ret, ok := b.Instrs[len(b.Instrs)-1].(*ssa.Return)
			if !ok {
				continue
			}
			for _, leaf := range phiLeaves(ret.Results[0]) {
				if bv, ok := constBool(leaf); ok && bv {
					continue
				}
				if isPredicate(leaf) {
					hasPred = true
					continue
				}
				if c, ok := leaf.(*ssa.Call); ok && helperSummary(c.Common().StaticCallee(), depth+1) {
					hasPred = true
					continue
				}
				return false
			}
		}
		return hasPred
	}
	// predicateOnly: v is the predicate call, or a phi whose other operands are all constant true
	predicateOnly := func(v ssa.Value) bool {
		if isPredicate(v) {
			return true
		}
		if c, ok := v.(*ssa.Call); ok && helperSummary(c.Common().StaticCallee(), 0) {
			return true
		}
		ph, ok := v.(*ssa.Phi)
		if !ok {
			return false
		}
		hasPred := false
		for _, leaf := range phiLeaves(ph) {
			if isPredicate(leaf) {
				hasPred = true
				continue
			}
			if b, ok := constBool(leaf); ok && b {
				continue
			}
			return false
		}
		return hasPred
	}
	for _, fn := range fns {
		nPaths, nBad := 0, 0
		starts := 0
		for _, b := range fn.Blocks {
			iff, ok := b.Instrs[len(b.Instrs)-1].(*ssa.If)
			if !ok {
				continue
			}
			for _, a := range condAtoms(iff.Cond, true) {
				c, ok := a.V.(*ssa.Call)
				if !ok {
					continue
				}
				name := ""
				if c.Common().IsInvoke() {
					name = c.Common().Method.Name()
				} else if cal := c.Common().StaticCallee(); cal != nil {
					name = cal.Name()
				}
				if name != "SoftLineBreak" {
					continue
				}
				starts++
				idx := 0
				if !a.Truth {
					idx = 1
				}
				facts := map[string]bool{condKey(c): true}
				complete := EnumPaths(b.Succs[idx], facts, isReturnBlock, func(p Path) {
					nPaths++
					wrote, suppressed := false, false
					for i, blk := range p.Blocks {
						for _, ins := range blk.Instrs {
							if s := sa.sinkAt(fn, ins); s != nil {
								for _, pc := range s.Pieces {
									if pc.Const && strings.Contains(pc.Text, "\n") {
										wrote = true
									}
									// a choice among constants (conditional constant written once): every alternative has the newline
									if !pc.Const && pc.Data.Kind == DConst && len(pc.Data.Alts) > 0 {
										all := true
										for _, alt := range pc.Data.Alts {
											if !strings.Contains(alt, "\n") {
												all = false
											}
										}
										if all {
											wrote = true
										}
									}
								}
							}
						}
						if i < len(p.Edges) {
							if bi, ok := blk.Instrs[len(blk.Instrs)-1].(*ssa.If); ok && predicateOnly(bi.Cond) && p.Edges[i] == 1 {
								suppressed = true
							}
						}
					}
					if !wrote && !suppressed {
						nBad++
						var ids []string
						for _, blk := range p.Blocks {
							ids = append(ids, fmt.Sprint(blk.Index))
						}
						if nBad <= 4 {
							last := p.Blocks[len(p.Blocks)-1]
							r.Bad(fmt.Sprintf("%s: soft break dropped on path #%d", w.FnKey(fn), nBad), w.InstrPos(last.Instrs[len(last.Instrs)-1]),
								"a path with SoftLineBreak()==true returns without writing a newline and without consulting the width predicate (blocks "+strings.Join(ids, ">")+")")
						}
					}
				})
				if !complete {
					r.Unknown(w.FnKey(fn)+": path bound", w.FnPos(fn), "more than the path bound; undecided")
				}
			}
		}
		r.Expect("SoftLineBreak() branch points in "+w.FnKey(fn), starts, 1)
		if nBad == 0 {
			r.OK(w.FnKey(fn)+": soft break kept", w.FnPos(fn), fmt.Sprintf("%d paths examined: each writes a newline or was suppressed by the width predicate", nPaths))
		}
	}
}

// ============================ C11-E ==============================================================

// ruleEscapedSpaceExact: the escaped-space option of the HTML writer may only swallow backslash + U+0020.
func ruleEscapedSpaceExact(w *World, r *Report) {
	r.Rule("C11-E", "Every load of the HTML writer's EscapedSpace option is used only as a branch condition, and on the path on which it is true the very next byte test — evaluated for all 256 byte values — holds for ' ' (0x20) only. The option (enabled by the CJK extension) must not change the rendering of any input that contains no backslash-space; a wider test such as IsSpace(c) silently swallows backslash-TAB.")
	wc := w.Named("renderer/html", "WriterConfig")
	if wc == nil {
		r.Unknown("html.WriterConfig", "", "not found")
		return
	}
	n := 0
	for _, fn := range w.Funcs {
		for _, b := range fn.Blocks {
			for _, ins := range b.Instrs {
				u, ok := ins.(*ssa.UnOp)
				if !ok || u.Op != token.MUL {
					continue
				}
				fa, ok := u.X.(*ssa.FieldAddr)
				if !ok {
					continue
				}
				_, f := fieldOfAddr(fa)
				if f == nil || f.Name() != "EscapedSpace" || !isBool(u.Type()) {
					continue
				}
				// only the writer's flag (a field of WriterConfig, possibly embedded)
				st := deref(fa.X.Type())
				if nt, ok := st.(*types.Named); !ok || nt.Obj() != wc.Obj() {
					continue
				}
				if fn.Name() == "init" || strings.HasPrefix(fn.Name(), "With") || fn.Parent() != nil {
					continue
				}
				n++
				key := w.FnKey(fn) + ": EscapedSpace"
				refs := liveRefs(u)
				if len(refs) != 1 {
					r.Unknown(key, w.InstrPos(u), fmt.Sprintf("the option has %d uses; expected exactly one branch", len(refs)))
					continue
				}
				iff, ok := refs[0].(*ssa.If)
				if !ok {
					r.Unknown(key, w.InstrPos(u), "the option is used as data")
					continue
				}
				tb := iff.Block().Succs[0]
				for hops := 0; hops < 4 && len(tb.Succs) == 1; hops++ { // look through empty forwarding blocks
					pure := true
					for _, x := range tb.Instrs {
						switch x.(type) {
						case *ssa.Jump, *ssa.DebugRef:
						default:
							pure = false
						}
					}
					if !pure {
						break
					}
					tb = tb.Succs[0]
				}
				var testCond ssa.Value
				var testAt ssa.Instruction
				if ni, ok := tb.Instrs[len(tb.Instrs)-1].(*ssa.If); ok {
					testCond, testAt = ni.Cond, ni
				} else if _, isJ := tb.Instrs[len(tb.Instrs)-1].(*ssa.Jump); isJ && len(tb.Succs) == 1 {
					// `flag && test` evaluated as a value (e.g. a switch case): the true arm computes the test and jumps to a
					// join whose phi — false from the flag's false edge, the test from here — is then branched on
					join := tb.Succs[0]
					if ji, ok := join.Instrs[len(join.Instrs)-1].(*ssa.If); ok {
						if ph, ok := ji.Cond.(*ssa.Phi); ok && ph.Block() == join {
							for pi, pr := range join.Preds {
								if pr == tb {
									testCond, testAt = ph.Edges[pi], ji
								}
							}
						}
					}
				}
				if testCond == nil {
					r.Unknown(key, w.InstrPos(u), fmt.Sprintf("the option's true arm (block %d %s) is not followed by a byte test", tb.Index, tb.Comment))
					continue
				}
				// find the byte under test: a load of source[i]
				var base, idx ssa.Value
				operandsClosure(testCond, func(v ssa.Value) bool {
					if l, ok := v.(*ssa.UnOp); ok && l.Op == token.MUL {
						if ia, ok := l.X.(*ssa.IndexAddr); ok && isByteSlice(ia.X.Type()) {
							base, idx = ia.X, stripConv(ia.Index)
						}
					}
					return true
				})
				if base == nil {
					r.Unknown(key, w.InstrPos(testAt), "no byte of the input is tested after the option")
					continue
				}
				env := &byteEnv{w: w, base: base, idx: idx}
				var acc [256]bool
				cnt := 0
				undecided := false
				for c := 0; c < 256; c++ {
					env.vals = map[int]int{0: c}
					v, known := env.eval(testCond)
					if !known {
						undecided = true
						break
					}
					if v != 0 {
						acc[c] = true
						cnt++
					}
				}
				switch {
				case undecided:
					r.Unknown(key, w.InstrPos(testAt), "the byte test after the option cannot be evaluated")
				case cnt == 1 && acc[' ']:
					r.OK(key, w.InstrPos(testAt), "the option only affects backslash + U+0020")
				default:
					r.Bad(key, w.InstrPos(testAt), "with the option on, the writer swallows a backslash followed by any of "+byteSetString(acc)+", not only U+0020: input without backslash-space renders differently with the CJK extension")
				}
			}
		}
	}
	r.Expect("reads of the writer's EscapedSpace option", n, 1)
}
