package main

// rules_progress.go — C01-G: sub-parsers that are called in a loop consume input whenever they succeed.

import (
	"fmt"
	"go/token"
	"go/types"
	"sort"
	"strings"

	"golang.org/x/tools/go/ssa"
)

// readerParam: the parameter of fn that is a text.Reader (an interface with an Advance method).
func readerParam(fn *ssa.Function) *ssa.Parameter {
	for _, p := range fn.Params {
		it, ok := p.Type().Underlying().(*types.Interface)
		if !ok {
			continue
		}
		for i := 0; i < it.NumMethods(); i++ {
			if it.Method(i).Name() == "AdvanceAndSetPadding" {
				return p
			}
		}
	}
	return nil
}

// isSubParser: func(…, text.Reader, …) (…, bool) of this module.
func (w *World) isSubParser(fn *ssa.Function) bool {
	if fn == nil || fn.Blocks == nil || !w.InModule(fn) || readerParam(fn) == nil {
		return false
	}
	res := fn.Signature.Results()
	return res.Len() >= 2 && isBool(res.At(res.Len()-1).Type())
}

func readerCall(ins ssa.Instruction, rd ssa.Value) (string, *ssa.CallCommon) {
	c, ok := ins.(ssa.CallInstruction)
	if !ok {
		return "", nil
	}
	com := c.Common()
	if com.IsInvoke() && com.Value == rd {
		return com.Method.Name(), com
	}
	return "", nil
}

type progressProver struct {
	w    *World
	memo map[*ssa.Function]string // "" = proven; otherwise why not
	busy map[*ssa.Function]bool
}

// okOfProgressive: v is the bool result of a call of a sub-parser that is itself proven to consume input on success.
func (pp *progressProver) okOfProgressive(v ssa.Value, rd ssa.Value) bool {
	ex, ok := v.(*ssa.Extract)
	if !ok {
		return false
	}
	c, ok := ex.Tuple.(*ssa.Call)
	if !ok {
		return false
	}
	cal := c.Common().StaticCallee()
	if cal == nil || !pp.w.isSubParser(cal) || ex.Index != cal.Signature.Results().Len()-1 {
		return false
	}
	passes := false
	for _, a := range c.Common().Args {
		if a == rd {
			passes = true
		}
	}
	return passes && pp.prove(cal) == ""
}

// advancesUnder: helper h (taking the reader) contains Advance(k>0) dominated by the true edge of pred(reader.Peek()).
func (pp *progressProver) advancesUnder(h *ssa.Function, pred *ssa.Function) bool {
	rd := readerParam(h)
	if rd == nil {
		return false
	}
	for _, b := range h.Blocks {
		for _, ins := range b.Instrs {
			name, com := readerCall(ins, rd)
			if name != "Advance" {
				continue
			}
			if k, ok := constInt(com.Args[0]); !ok || k <= 0 {
				continue
			}
			for _, cf := range dominatingConds(b) {
				for _, a := range condAtoms(cf.If.Cond, cf.Truth) {
					if p := peekPredicate(a.V, rd); p == pred && a.Truth {
						return true
					}
				}
			}
		}
	}
	return false
}

// peekPredicate: v is P(reader.Peek()) for a static function P; returns P.
func peekPredicate(v ssa.Value, rd ssa.Value) *ssa.Function {
	c, ok := v.(*ssa.Call)
	if !ok || len(c.Common().Args) != 1 {
		return nil
	}
	p := c.Common().StaticCallee()
	if p == nil {
		return nil
	}
	// the byte may be kept in a loop variable: every value merged into it is reader.Peek()
	leaves := phiLeaves(stripConv(c.Common().Args[0]))
	if len(leaves) == 0 {
		return nil
	}
	for _, l := range leaves {
		arg, ok := stripConv(l).(*ssa.Call)
		if !ok {
			return nil
		}
		if com := arg.Common(); !com.IsInvoke() || com.Value != rd || com.Method.Name() != "Peek" {
			return nil
		}
	}
	return p
}

// prove: "" if every return of fn whose last result can be true is reached only after the reader moved forward.
func (pp *progressProver) prove(fn *ssa.Function) string {
	if why, ok := pp.memo[fn]; ok {
		return why
	}
	if pp.busy[fn] {
		return "" // recursion (a value that contains values): the enclosing call is judged on its own steps
	}
	pp.busy[fn] = true
	defer delete(pp.busy, fn)
	w := pp.w
	rd := ssa.Value(readerParam(fn))
	// local events
	blockProgress := func(b *ssa.BasicBlock) bool {
		for _, ins := range b.Instrs {
			name, com := readerCall(ins, rd)
			if name == "Advance" || name == "AdvanceAndSetPadding" {
				arg := stripConv(com.Args[0])
				if k, ok := constInt(arg); ok && k > 0 {
					return true
				}
				if bo, ok := arg.(*ssa.BinOp); ok && bo.Op == token.ADD {
					if k, ok := constInt(bo.Y); ok && k > 0 {
						return true
					}
				}
				// the length of a scanned run whose first byte was tested: line[:i] with a first-byte guard whose
				// accepted set is a non-empty subset of the loop's
				for _, b2 := range fn.Blocks {
					for _, i2 := range b2.Instrs {
						sl, ok := i2.(*ssa.Slice)
						if !ok || sl.High == nil || stripConv(sl.High) != arg {
							continue
						}
						first, rest, err := w.evalScanPredicates(fn, sl)
						if err != "" {
							continue
						}
						sub, any := true, false
						for c := 0; c < 256; c++ {
							if first[c] {
								any = true
								if !rest[c] {
									sub = false
								}
							}
						}
						if sub && any {
							return true
						}
					}
				}
			}
			if name == "AdvanceLine" {
				return true
			}
			// a helper that advances while P(Peek()) holds, called right after P(Peek()) was seen to hold
			if c, ok := ins.(*ssa.Call); ok {
				if h := c.Common().StaticCallee(); h != nil && w.InModule(h) && !w.isSubParser(h) && len(b.Preds) == 1 {
					passes := false
					for _, a := range c.Common().Args {
						if a == rd {
							passes = true
						}
					}
					if !passes {
						continue
					}
					// nothing else touched the reader earlier in this block
					clean := true
					for _, prev := range b.Instrs {
						if prev == ins {
							break
						}
						if n, _ := readerCall(prev, rd); n != "" && n != "Peek" {
							clean = false
						}
					}
					pred := b.Preds[0]
					iff, isIf := pred.Instrs[len(pred.Instrs)-1].(*ssa.If)
					if !clean || !isIf {
						continue
					}
					truth := pred.Succs[0] == b
					for _, a := range condAtoms(iff.Cond, truth) {
						if p := peekPredicate(a.V, rd); p != nil && a.Truth && pp.advancesUnder(h, p) {
							return true
						}
					}
				}
			}
		}
		return false
	}
	edgeProgress := func(b *ssa.BasicBlock, succ int) bool {
		iff, ok := b.Instrs[len(b.Instrs)-1].(*ssa.If)
		if !ok || len(b.Succs) != 2 {
			return false
		}
		for _, a := range condAtoms(iff.Cond, succ == 0) {
			if !a.Truth {
				continue
			}
			leaves := phiLeaves(a.V)
			all := len(leaves) > 0
			for _, l := range leaves {
				if !pp.okOfProgressive(l, rd) {
					all = false
				}
			}
			if all {
				return true
			}
		}
		return false
	}
	in := map[*ssa.BasicBlock]bool{}
	for _, b := range fn.Blocks {
		in[b] = true
	}
	in[fn.Blocks[0]] = false
	local := map[*ssa.BasicBlock]bool{}
	for _, b := range fn.Blocks {
		local[b] = blockProgress(b)
	}
	out := func(b *ssa.BasicBlock, succ int) bool {
		return in[b] || local[b] || (succ >= 0 && edgeProgress(b, succ))
	}
	for changed := true; changed; {
		changed = false
		for _, b := range fn.Blocks {
			if b == fn.Blocks[0] || len(b.Preds) == 0 {
				continue
			}
			v := true
			for _, p := range b.Preds {
				for si, s := range p.Succs {
					if s == b && !out(p, si) {
						v = false
					}
				}
			}
			if v != in[b] {
				in[b] = v
				changed = true
			}
		}
	}
	why := ""
	for _, b := range fn.Blocks {
		ret, ok := b.Instrs[len(b.Instrs)-1].(*ssa.Return)
		if !ok || len(ret.Results) == 0 {
			continue
		}
		last := ret.Results[len(ret.Results)-1]
		mayTrue := false
		forwarded := true
		for _, l := range phiLeaves(last) {
			if cb, isC := constBool(l); isC {
				if cb {
					mayTrue, forwarded = true, false
				}
				continue
			}
			mayTrue = true
			if !pp.okOfProgressive(l, rd) {
				forwarded = false
			}
		}
		if !mayTrue || forwarded || out(b, -1) {
			continue
		}
		why = fmt.Sprintf("the return at %s can report success on a path along which the reader has not provably moved (no Advance by a positive constant, no scanned run whose first byte was tested, no successful sub-parser)", w.InstrPos(ret))
	}
	pp.memo[fn] = why
	return why
}

func ruleSubParsersProgress(w *World, r *Report) {
	r.Rule("C01-G", "A sub-parser is a module function func(…, text.Reader, …) (…, bool). Those that are called inside a loop with the loop's reader — and, transitively, the sub-parsers whose success they forward — consume input whenever they report success: a forward must-analysis over each function shows that every return whose last result can be true is reached only after reader.Advance(k) with a constant k > 0 (or n+k), Advance(i) where i is the length of a scanned run line[:i] whose first byte was tested by a guard accepting a non-empty subset of the run's byte class (all 256 values evaluated), AdvanceLine, a helper that advances while P(Peek()) called right after P(Peek()) was seen to hold, or the success edge of another such sub-parser. The loops that call them (attribute lists {…}, arrays […]) have no other exit than failure or a closing byte; a sub-parser that succeeds on an empty run makes them spin forever while appending to a slice: Convert never returns and memory grows without bound.")
	pp := &progressProver{w: w, memo: map[*ssa.Function]string{}, busy: map[*ssa.Function]bool{}}
	targets := map[*ssa.Function]string{}
	for _, fn := range w.Funcs {
		rd := readerParam(fn)
		if rd == nil {
			continue
		}
		loops, _ := naturalLoops(fn)
		for _, l := range loops {
			for b := range l.body {
				for _, ins := range b.Instrs {
					c, ok := ins.(*ssa.Call)
					if !ok {
						continue
					}
					cal := c.Common().StaticCallee()
					if !w.isSubParser(cal) {
						continue
					}
					for _, a := range c.Common().Args {
						if a == ssa.Value(rd) {
							if _, seen := targets[cal]; !seen {
								targets[cal] = "called in a loop of " + w.FnKey(fn)
							}
						}
					}
				}
			}
		}
	}
	// the sub-parsers they forward to
	for changed := true; changed; {
		changed = false
		for fn := range targets {
			rd := readerParam(fn)
			for _, b := range fn.Blocks {
				for _, ins := range b.Instrs {
					if c, ok := ins.(*ssa.Call); ok {
						cal := c.Common().StaticCallee()
						if w.isSubParser(cal) {
							for _, a := range c.Common().Args {
								if a == ssa.Value(rd) {
									if _, seen := targets[cal]; !seen {
										targets[cal] = "its success is forwarded by " + w.FnKey(fn)
										changed = true
									}
								}
							}
						}
					}
				}
			}
		}
	}
	var fns []*ssa.Function
	for fn := range targets {
		fns = append(fns, fn)
	}
	sort.Slice(fns, func(i, j int) bool { return fns[i].String() < fns[j].String() })
	for _, fn := range fns {
		key := w.FnKey(fn) + ": success implies progress"
		if why := pp.prove(fn); why == "" {
			r.OK(key, w.FnPos(fn), targets[fn]+"; every successful return follows a provable advance")
		} else {
			r.Bad(key, w.FnPos(fn), strings.TrimSpace(targets[fn]+"; "+why))
		}
	}
	r.Expect("sub-parsers called in loops (with the ones they forward to)", len(fns), 4)
}
