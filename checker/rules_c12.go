package main

// rules_c12.go — C12: the source buffer is never written (ownership analysis of []byte writes).

import (
	"fmt"
	"go/ast"
	"go/parser"
	"go/token"
	"os"
	"path/filepath"
	"sort"
	"strings"

	"golang.org/x/tools/go/ssa"
)

func init() {
	register(&Property{
		ID:      "C12",
		Level:   "proof",
		Explain: "Go code can write through a []byte only by an indexed store, copy into it, append to it when capacity allows, passing it to a callee that does one of these, or unsafe. W: every such write site in all functions of the 9 packages (not only those reachable from Convert) has a destination that this activation allocated (fresh), or that is a capped sub-slice s[a:b:b] for append, or is a parameter whose every caller passes a fresh slice; C: every foreign callee in the writer table receives fresh slices only; B: util.CopyOnWriteBuffer keeps the invariant copied => buffer is owned, checked inductively over its methods; X: package unsafe is used only by the two zero-copy conversion functions, whose results are treated as foreign; no assembly, cgo or linkname.",
		Trusted: []string{"Go slice semantics (append reallocates when len==cap)", "table of writing stdlib functions + name heuristic", "io.Writer contract: Write must not modify the slice", "VTA call graph for dynamic callees"},
		Assumes: []string{"user-supplied html.Writer / extensions out of scope"},
		Rules:   []func(*World, *Report){ruleByteWriteSites, ruleForeignByteCallees, ruleCopyOnWrite, ruleUnsafeInventory},
	})
}

// reviewed destination-parameter APIs: exported functions whose contract is to append to the slice
// the caller hands in (like strconv.AppendInt). One named symbol each, with the reason.
var dstParamAPIs = map[string]string{
	"(*text.Segment).ConcatPadding#1": "append-style API: appends the segment's padding to the destination v given by the caller; callers in the module are checked",
}

func (w *World) cowType() string { return "util.CopyOnWriteBuffer" }

// isCOWBufferLoad: v is a load of the `buffer` field of a CopyOnWriteBuffer.
func isCOWBufferLoad(v ssa.Value) (*ssa.FieldAddr, bool) {
	u, ok := v.(*ssa.UnOp)
	if !ok || u.Op != token.MUL {
		return nil, false
	}
	fa, ok := u.X.(*ssa.FieldAddr)
	if !ok {
		return nil, false
	}
	t, f := fieldOfAddr(fa)
	if f == nil || typeShort(t) != "util.CopyOnWriteBuffer" || !isByteSlice(f.Type()) {
		return nil, false
	}
	return fa, true
}

func ruleByteWriteSites(w *World, r *Report) {
	r.Rule("C12-W", "Every indexed store, copy, append (and call of a writing stdlib function) whose destination is a []byte writes into memory allocated by this activation (fresh), or — for append — a capped sub-slice s[a:b:b]; a destination that is a parameter is an obligation on every caller; CopyOnWriteBuffer.buffer is deferred to C12-B.")
	fa := w.Fresh()
	n, nCow, nParam := 0, 0, 0
	for _, fn := range w.Funcs {
		for _, bw := range fa.ByteWritesOf(fn) {
			n++
			key := fmt.Sprintf("%s: %s %s", w.FnKey(fn), bw.Kind, dstDesc(bw.Dst))
			if _, ok := isCOWBufferLoad(bw.Dst); ok {
				nCow++
				r.OK(key, w.InstrPos(bw.Instr), "copy-on-write buffer: decided by C12-B")
				continue
			}
			o := fa.Of(bw.Dst)
			isAppend := writeKindOf(bw.Kind) == "append"
			if o.Foreign != "" {
				r.Bad(key, w.InstrPos(bw.Instr), fmt.Sprintf("%s into a slice that may alias caller memory: origins=%s", bw.Kind, o))
				continue
			}
			if o.Capped && !isAppend {
				r.Bad(key, w.InstrPos(bw.Instr), fmt.Sprintf("%s into a capped sub-slice still writes the base: origins=%s", bw.Kind, o))
				continue
			}
			if len(o.Params) > 0 {
				nParam++
				r.OK(key, w.InstrPos(bw.Instr), fmt.Sprintf("destination is a parameter (origins=%s): obligation on callers, see C12-W callers", o))
				continue
			}
			r.OK(key, w.InstrPos(bw.Instr), "destination origins="+o.String())
		}
	}
	r.Expect("[]byte write sites", n, 16)
	r.Note("C12-W: %d write sites (%d copy-on-write, %d through parameters)", n, nCow, nParam)

	// caller obligations for written parameters
	var fns []*ssa.Function
	for fn := range fa.written {
		fns = append(fns, fn)
	}
	sort.Slice(fns, func(i, j int) bool { return fns[i].String() < fns[j].String() })
	cg := w.CG()
	for _, fn := range fns {
		var ks []int
		for k := range fa.written[fn] {
			ks = append(ks, k)
		}
		sort.Ints(ks)
		for _, k := range ks {
			kind := fa.written[fn][k]
			pname := "?"
			if k < len(fn.Params) {
				pname = fn.Params[k].Name()
			}
			key := fmt.Sprintf("%s: parameter %s written (%s)", w.FnKey(fn), pname, kind)
			exported := isExportedFunc(fn)
			if fn.Signature.Recv() != nil && k == 0 {
				continue // receiver itself is not a []byte
			}
			if !fa.boundary[fn][k] {
				r.OK(key, w.FnPos(fn), "only forwards the argument to an exported function that writes through it; reported there")
				continue
			}
			if exported {
				id := fmt.Sprintf("%s#%d", w.FnKey(fn), k)
				if why, ok := dstParamAPIs[id]; ok {
					r.OK(key, w.FnPos(fn), "reviewed destination-parameter API: "+why)
				} else if fa.boundary[fn][k] {
					r.Bad(key, w.FnPos(fn), "exported function writes through its []byte argument: any caller's slice (including the source) may be modified")
					continue
				} else {
					r.OK(key, w.FnPos(fn), "forwards its argument to an exported function that is reported itself")
					continue
				}
			}
			// every call site in the module must pass a fresh slice (or its own parameter, handled transitively)
			sites := 0
			for _, caller := range cg.In[fn] {
				if !w.InModule(caller) {
					continue
				}
				for _, b := range caller.Blocks {
					for _, ins := range b.Instrs {
						c, ok := ins.(ssa.CallInstruction)
						if !ok {
							continue
						}
						hit := false
						for _, cal := range fa.calleesOf(caller, c) {
							if cal == fn {
								hit = true
							}
						}
						if !hit {
							continue
						}
						arg := callArg(c.Common(), fn, k)
						if arg == nil {
							continue
						}
						sites++
						o := fa.Of(arg)
						ckey := fmt.Sprintf("%s -> %s(%s)", w.FnKey(caller), w.FnKey(fn), pname)
						switch {
						case o.Foreign != "":
							r.Bad(ckey, w.InstrPos(ins), fmt.Sprintf("passes a slice that may alias caller memory (origins=%s) to a function that writes through it (%s)", o, kind))
						case o.Capped && kind != "append":
							r.Bad(ckey, w.InstrPos(ins), "passes a capped sub-slice to a function that stores through it")
						case len(o.Params) > 0:
							r.OK(ckey, w.InstrPos(ins), "passes its own parameter on: obligation moves to its callers (origins="+o.String()+")")
						default:
							r.OK(ckey, w.InstrPos(ins), "argument origins="+o.String())
						}
					}
				}
			}
			if !exported && sites == 0 {
				r.OK(key, w.FnPos(fn), "no call sites in the module")
			}
		}
	}
}

func recvExported(fn *ssa.Function) bool {
	n := namedOf(fn.Signature.Recv().Type())
	return n != nil && n.Obj().Exported()
}

func dstDesc(v ssa.Value) string {
	switch x := v.(type) {
	case *ssa.Parameter:
		return "param " + x.Name()
	case *ssa.UnOp:
		return "load " + describeAddr(x.X)
	case *ssa.Phi:
		if x.Comment != "" {
			return "var " + x.Comment
		}
		return "phi"
	case *ssa.MakeSlice:
		return "make"
	case *ssa.Call:
		if n := builtinName(x.Common()); n != "" {
			return n + "(...)"
		}
		if c := x.Common().StaticCallee(); c != nil {
			return "result of " + c.Name()
		}
		return "call"
	case *ssa.Slice:
		return "slice of " + dstDesc(x.X)
	case *ssa.Const:
		return "nil"
	case *ssa.Alloc:
		return "local"
	}
	return fmt.Sprintf("%T", v)
}

// ---- C12-C ---------------------------------------------------------------------------

func ruleForeignByteCallees(w *World, r *Report) {
	r.Rule("C12-C", "Every call passing a []byte to a function outside the module: if the callee is in the writer table (or an unknown name matching Append|Put|Encode|Read|Fill|Sort|Reverse|Decode|Copy|Swap with a []byte parameter) the argument must be fresh; interface calls Write(p) rely on the io.Writer contract.")
	fa := w.Fresh()
	callees := map[string]int{}
	n := 0
	for _, fn := range w.Funcs {
		for _, b := range fn.Blocks {
			for _, ins := range b.Instrs {
				c, ok := ins.(ssa.CallInstruction)
				if !ok {
					continue
				}
				com := c.Common()
				if builtinName(com) != "" {
					continue
				}
				var name string
				var known bool
				var args []ssa.Value
				if com.IsInvoke() {
					// interface method: module implementations are analysed as module functions.
					hasModuleImpl := len(fa.calleesOf(fn, c)) > 0
					name = "(" + typeShort(com.Value.Type()) + ")." + com.Method.Name()
					args = com.Args
					if hasModuleImpl {
						continue
					}
					known = com.Method.Name() == "Write" || com.Method.Name() == "WriteString"
				} else {
					cal := com.StaticCallee()
					if cal == nil {
						// call of a function value: covered through the call graph for module closures
						continue
					}
					if w.InModule(cal) {
						continue
					}
					name = foreignName(cal)
					args = com.Args
					if _, _, isW := foreignWriter(c, cal); isW {
						continue // write sites through foreign writers are decided by C12-W
					}
				}
				for i, a := range args {
					if !isByteSlice(a.Type()) {
						continue
					}
					n++
					callees[name]++
					_, inTable := stdWriters[name]
					if stdReaders[name] {
						continue // reviewed: reads its argument only, although its name matches the heuristic
					}
					if inTable {
						continue // write sites from the table are decided by C12-W
					}
					if known {
						continue
					}
					base := name[strings.LastIndex(name, ".")+1:]
					suspicious := false
					for _, p := range writerNamePrefixes {
						if strings.HasPrefix(base, p) {
							suspicious = true
						}
					}
					if !suspicious {
						continue
					}
					o := fa.Of(a)
					key := fmt.Sprintf("%s: %s arg%d", w.FnKey(fn), name, i)
					if o.Foreign == "" && !o.Capped && len(o.Params) == 0 {
						r.OK(key, w.InstrPos(ins), "unknown writer-like callee but the argument is fresh")
					} else {
						r.Unknown(key, w.InstrPos(ins), fmt.Sprintf("callee name matches the writer heuristic and is not in the reviewed table; argument origins=%s", o))
					}
				}
			}
		}
	}
	var names []string
	for k, v := range callees {
		names = append(names, fmt.Sprintf("%s×%d", k, v))
	}
	sort.Strings(names)
	r.Expect("foreign calls receiving []byte", n, 50)
	r.OK("foreign callees receiving []byte", "", fmt.Sprintf("%d distinct callees, none outside the reviewed reader set matches the writer heuristic", len(callees)))
	r.Quiet("C12-C foreign callees with []byte arguments: %s", strings.Join(names, ", "))
}

// ---- C12-B ---------------------------------------------------------------------------

func ruleCopyOnWrite(w *World, r *Report) {
	r.Rule("C12-B", "util.CopyOnWriteBuffer keeps `copied => buffer is owned`: every write through the buffer field happens where, on every path from the method entry, a fresh slice was stored to buffer or the true edge of `copied` was taken; every store of true to copied follows a fresh store to buffer; every store to buffer is fresh, an append to the owned buffer, or the constructor's (with copied=false); nothing outside the type's methods and constructor touches the fields.")
	cow := w.Named("util", "CopyOnWriteBuffer")
	if cow == nil {
		r.Unknown("util.CopyOnWriteBuffer", "", "type not found")
		return
	}
	fa := w.Fresh()
	nSites := 0
	for _, fn := range w.Funcs {
		// find field accesses
		var accesses []*ssa.FieldAddr
		for _, b := range fn.Blocks {
			for _, ins := range b.Instrs {
				if f, ok := ins.(*ssa.FieldAddr); ok {
					if t, _ := fieldOfAddr(f); namedOf(t) == cow {
						accesses = append(accesses, f)
					}
				}
			}
		}
		if len(accesses) == 0 {
			continue
		}
		isMethod := fn.Signature.Recv() != nil && namedOf(fn.Signature.Recv().Type()) == cow
		// constructor: all accesses are to a local Alloc and `copied` is stored false
		if !isMethod {
			ok := true
			for _, f := range accesses {
				if _, isAlloc := f.X.(*ssa.Alloc); !isAlloc {
					ok = false
				}
				_, fld := fieldOfAddr(f)
				for _, ref := range referrersOf(f) {
					if st, isSt := ref.(*ssa.Store); isSt && fld.Name() == "copied" {
						if b, isB := constBool(st.Val); !isB || b {
							ok = false
						}
					}
				}
			}
			key := w.FnKey(fn) + ": constructs CopyOnWriteBuffer"
			if ok {
				r.OK(key, w.FnPos(fn), "fields of a fresh local value only; copied=false")
			} else {
				r.Bad(key, w.FnPos(fn), "function outside the type's methods touches buffer/copied of an existing CopyOnWriteBuffer")
			}
			continue
		}
		recv := fn.Params[0]
		// forward must-analysis: owned[b] at block entry
		owned := w.cowOwnedStates(fn, recv, fa)
		for _, b := range fn.Blocks {
			st := owned[b]
			for _, ins := range b.Instrs {
				switch v := ins.(type) {
				case *ssa.Store:
					f, ok := v.Addr.(*ssa.FieldAddr)
					if !ok || f.X != ssa.Value(recv) {
						continue
					}
					_, fld := fieldOfAddr(f)
					key := fmt.Sprintf("%s: store %s", w.FnKey(fn), fld.Name())
					switch fld.Name() {
					case "buffer":
						nSites++
						o := fa.Of(v.Val)
						if isFreshOnly(o) {
							st = true
							r.OK(key+" (fresh)", w.InstrPos(ins), "stores a freshly allocated slice")
						} else if base, ok := appendOfCOW(v.Val, recv); ok && st {
							_ = base
							r.OK(key+" (append to owned)", w.InstrPos(ins), "append to the buffer in owned state")
						} else {
							st = false
							r.Bad(key, w.InstrPos(ins), fmt.Sprintf("stores a slice that is neither fresh nor an append to the owned buffer (origins=%s, owned=%v)", o, owned[b]))
						}
					case "copied":
						nSites++
						if bv, ok := constBool(v.Val); ok && bv {
							if st {
								r.OK(key+"=true", w.InstrPos(ins), "buffer is owned at this point")
							} else {
								r.Bad(key+"=true", w.InstrPos(ins), "copied set to true while the buffer may still alias the caller's slice")
							}
						} else if ok && !bv {
							r.OK(key+"=false", w.InstrPos(ins), "clearing the flag is always safe")
						} else {
							r.Bad(key, w.InstrPos(ins), "copied set from a non-constant")
						}
					}
				case ssa.CallInstruction:
					com := v.Common()
					if w.cowCallEstablishesOwned(v, recv, fa) {
						st = true // a method of the same buffer that returns only with the buffer owned (the copy step as a helper)
						continue
					}
					name := builtinName(com)
					if name != "append" && name != "copy" {
						continue
					}
					if f, ok := isCOWBufferLoad(com.Args[0]); ok && f.X == ssa.Value(recv) {
						nSites++
						key := fmt.Sprintf("%s: %s(buffer, …)", w.FnKey(fn), name)
						if st {
							r.OK(key, w.InstrPos(ins), "buffer is owned on every path reaching this write")
						} else {
							r.Bad(key, w.InstrPos(ins), "write through buffer on a path where it may still be the caller's slice (neither a fresh store nor copied==true precedes it)")
						}
					}
				}
			}
		}
	}
	r.Expect("copy-on-write typestate sites", nSites, 8)
}

func isFreshOnly(o Origins) bool {
	return o.Foreign == "" && !o.Capped && len(o.Params) == 0
}

// appendOfCOW: v is append(load recv.buffer, …).
func appendOfCOW(v ssa.Value, recv ssa.Value) (ssa.Value, bool) {
	c, ok := v.(*ssa.Call)
	if !ok || builtinName(c.Common()) != "append" {
		return nil, false
	}
	f, ok := isCOWBufferLoad(c.Common().Args[0])
	if !ok || f.X != recv {
		return nil, false
	}
	return c.Common().Args[0], true
}

// cowOwnedStates computes, per block, whether the buffer is owned at block entry on all paths.
func (w *World) cowOwnedStates(fn *ssa.Function, recv ssa.Value, fa *FreshAnalysis) map[*ssa.BasicBlock]bool {
	in := map[*ssa.BasicBlock]bool{}
	out := map[*ssa.BasicBlock]bool{}
	for _, b := range fn.Blocks {
		in[b], out[b] = true, true // optimistic start for must-analysis
	}
	if len(fn.Blocks) > 0 {
		in[fn.Blocks[0]] = false
	}
	transfer := func(b *ssa.BasicBlock, st bool) bool {
		for _, ins := range b.Instrs {
			if c, ok := ins.(ssa.CallInstruction); ok && w.cowCallEstablishesOwned(c, recv, fa) {
				st = true
				continue
			}
			if v, ok := ins.(*ssa.Store); ok {
				if f, ok := v.Addr.(*ssa.FieldAddr); ok && f.X == recv {
					_, fld := fieldOfAddr(f)
					if fld.Name() == "buffer" {
						if isFreshOnly(fa.Of(v.Val)) {
							st = true
						} else if _, ok := appendOfCOW(v.Val, recv); ok && st {
							// stays owned
						} else {
							st = false
						}
					}
				}
			}
		}
		return st
	}
	edge := func(p, b *ssa.BasicBlock) bool {
		st := out[p]
		if iff, ok := p.Instrs[len(p.Instrs)-1].(*ssa.If); ok && len(p.Succs) == 2 && p.Succs[0] != p.Succs[1] {
			for _, a := range condAtoms(iff.Cond, true) {
				if u, ok := a.V.(*ssa.UnOp); ok && u.Op == token.MUL {
					if f, ok := u.X.(*ssa.FieldAddr); ok && f.X == recv {
						if _, fld := fieldOfAddr(f); fld.Name() == "copied" {
							// cond == a.Truth on the true edge
							if (p.Succs[0] == b && a.Truth) || (p.Succs[1] == b && !a.Truth) {
								st = true
							}
						}
					}
				}
			}
		}
		return st
	}
	for changed := true; changed; {
		changed = false
		for i, b := range fn.Blocks {
			ni := true
			if i == 0 {
				ni = false
			} else {
				for _, p := range b.Preds {
					if !edge(p, b) {
						ni = false
					}
				}
			}
			no := transfer(b, ni)
			if ni != in[b] || no != out[b] {
				in[b], out[b] = ni, no
				changed = true
			}
		}
	}
	return in
}

// ---- C12-X ---------------------------------------------------------------------------

func ruleUnsafeInventory(w *World, r *Report) {
	r.Rule("C12-X", "Package unsafe (and reflect.SliceHeader/StringHeader) is used only inside the zero-copy conversion functions util.BytesToReadOnlyString and util.StringToReadOnlyBytes, which perform no store; no cgo, no go:linkname, no assembly — checked over every .go/.s file of the 9 package directories, including files excluded by build tags.")
	allowedFuncs := map[string]bool{"BytesToReadOnlyString": true, "StringToReadOnlyBytes": true}
	nFiles, nUses := 0, 0
	var dirs []string
	for path := range w.Pkgs {
		rel := strings.TrimPrefix(strings.TrimPrefix(path, modPath), "/")
		dirs = append(dirs, filepath.Join(w.Dir, rel))
	}
	sort.Strings(dirs)
	fset := token.NewFileSet()
	for _, d := range dirs {
		ents, err := os.ReadDir(d)
		if err != nil {
			r.Unknown("directory "+d, "", err.Error())
			continue
		}
		for _, e := range ents {
			name := e.Name()
			full := filepath.Join(d, name)
			rel, _ := filepath.Rel(w.Dir, full)
			if e.IsDir() {
				continue
			}
			if strings.HasSuffix(name, ".s") || strings.HasSuffix(name, ".c") || strings.HasSuffix(name, ".h") || strings.HasSuffix(name, ".syso") {
				r.Bad("file "+rel, rel, "assembly/C/object file in a library package")
				continue
			}
			if !strings.HasSuffix(name, ".go") || strings.HasSuffix(name, "_test.go") {
				continue
			}
			nFiles++
			f, err := parser.ParseFile(fset, full, nil, parser.ParseComments)
			if err != nil {
				r.Unknown("file "+rel, rel, "does not parse: "+err.Error())
				continue
			}
			for _, cg := range f.Comments {
				for _, c := range cg.List {
					if strings.HasPrefix(c.Text, "//go:linkname") {
						r.Bad("file "+rel+": go:linkname", rel, c.Text)
					}
				}
			}
			unsafeName, reflectName := "", ""
			for _, im := range f.Imports {
				p := strings.Trim(im.Path.Value, `"`)
				local := ""
				if im.Name != nil {
					local = im.Name.Name
				}
				switch p {
				case "C":
					r.Bad("file "+rel+": cgo", rel, "import \"C\"")
				case "unsafe":
					unsafeName = orDefault(local, "unsafe")
				case "reflect":
					reflectName = orDefault(local, "reflect")
				}
			}
			if unsafeName == "" && reflectName == "" {
				continue
			}
			for _, decl := range f.Decls {
				fd, isFn := decl.(*ast.FuncDecl)
				uses := 0
				stores := 0
				ast.Inspect(decl, func(n ast.Node) bool {
					switch x := n.(type) {
					case *ast.SelectorExpr:
						if id, ok := x.X.(*ast.Ident); ok {
							if id.Name == unsafeName && unsafeName != "" {
								uses++
							}
							if id.Name == reflectName && reflectName != "" && (x.Sel.Name == "SliceHeader" || x.Sel.Name == "StringHeader") {
								uses++
							}
						}
					case *ast.AssignStmt:
						for _, l := range x.Lhs {
							if _, ok := l.(*ast.IndexExpr); ok {
								stores++
							}
							if s, ok := l.(*ast.StarExpr); ok {
								_ = s
								stores++
							}
						}
					case *ast.IncDecStmt:
						stores++
					}
					return true
				})
				if uses == 0 {
					continue
				}
				nUses++
				dname := "package-level declaration"
				if isFn {
					dname = fd.Name.Name
				}
				key := fmt.Sprintf("%s: %s uses unsafe", rel, dname)
				if isFn && fd.Recv == nil && allowedFuncs[fd.Name.Name] && strings.HasSuffix(filepath.Dir(rel), "util") && stores == 0 {
					r.OK(key, rel, "zero-copy conversion helper; no store in its body; its result is treated as foreign by the ownership analysis")
				} else {
					r.Bad(key, rel, "use of unsafe/reflect headers outside the two reviewed conversion helpers (or with a store)")
				}
			}
		}
	}
	r.Expect("source files scanned for unsafe/cgo/linkname", nFiles, 26)
	r.Expect("functions using unsafe", nUses, 2)
}

// cowCallEstablishesOwned: the call is a method call on the same CopyOnWriteBuffer whose every return is reached with
// the buffer owned (a fresh store happened or the copied flag was seen true) — the "copy on first write" step factored
// into a helper.
func (w *World) cowCallEstablishesOwned(c ssa.CallInstruction, recv ssa.Value, fa *FreshAnalysis) bool {
	com := c.Common()
	cal := com.StaticCallee()
	if cal == nil || cal.Signature.Recv() == nil || len(com.Args) == 0 || com.Args[0] != recv || cal.Blocks == nil {
		return false
	}
	key := "cowowned:" + cal.String()
	if v, ok := w.memo[key]; ok {
		return v.(bool)
	}
	w.memo[key] = false // recursion guard
	in := w.cowOwnedStates(cal, cal.Params[0], fa)
	res := true
	for _, b := range cal.Blocks {
		if _, isRet := b.Instrs[len(b.Instrs)-1].(*ssa.Return); !isRet {
			continue
		}
		st := in[b]
		for _, ins := range b.Instrs {
			if cc, ok := ins.(ssa.CallInstruction); ok && w.cowCallEstablishesOwned(cc, cal.Params[0], fa) {
				st = true
				continue
			}
			if v, ok := ins.(*ssa.Store); ok {
				if f, ok := v.Addr.(*ssa.FieldAddr); ok && f.X == ssa.Value(cal.Params[0]) {
					if _, fld := fieldOfAddr(f); fld.Name() == "buffer" {
						if isFreshOnly(fa.Of(v.Val)) {
							st = true
						} else if _, ok := appendOfCOW(v.Val, cal.Params[0]); !(ok && st) {
							st = false
						}
					}
				}
			}
		}
		if !st {
			res = false
		}
	}
	w.memo[key] = res
	return res
}
