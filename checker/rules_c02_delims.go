package main

// rules_c02_delims.go — C02-O: the delimiter pairs of link titles, evaluated for all byte values, agree between the
// sibling parsers (inline links and link reference definitions) and are the three pairs of the specification.

import (
	"fmt"
	"sort"
	"strings"

	"golang.org/x/tools/go/ssa"
)

// feasibleUnder: blk can be reached from the function entry when every branch whose condition can be evaluated under
// env takes the edge its value selects (branches that cannot be evaluated may go either way).
func feasibleUnder(env *byteEnv, blk *ssa.BasicBlock) bool {
	fn := blk.Parent()
	seen := map[*ssa.BasicBlock]bool{}
	stack := []*ssa.BasicBlock{fn.Blocks[0]}
	for len(stack) > 0 {
		b := stack[len(stack)-1]
		stack = stack[:len(stack)-1]
		if seen[b] {
			continue
		}
		seen[b] = true
		if b == blk {
			return true
		}
		succs := b.Succs
		if iff, ok := b.Instrs[len(b.Instrs)-1].(*ssa.If); ok && len(b.Succs) == 2 {
			if v, known := env.eval(iff.Cond); known {
				if v != 0 {
					succs = b.Succs[:1]
				} else {
					succs = b.Succs[1:]
				}
			}
		}
		stack = append(stack, succs...)
	}
	return false
}

// evalWithPhis evaluates v; a phi is resolved by the one incoming edge that is feasible under env.
func evalWithPhis(env *byteEnv, v ssa.Value, depth int) (int64, bool) {
	if x, ok := env.eval(v); ok {
		return x, true
	}
	ph, ok := stripConv(v).(*ssa.Phi)
	if !ok || depth > 4 {
		return 0, false
	}
	var res int64
	n := 0
	for i, e := range ph.Edges {
		pred := ph.Block().Preds[i]
		if !feasibleUnder(env, pred) {
			continue
		}
		// the edge pred -> phi block itself may be conditional
		if iff, isIf := pred.Instrs[len(pred.Instrs)-1].(*ssa.If); isIf && len(pred.Succs) == 2 && pred.Succs[0] != pred.Succs[1] {
			if cv, known := env.eval(iff.Cond); known {
				want := pred.Succs[0] == ph.Block()
				if (cv != 0) != want {
					continue
				}
			}
		}
		x, ok := evalWithPhis(env, e, depth+1)
		if !ok {
			return 0, false
		}
		if n > 0 && x != res {
			return 0, false
		}
		res = x
		n++
	}
	return res, n > 0
}

func ruleTitleDelimiters(w *World, r *Report) {
	r.Rule("C02-O", "Link titles: every call reader.FindClosure(opener, closer, …) in package parser whose opener is a byte read from the input (the result of Peek()) is evaluated for all 256 opener values under the branch facts that dominate the call (the function's own tests of that byte) and the values the closer takes. The (opener → closer) map reaching the call must be exactly '\"'→'\"', '\\''→'\\'', '('→')' — the three title forms of the specification — and the sibling call sites (inline links, link reference definitions) must agree. A form dropped on one side makes `[foo]: /url (title)` stop being a definition while `[foo](/url (title))` still is a link.")
	type site struct {
		fn   *ssa.Function
		call ssa.CallInstruction
		m    string
	}
	var sites []site
	for _, fn := range w.Funcs {
		if w.PkgOf(fn) != modPath+"/parser" {
			continue
		}
		for _, b := range fn.Blocks {
			for _, ins := range b.Instrs {
				c, ok := ins.(ssa.CallInstruction)
				if !ok || !c.Common().IsInvoke() || c.Common().Method.Name() != "FindClosure" || len(c.Common().Args) < 2 {
					continue
				}
				op := stripConv(c.Common().Args[0])
				pk, ok := op.(*ssa.Call)
				if !ok || !pk.Common().IsInvoke() || pk.Common().Method.Name() != "Peek" {
					continue
				}
				var pairs []string
				undecided := false
				for v := 0; v < 256; v++ {
					env := &byteEnv{w: w, extra: map[ssa.Value]int64{pk: int64(v)}}
					if !feasibleUnder(env, b) {
						continue
					}
					cl, ok := evalWithPhis(env, c.Common().Args[1], 0)
					if !ok {
						undecided = true
						continue
					}
					pairs = append(pairs, fmt.Sprintf("%q→%q", rune(v), rune(cl)))
				}
				sort.Strings(pairs)
				m := strings.Join(pairs, " ")
				if undecided {
					m = "undecided"
				}
				sites = append(sites, site{fn, c, m})
			}
		}
	}
	want := []string{fmt.Sprintf("%q→%q", '"', '"'), fmt.Sprintf("%q→%q", '\'', '\''), fmt.Sprintf("%q→%q", '(', ')')}
	sort.Strings(want)
	wantS := strings.Join(want, " ")
	per := map[*ssa.Function]int{}
	for _, s := range sites {
		per[s.fn]++
		key := fmt.Sprintf("%s: title delimiters #%d", w.FnKey(s.fn), per[s.fn])
		switch {
		case s.m == "undecided":
			r.Unknown(key, w.InstrPos(s.call), "the closer for some opener value could not be evaluated")
		case s.m == wantS:
			r.OK(key, w.InstrPos(s.call), s.m)
		default:
			r.Bad(key, w.InstrPos(s.call), fmt.Sprintf("the title forms accepted here are {%s}; the specification's are {%s}", s.m, wantS))
		}
	}
	r.Expect("FindClosure calls with an opener read from the input", len(sites), 1)
}
