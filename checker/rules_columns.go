package main

// rules_columns.go — C02-T: columns are measured from the reader's line offset.

import (
	"fmt"
	"go/types"
	"sort"

	"golang.org/x/tools/go/ssa"
)

// blockParserFuncs: every BlockParser.Open/Continue of the module plus the module functions they (transitively) hand
// a text.Reader to.
func (w *World) blockParserFuncs() []*ssa.Function {
	roots := w.blockParserMethods()
	readerT := w.Named("text", "Reader")
	fns := map[*ssa.Function]bool{}
	var work []*ssa.Function
	for _, f := range roots {
		fns[f] = true
		work = append(work, f)
	}
	for len(work) > 0 {
		f := work[len(work)-1]
		work = work[:len(work)-1]
		for _, b := range f.Blocks {
			for _, ins := range b.Instrs {
				c, ok := ins.(ssa.CallInstruction)
				if !ok {
					continue
				}
				cal := c.Common().StaticCallee()
				if cal == nil || !w.InModule(cal) || fns[cal] || cal.Blocks == nil {
					continue
				}
				for _, p := range cal.Params {
					if readerT != nil && types.Identical(p.Type(), readerT) {
						fns[cal] = true
						work = append(work, cal)
						break
					}
				}
			}
		}
	}
	var list []*ssa.Function
	for f := range fns {
		list = append(list, f)
	}
	sort.Slice(list, func(i, j int) bool { return list[i].String() < list[j].String() })
	return list
}

// wholePeekedLine: v is the line result of reader.PeekLine() itself (not a sub-slice); returns the reader.
func wholePeekedLine(v ssa.Value) (ssa.Value, bool) {
	ex, ok := v.(*ssa.Extract)
	if !ok || ex.Index != 0 {
		return nil, false
	}
	c, ok := ex.Tuple.(*ssa.Call)
	if !ok || !c.Common().IsInvoke() || c.Common().Method.Name() != "PeekLine" {
		return nil, false
	}
	return c.Common().Value, true
}

func isLineOffsetOf(v, reader ssa.Value) bool {
	c, ok := stripConv(v).(*ssa.Call)
	return ok && c.Common().IsInvoke() && c.Common().Method.Name() == "LineOffset" && (reader == nil || c.Common().Value == reader)
}

func ruleColumnsFromLineOffset(w *World, r *Report) {
	r.Rule("C02-T", "Tab stops are absolute columns of the source line, and inside a container the peeked line starts in the middle of it; the reader's LineOffset() is that starting column. In every BlockParser.Open/Continue and the helpers they hand the reader to: (a) a call of util.IndentWidth / IndentPosition / IndentPositionPadding whose first argument is the whole line returned by reader.PeekLine() passes reader.LineOffset() of the same reader as the current column; (b) every call of util.TabWidth passes a LineOffset() of a reader. Measuring from 0 or from a locally counted width gives the same result at top level and a different one inside a block quote or list item whose content column is not a multiple of four — indentation written with tabs then no longer equals the same columns written with spaces. (Calls on a sub-slice of the line carry their own origin and are not judged.)")
	n, nTab := 0, 0
	for _, fn := range w.blockParserFuncs() {
		k, kTab := 0, 0
		for _, b := range fn.Blocks {
			for _, ins := range b.Instrs {
				c, ok := ins.(*ssa.Call)
				if !ok {
					continue
				}
				cal := c.Common().StaticCallee()
				if cal == nil || cal.Pkg == nil || cal.Pkg.Pkg.Path() != modPath+"/util" {
					continue
				}
				args := c.Common().Args
				switch cal.Name() {
				case "IndentWidth", "IndentPosition", "IndentPositionPadding":
					rd, whole := wholePeekedLine(args[0])
					if !whole {
						continue
					}
					n++
					k++
					key := fmt.Sprintf("%s: %s(whole line) #%d", w.FnKey(fn), cal.Name(), k)
					if isLineOffsetOf(args[1], rd) {
						r.OK(key, w.InstrPos(c), "current column = reader.LineOffset()")
					} else {
						r.Bad(key, w.InstrPos(c), "the indentation of the whole peeked line is measured from "+shortVal(args[1])+" instead of the reader's LineOffset(): tabs are expanded against the wrong columns inside containers")
					}
				case "TabWidth":
					nTab++
					kTab++
					key := fmt.Sprintf("%s: TabWidth #%d", w.FnKey(fn), kTab)
					if isLineOffsetOf(args[0], nil) {
						r.OK(key, w.InstrPos(c), "column = LineOffset()")
					} else {
						r.Bad(key, w.InstrPos(c), "the width of a tab is computed at "+shortVal(args[0])+", not at the reader's LineOffset(): inside a container whose content column is not a multiple of four the tab expands to the wrong width")
					}
				}
			}
		}
	}
	r.Expect("whole-line indentation measurements in block parsers", n, 5)
	r.Quiet("C02-T: %d TabWidth calls in block parsers", nTab)
}
