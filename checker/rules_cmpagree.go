package main

// rules_cmpagree.go — C01-Q: the comparisons against one named byte constant agree on case sensitivity.

import (
	"fmt"
	"go/token"
	"sort"
	"strings"

	"golang.org/x/tools/go/ssa"
)

func ruleNameComparisonsAgree(w *World, r *Report) {
	r.Rule("C01-Q", "Sibling agreement: all comparisons of a value with one package-level []byte name (\"class\", \"id\", …) use the same notion of equality — all bytes.Equal or all bytes.EqualFold. The attribute parser rejects a non-string value for the class attribute where it recognises the name, and merges class values, with an unchecked v.([]byte), where it recognises the name again: if one site folds case and the other does not, {.a Class=1} passes the check under one spelling and reaches the assertion under the other, and Convert panics.")
	type use struct {
		fold bool
		pos  string
		fn   string
	}
	uses := map[*ssa.Global][]use{}
	for _, fn := range w.Funcs {
		for _, b := range fn.Blocks {
			for _, ins := range b.Instrs {
				c, ok := ins.(*ssa.Call)
				if !ok {
					continue
				}
				cal := c.Common().StaticCallee()
				if cal == nil {
					continue
				}
				name := cal.String()
				if name != "bytes.Equal" && name != "bytes.EqualFold" {
					continue
				}
				for _, a := range c.Common().Args {
					if ld, ok := a.(*ssa.UnOp); ok && ld.Op == token.MUL {
						if g, ok := ld.X.(*ssa.Global); ok && g.Pkg != nil && w.Pkgs[g.Pkg.Pkg.Path()] != nil {
							uses[g] = append(uses[g], use{name == "bytes.EqualFold", w.InstrPos(c), w.FnKey(fn)})
						}
					}
				}
			}
		}
	}
	var gs []*ssa.Global
	for g, u := range uses {
		if len(u) >= 2 {
			gs = append(gs, g)
		}
	}
	sort.Slice(gs, func(i, j int) bool { return gs[i].String() < gs[j].String() })
	for _, g := range gs {
		key := "comparisons with " + g.Pkg.Pkg.Name() + "." + g.Name()
		nf := 0
		var where []string
		for _, u := range uses[g] {
			if u.fold {
				nf++
			}
			k := "Equal"
			if u.fold {
				k = "EqualFold"
			}
			where = append(where, fmt.Sprintf("%s at %s", k, u.pos))
		}
		if nf == 0 || nf == len(uses[g]) {
			r.OK(key, "", fmt.Sprintf("%d comparisons, all of one kind", len(uses[g])))
		} else {
			r.Bad(key, uses[g][0].pos, "the comparisons with this name disagree on case sensitivity ("+strings.Join(where, "; ")+"): a spelling accepted at one site is not recognised at the other")
		}
	}
	r.Expect("named byte constants compared at two or more sites", len(gs), 1)
}
