package main

// rules_c15.go — C15: auto heading ids are present, non-empty and unique (DESIGN 3/C15).
//
//	C15-G postcondition of the id generator: every returned id is inserted into the receiver's table,
//	      under the miss edge of a lookup of the same key, and cannot be empty
//	C15-T one table per document: Parse creates a context through a constructor that allocates a new
//	      table whenever the caller gave none
//	C15-H every heading parser's Close serves an id on every path under the auto-id flag

import (
	"fmt"
	"go/token"
	"go/types"
	"strings"

	"golang.org/x/tools/go/ssa"
)

func init() {
	register(&Property{
		ID:      "C15",
		Level:   "other",
		Explain: "Decides: (G) in the module's implementation of parser.IDs.Generate every returned id r is (i) inserted — a map update on the receiver's table with a key that is r up to pure conversions happens on the path to the return, (ii) new — that update lies under the miss edge of a comma-ok lookup of the same key in the same table, (iii) non-empty — r is either a formatted string with a constant non-empty part or a value that reaches the return only along edges on which len(r) != 0 holds or a non-empty constant was substituted; Put inserts its argument; so within one table generated ids are pairwise distinct, distinct from every id put or generated before, and never empty; (T) Parse obtains its context, when the caller passed none, from a constructor call made in that Parse activation, and the constructor fills the ids field from a function that allocates a new table (together with C06-S: nothing caches it); (H) every block parser whose Open can return a heading has a Close in which, under the auto-id flag, every path either puts an existing id into the table or generates one and stores it as the attribute named id. Not decided: that the renderer prints the attribute (C03 covers how), uniqueness against explicit {#id} attributes given later in the document (excluded by the statement), the slug's content.",
		Trusted: []string{"Go map semantics", "fmt.Sprintf with a constant format"},
		Assumes: []string{"a caller-supplied IDs implementation or Context is out of scope"},
		Rules:   []func(*World, *Report){ruleIDGenerator, ruleTablePerDocument, ruleHeadingsServed, ruleConstructorsApplyOptions},
	})
}

// normKey strips pure conversions: []byte<->string converts and the module's read-only conversion helpers.
func (w *World) normKey(v ssa.Value) ssa.Value {
	for depth := 0; depth < 10; depth++ {
		switch x := v.(type) {
		case *ssa.Convert:
			v = x.X
			continue
		case *ssa.ChangeType:
			v = x.X
			continue
		case *ssa.Call:
			cal := x.Common().StaticCallee()
			if cal != nil && w.InModule(cal) && len(x.Common().Args) == 1 && isPureConversion(cal) {
				v = x.Common().Args[0]
				continue
			}
		}
		break
	}
	return v
}

// isPureConversion: a module function string<->[]byte whose body only reinterprets its argument
// (the unsafe helpers) or converts it.
func isPureConversion(fn *ssa.Function) bool {
	sig := fn.Signature
	if sig.Params().Len() != 1 || sig.Results().Len() != 1 {
		return false
	}
	p, r := sig.Params().At(0).Type(), sig.Results().At(0).Type()
	if !((isString(p) && isByteSlice(r)) || (isByteSlice(p) && isString(r))) {
		return false
	}
	// no calls into the module other than unsafe builtins; small body
	n := 0
	for _, b := range fn.Blocks {
		n += len(b.Instrs)
	}
	return n <= 12
}

func mapFieldOfRecv(v ssa.Value, recv *ssa.Parameter) (int, bool) {
	u, ok := v.(*ssa.UnOp)
	if !ok || u.Op != token.MUL {
		return 0, false
	}
	fa, ok := u.X.(*ssa.FieldAddr)
	if !ok || fa.X != ssa.Value(recv) {
		return 0, false
	}
	return fa.Field, true
}

// edgeFactsTo: facts holding when control goes from pred to blk.
func edgeFactsTo(pred, blk *ssa.BasicBlock) []CondFact {
	out := dominatingConds(pred)
	if iff, ok := pred.Instrs[len(pred.Instrs)-1].(*ssa.If); ok && len(pred.Succs) == 2 && pred.Succs[0] != pred.Succs[1] {
		if pred.Succs[0] == blk {
			out = append(out, CondFact{If: iff, Truth: true})
		} else if pred.Succs[1] == blk {
			out = append(out, CondFact{If: iff, Truth: false})
		}
	}
	return out
}

// factImpliesNonEmpty: the fact says len(v) != 0 / len(v) > 0 / !(len(v) == 0).
func factImpliesNonEmpty(cf CondFact, v ssa.Value) bool {
	for _, a := range condAtoms(cf.If.Cond, cf.Truth) {
		b, ok := a.V.(*ssa.BinOp)
		if !ok {
			continue
		}
		isLen := func(x ssa.Value) bool {
			c, ok := stripConv(x).(*ssa.Call)
			return ok && builtinName(c.Common()) == "len" && c.Common().Args[0] == v
		}
		x, y := b.X, b.Y
		if cy, ok := constInt(y); ok && isLen(x) {
			if (b.Op == token.EQL && cy == 0 && !a.Truth) || (b.Op == token.NEQ && cy == 0 && a.Truth) || (b.Op == token.GTR && cy >= 0 && a.Truth) || (b.Op == token.GEQ && cy >= 1 && a.Truth) || (b.Op == token.LEQ && cy == 0 && !a.Truth) || (b.Op == token.LSS && cy <= 1 && cy >= 1 && !a.Truth) {
				return true
			}
		}
		if cx, ok := constInt(x); ok && isLen(y) {
			if (b.Op == token.EQL && cx == 0 && !a.Truth) || (b.Op == token.NEQ && cx == 0 && a.Truth) || (b.Op == token.LSS && cx >= 0 && a.Truth) || (b.Op == token.LEQ && cx >= 1 && a.Truth) {
				return true
			}
		}
	}
	return false
}

func nonEmptyConstBytes(v ssa.Value) bool {
	switch x := v.(type) {
	case *ssa.Convert:
		// []byte(s) for s a non-empty constant, or a choice among non-empty constants
		leaves := phiLeaves(x.X)
		if len(leaves) == 0 {
			return false
		}
		for _, l := range leaves {
			if s, ok := constString(l); !ok || len(s) == 0 {
				return false
			}
		}
		return true
	case *ssa.Const:
		if s, ok := constString(x); ok {
			return len(s) > 0
		}
	}
	return false
}

// nonEmptyValue: v cannot be empty where it is used in block `at`.
func (w *World) nonEmptyValue(v ssa.Value, at *ssa.BasicBlock, seen map[ssa.Value]bool) (bool, string) {
	if seen[v] {
		return true, ""
	}
	seen[v] = true
	if nonEmptyConstBytes(v) {
		return true, ""
	}
	// a fact on the path to `at`
	for _, cf := range dominatingConds(at) {
		if factImpliesNonEmpty(cf, v) {
			return true, ""
		}
	}
	switch x := v.(type) {
	case *ssa.Convert:
		return w.nonEmptyValue(x.X, at, seen)
	case *ssa.Call:
		if cal := x.Common().StaticCallee(); cal != nil && cal.String() == "fmt.Sprintf" {
			if f, ok := constString(x.Common().Args[0]); ok {
				lit := f
				for _, verb := range []string{"%s", "%d", "%v", "%q", "%x"} {
					lit = strings.ReplaceAll(lit, verb, "")
				}
				if len(lit) > 0 && !strings.Contains(lit, "%") {
					return true, ""
				}
			}
			return false, "formatted string without a constant non-empty part"
		}
	case *ssa.Phi:
		blk := x.Block()
		for i, e := range x.Edges {
			pred := blk.Preds[i]
			if nonEmptyConstBytes(e) {
				continue
			}
			ok := false
			for _, cf := range edgeFactsTo(pred, blk) {
				if factImpliesNonEmpty(cf, e) {
					ok = true
				}
			}
			if !ok {
				return false, fmt.Sprintf("the value arriving from block %d (%s) is not known to be non-empty", pred.Index, pred.Comment)
			}
		}
		return true, ""
	}
	return false, "no emptiness test or non-empty constant on the way to the return"
}

func ruleIDGenerator(w *World, r *Report) {
	r.Rule("C15-G", "For the module's implementation of parser.IDs: every Return of Generate returns a value r such that (i) a map update table[k] = … with k == r modulo pure conversions, on the table loaded from a field of the receiver, is in the return's block or dominates it; (ii) that update is dominated by the miss edge (ok == false) of a comma-ok lookup table[k'] with k' == k modulo pure conversions, in the same table; (iii) r cannot be empty (non-empty constant, len test, or a format with a constant non-empty part). Put stores its argument (modulo conversions) into the same table.")
	it := w.Iface("parser", "IDs")
	n := 0
	for _, t := range w.Implementers(it) {
		gen := w.MethodOf(t, "Generate")
		put := w.MethodOf(t, "Put")
		if gen == nil || put == nil || gen.Blocks == nil {
			continue
		}
		n++
		recv := gen.Params[0]
		type upd struct {
			ins   *ssa.MapUpdate
			field int
			key   ssa.Value
		}
		var updates []upd
		type look struct {
			ins   *ssa.Lookup
			field int
			key   ssa.Value
		}
		var lookups []look
		for _, b := range gen.Blocks {
			for _, ins := range b.Instrs {
				switch x := ins.(type) {
				case *ssa.MapUpdate:
					if f, ok := mapFieldOfRecv(x.Map, recv); ok {
						updates = append(updates, upd{x, f, w.normKey(x.Key)})
					}
				case *ssa.Lookup:
					if f, ok := mapFieldOfRecv(x.X, recv); ok && x.CommaOk {
						lookups = append(lookups, look{x, f, w.normKey(x.Index)})
					}
				}
			}
		}
		nRet := 0
		tableField := -1
		// table helpers of the same type: insertsKey(m) — m records its key parameter in the receiver's table on every
		// path; reservesKey(m) — m returns true only after a lookup miss of its key parameter and after recording it
		sameType := func(m *ssa.Function) bool {
			return m != nil && m.Blocks != nil && m.Signature.Recv() != nil && len(m.Params) == 2 && namedOf(m.Signature.Recv().Type()) != nil && namedOf(m.Signature.Recv().Type()).Obj() == t.Obj()
		}
		var insertsKey func(m *ssa.Function, depth int) (int, bool)
		insertsKey = func(m *ssa.Function, depth int) (int, bool) {
			if !sameType(m) || depth > 2 {
				return -1, false
			}
			for _, b := range m.Blocks {
				for _, ins := range b.Instrs {
					field, hit := -1, false
					switch x := ins.(type) {
					case *ssa.MapUpdate:
						if f, ok := mapFieldOfRecv(x.Map, m.Params[0]); ok && w.normKey(x.Key) == ssa.Value(m.Params[1]) {
							field, hit = f, true
						}
					case *ssa.Call:
						if cal := x.Common().StaticCallee(); cal != nil && len(x.Common().Args) == 2 && x.Common().Args[0] == ssa.Value(m.Params[0]) && w.normKey(x.Common().Args[1]) == ssa.Value(m.Params[1]) {
							if f, ok := insertsKey(cal, depth+1); ok {
								field, hit = f, true
							}
						}
					}
					if !hit {
						continue
					}
					all := true
					for _, rb := range m.Blocks {
						if _, isRet := rb.Instrs[len(rb.Instrs)-1].(*ssa.Return); isRet && !(b == rb || b.Dominates(rb)) {
							all = false
						}
					}
					if all {
						return field, true
					}
				}
			}
			return -1, false
		}
		reservesKey := func(m *ssa.Function) (int, bool) {
			if !sameType(m) || m.Signature.Results().Len() != 1 || !isBool(m.Signature.Results().At(0).Type()) {
				return -1, false
			}
			field := -1
			sawTrue := false
			for _, b := range m.Blocks {
				rt, ok := b.Instrs[len(b.Instrs)-1].(*ssa.Return)
				if !ok {
					continue
				}
				for _, leaf := range phiLeaves(rt.Results[0]) {
					v, isC := constBool(leaf)
					if !isC {
						return -1, false
					}
					if !v {
						continue
					}
					sawTrue = true
					// a lookup miss of the key parameter dominates this return …
					miss := false
					for _, cf := range dominatingConds(b) {
						for _, a := range condAtoms(cf.If.Cond, cf.Truth) {
							ex, isEx := a.V.(*ssa.Extract)
							if !isEx || ex.Index != 1 || a.Truth {
								continue
							}
							if lk, isLk := ex.Tuple.(*ssa.Lookup); isLk {
								if f, ok := mapFieldOfRecv(lk.X, m.Params[0]); ok && w.normKey(lk.Index) == ssa.Value(m.Params[1]) {
									miss, field = true, f
								}
							}
						}
					}
					// … and so does the recording of the key
					rec := false
					for _, ib := range m.Blocks {
						if !(ib == b || ib.Dominates(b)) {
							continue
						}
						for _, ins := range ib.Instrs {
							switch x := ins.(type) {
							case *ssa.MapUpdate:
								if f, ok := mapFieldOfRecv(x.Map, m.Params[0]); ok && f == field && w.normKey(x.Key) == ssa.Value(m.Params[1]) {
									rec = true
								}
							case *ssa.Call:
								if cal := x.Common().StaticCallee(); cal != nil && len(x.Common().Args) == 2 && x.Common().Args[0] == ssa.Value(m.Params[0]) && w.normKey(x.Common().Args[1]) == ssa.Value(m.Params[1]) {
									if f, ok := insertsKey(cal, 0); ok && f == field {
										rec = true
									}
								}
							}
						}
					}
					if !miss || !rec {
						return -1, false
					}
				}
			}
			return field, sawTrue
		}
		for _, b := range gen.Blocks {
			rt, ok := b.Instrs[len(b.Instrs)-1].(*ssa.Return)
			if !ok || len(rt.Results) != 1 {
				continue
			}
			nRet++
			key := fmt.Sprintf("%s: return #%d", w.FnKey(gen), nRet)
			rv := w.normKey(rt.Results[0])
			// (i)+(ii) through a reserving helper: the return is dominated by the true edge of reserve(key(r))
			reserved := false
			for _, cf := range dominatingConds(b) {
				if !cf.Truth {
					continue
				}
				if rc, isCall := cf.If.Cond.(*ssa.Call); isCall {
					if cal := rc.Common().StaticCallee(); cal != nil && len(rc.Common().Args) == 2 && rc.Common().Args[0] == ssa.Value(recv) && w.normKey(rc.Common().Args[1]) == rv {
						if f, ok := reservesKey(cal); ok {
							reserved = true
							tableField = f
						}
					}
				}
			}
			if reserved {
				r.OK(key+" is inserted", w.InstrPos(rt), "returned under the true edge of a helper that records its key after a lookup miss")
				r.OK(key+" is new", w.InstrPos(rt), "the helper answers true only on a lookup miss of that key")
				if ok, why := w.nonEmptyValue(rt.Results[0], b, map[ssa.Value]bool{}); ok {
					r.OK(key+" is non-empty", w.InstrPos(rt), "cannot be empty")
				} else {
					r.Bad(key+" is non-empty", w.InstrPos(rt), "the returned id can be empty: "+why)
				}
				continue
			}
			// (i)
			var ins *upd
			for i := range updates {
				u := &updates[i]
				if u.key == rv && (u.ins.Block() == b || u.ins.Block().Dominates(b)) {
					ins = u
				}
			}
			if ins == nil {
				r.Bad(key+" is inserted", w.InstrPos(rt), "the returned id is not recorded in the receiver's table on the way to this return: a later call can return the same id again")
				continue
			}
			r.OK(key+" is inserted", w.InstrPos(ins.ins), "table[key] is updated with the returned value as key")
			tableField = ins.field
			// (ii)
			isNew := false
			for _, lk := range lookups {
				if lk.field != ins.field || lk.key != ins.key {
					continue
				}
				// the ok flag
				for _, ref := range referrersOf(lk.ins) {
					ex, isEx := ref.(*ssa.Extract)
					if !isEx || ex.Index != 1 {
						continue
					}
					for _, cf := range dominatingConds(ins.ins.Block()) {
						for _, a := range condAtoms(cf.If.Cond, cf.Truth) {
							if a.V == ssa.Value(ex) && !a.Truth {
								isNew = true
							}
						}
					}
				}
			}
			if isNew {
				r.OK(key+" is new", w.InstrPos(ins.ins), "the insertion is dominated by the miss edge of a lookup of the same key in the same table")
			} else {
				r.Bad(key+" is new", w.InstrPos(rt), "the returned id is inserted without a dominating lookup miss of that same key: an id already in the table (put earlier, generated earlier, or equal to another heading's literal slug) can be returned again")
			}
			// (iii)
			if ok, why := w.nonEmptyValue(rt.Results[0], b, map[ssa.Value]bool{}); ok {
				r.OK(key+" is non-empty", w.InstrPos(rt), "cannot be empty")
			} else {
				r.Bad(key+" is non-empty", w.InstrPos(rt), "the returned id can be empty: "+why)
			}
		}
		r.Expect("returns of "+w.FnKey(gen), nRet, 1)
		// Put
		precv := put.Params[0]
		okPut := false
		for _, b := range put.Blocks {
			for _, ins := range b.Instrs {
				if mu, ok := ins.(*ssa.MapUpdate); ok {
					if f, ok := mapFieldOfRecv(mu.Map, precv); ok && (tableField < 0 || f == tableField) && w.normKey(mu.Key) == ssa.Value(put.Params[1]) {
						// unconditional, or conditional only on "this key is not in this table yet"
						cond := true
						for _, cf := range dominatingConds(b) {
							okFact := false
							for _, a := range condAtoms(cf.If.Cond, cf.Truth) {
								ex, isEx := a.V.(*ssa.Extract)
								if !isEx || ex.Index != 1 || a.Truth {
									continue
								}
								if lk, isLk := ex.Tuple.(*ssa.Lookup); isLk {
									if f2, ok := mapFieldOfRecv(lk.X, precv); ok && f2 == f && w.normKey(lk.Index) == ssa.Value(put.Params[1]) {
										okFact = true
									}
								}
							}
							if !okFact {
								cond = false
							}
						}
						if cond {
							okPut = true
						}
					}
				}
			}
		}
		// or through a recording helper called on every path
		for _, b := range put.Blocks {
			for _, ins := range b.Instrs {
				if c, ok := ins.(*ssa.Call); ok {
					if cal := c.Common().StaticCallee(); cal != nil && len(c.Common().Args) == 2 && c.Common().Args[0] == ssa.Value(precv) && w.normKey(c.Common().Args[1]) == ssa.Value(put.Params[1]) {
						if f, ok := insertsKey(cal, 0); ok && (tableField < 0 || f == tableField) {
							all := true
							for _, rb := range put.Blocks {
								if _, isRet := rb.Instrs[len(rb.Instrs)-1].(*ssa.Return); isRet && !(b == rb || b.Dominates(rb)) {
									all = false
								}
							}
							if all {
								okPut = true
							}
						}
					}
				}
			}
		}
		if okPut {
			r.OK(w.FnKey(put)+" records its argument", w.FnPos(put), "table[value] is updated (unconditionally, or unless already present) in the same table")
		} else {
			r.Bad(w.FnKey(put)+" records its argument", w.FnPos(put), "Put does not unconditionally insert its argument into the table Generate consults: an explicit id can be generated again")
		}
	}
	r.Expect("implementations of parser.IDs", n, 1)
}

// ---- C15-T ---------------------------------------------------------------------------------------

// returnsFreshObject: every return of fn is a newly allocated object (possibly converted to an interface).
func returnsFreshObject(fn *ssa.Function) bool {
	if fn == nil || fn.Blocks == nil {
		return false
	}
	found := false
	for _, b := range fn.Blocks {
		rt, ok := b.Instrs[len(b.Instrs)-1].(*ssa.Return)
		if !ok {
			continue
		}
		if len(rt.Results) != 1 {
			return false
		}
		v := stripIfaceConv(rt.Results[0])
		al, ok := v.(*ssa.Alloc)
		if !ok || !al.Heap {
			return false
		}
		found = true
	}
	return found
}

func ruleTablePerDocument(w *World, r *Report) {
	r.Rule("C15-T", "In every Parse entry point the context, when the caller's option left it nil, is the result of a call made in that activation to a module constructor; in that constructor the field of interface type parser.IDs of the returned context is filled from a local configuration whose IDs field is first set to the result of a function that returns a newly allocated object on every return (a new table per context, hence per document).")
	idsT := w.Named("parser", "IDs")
	ctxT := w.Named("parser", "Context")
	if idsT == nil || ctxT == nil {
		r.Unknown("parser.IDs / parser.Context", "", "not found")
		return
	}
	nParse := 0
	for _, entry := range w.Entries().Parse {
		nParse++
		// the function that supplies the context: Parse itself, or a helper of the same package it calls (the option
		// handling extracted into a function) — the first one that contains a Context-returning constructor call
		pf := entry
		{
			hasCtor := func(fn *ssa.Function) bool {
				for _, b := range fn.Blocks {
					for _, ins := range b.Instrs {
						if c, ok := ins.(*ssa.Call); ok {
							if cal := c.Common().StaticCallee(); cal != nil && w.InModule(cal) && types.Identical(c.Type(), ctxT) {
								for _, cf := range dominatingConds(b) {
									for _, a := range condAtoms(cf.If.Cond, cf.Truth) {
										if x, isNil, ok := nilTest(a.V); ok && isNil == a.Truth && types.Identical(x.Type(), ctxT) {
											return true
										}
									}
								}
							}
						}
					}
				}
				return false
			}
			if !hasCtor(entry) {
				seenH := map[*ssa.Function]bool{entry: true}
				work := []*ssa.Function{entry}
				for depth := 0; depth < 2 && pf == entry; depth++ {
					var next []*ssa.Function
					for _, f := range work {
						for _, b := range f.Blocks {
							for _, ins := range b.Instrs {
								if c, ok := ins.(ssa.CallInstruction); ok {
									if cal := c.Common().StaticCallee(); cal != nil && w.InModule(cal) && cal.Pkg == entry.Pkg && !seenH[cal] && cal.Blocks != nil {
										seenH[cal] = true
										next = append(next, cal)
										if pf == entry && hasCtor(cal) && cal.Signature.Results().Len() >= 1 && types.Identical(cal.Signature.Results().At(0).Type(), ctxT) {
											pf = cal
										}
									}
								}
							}
						}
					}
					work = next
				}
			}
		}
		key := w.FnKey(entry) + ": default context"
		// a call returning parser.Context, under the true edge of a nil test
		var ctor *ssa.Function
		var site *ssa.Call
		for _, b := range pf.Blocks {
			for _, ins := range b.Instrs {
				c, ok := ins.(*ssa.Call)
				if !ok {
					continue
				}
				cal := c.Common().StaticCallee()
				if cal == nil || !w.InModule(cal) || !types.Identical(c.Type(), ctxT) {
					continue
				}
				underNil := false
				for _, cf := range dominatingConds(b) {
					for _, a := range condAtoms(cf.If.Cond, cf.Truth) {
						if x, isNil, ok := nilTest(a.V); ok && isNil == a.Truth && types.Identical(x.Type(), ctxT) {
							underNil = true
						}
					}
				}
				if underNil {
					ctor, site = cal, c
				}
			}
		}
		if ctor == nil {
			r.Bad(key, w.FnPos(pf), "Parse does not create a context through a constructor call when none was given (a pooled, cached or shared context would carry the id table from one document to the next)")
			continue
		}
		// every value Parse itself puts into a Context-typed field is such a constructor result
		foreign := ""
		for _, b := range pf.Blocks {
			for _, ins := range b.Instrs {
				st, ok := ins.(*ssa.Store)
				if !ok || !types.Identical(st.Val.Type(), ctxT) {
					continue
				}
				if _, isField := st.Addr.(*ssa.FieldAddr); !isField {
					continue
				}
				for _, leaf := range phiLeaves(st.Val) {
					c, isCall := leaf.(*ssa.Call)
					if !isCall || c.Common().StaticCallee() == nil || !w.InModule(c.Common().StaticCallee()) {
						foreign = w.InstrPos(st)
					}
				}
			}
		}
		if foreign != "" {
			r.Bad(key, foreign, "Parse installs a context that is not the result of a constructor call made in this activation (recycled from a pool or cache): whatever the reset forgets — the table of used ids — is carried from one document to the next")
			continue
		}
		r.OK(key, w.InstrPos(site), "created by "+w.FnKey(ctor)+" under the nil test")
		// the constructor
		ckey := w.FnKey(ctor) + ": fresh id table"
		okTable := false
		why := "no store into an IDs-typed field of the returned context found"
		for _, b := range ctor.Blocks {
			for _, ins := range b.Instrs {
				st, ok := ins.(*ssa.Store)
				if !ok || !types.Identical(st.Val.Type(), idsT) {
					continue
				}
				fa, ok := st.Addr.(*ssa.FieldAddr)
				if !ok {
					continue
				}
				if al, ok := fa.X.(*ssa.Alloc); !ok || !al.Heap {
					continue
				}
				// value: load of cfg.IDs where cfg is a local object; find the first store into that field
				ld, ok := st.Val.(*ssa.UnOp)
				if !ok {
					if c, ok := st.Val.(*ssa.Call); ok && returnsFreshObject(c.Common().StaticCallee()) {
						okTable = true
					}
					continue
				}
				cfa, ok := ld.X.(*ssa.FieldAddr)
				if !ok {
					continue
				}
				for _, ref := range referrersOf(cfa.X) {
					fa2, ok := ref.(*ssa.FieldAddr)
					if !ok || fa2.Field != cfa.Field {
						continue
					}
					for _, ref2 := range referrersOf(fa2) {
						st2, ok := ref2.(*ssa.Store)
						if !ok || st2.Addr != ssa.Value(fa2) {
							continue
						}
						c, isCall := st2.Val.(*ssa.Call)
						if isCall && returnsFreshObject(c.Common().StaticCallee()) && st2.Block() == ctor.Blocks[0] {
							okTable = true
						} else {
							why = "the default IDs value is not the result of a function returning a newly allocated table"
						}
					}
				}
			}
		}
		if okTable {
			r.OK(ckey, w.FnPos(ctor), "the ids field defaults to a newly allocated table")
		} else {
			r.Bad(ckey, w.FnPos(ctor), why)
		}
	}
	r.Expect("Parse entry points", nParse, 1)
}

// ---- C15-H ---------------------------------------------------------------------------------------

func ruleHeadingsServed(w *World, r *Report) {
	r.Rule("C15-H", "For every BlockParser whose Open can return an *ast.Heading: its Close reads a bool option field under whose true edge an id is served; on every path from that edge to a return, either IDs.Put is invoked, or IDs.Generate is invoked (directly or in a module helper on all its paths) and its result is stored as the attribute whose constant name is \"id\".")
	bp := w.Iface("parser", "BlockParser")
	heading := w.Named("ast", "Heading")
	if bp == nil || heading == nil {
		r.Unknown("parser.BlockParser / ast.Heading", "", "not found")
		return
	}
	// helpers that generate and store on all paths
	servesAll := map[*ssa.Function]bool{}
	isGenerate := func(c ssa.CallInstruction) bool {
		com := c.Common()
		return com.IsInvoke() && com.Method.Name() == "Generate" && namedOf(com.Value.Type()) != nil && namedOf(com.Value.Type()).Obj().Name() == "IDs"
	}
	isPut := func(c ssa.CallInstruction) bool {
		com := c.Common()
		return com.IsInvoke() && com.Method.Name() == "Put" && namedOf(com.Value.Type()) != nil && namedOf(com.Value.Type()).Obj().Name() == "IDs"
	}
	storesAsID := func(fn *ssa.Function, gen ssa.Value) bool {
		for _, ref := range referrersOf(gen) {
			var c ssa.CallInstruction
			switch x := ref.(type) {
			case *ssa.MakeInterface:
				for _, r2 := range referrersOf(x) {
					if cc, ok := r2.(ssa.CallInstruction); ok {
						c = cc
					}
				}
			case ssa.CallInstruction:
				c = x
			}
			if c == nil {
				continue
			}
			com := c.Common()
			name := ""
			if com.IsInvoke() {
				name = com.Method.Name()
			} else if cal := com.StaticCallee(); cal != nil {
				name = cal.Name()
			}
			if name != "SetAttribute" && name != "SetAttributeString" {
				continue
			}
			for _, a := range com.Args {
				if s, ok := w.constBytes(a); ok && s == "id" {
					return true
				}
				if s, ok := constString(a); ok && s == "id" {
					return true
				}
			}
		}
		return false
	}
	for _, fn := range w.Funcs {
		// all-paths: a Generate call whose result is stored as id, in a block that dominates every return
		for _, b := range fn.Blocks {
			for _, ins := range b.Instrs {
				c, ok := ins.(*ssa.Call)
				if !ok || !isGenerate(c) || !storesAsID(fn, c) {
					continue
				}
				all := true
				for _, rb := range fn.Blocks {
					if _, ok := rb.Instrs[len(rb.Instrs)-1].(*ssa.Return); ok && !(b == rb || b.Dominates(rb)) {
						all = false
					}
				}
				if all {
					servesAll[fn] = true
				}
			}
		}
	}
	// helpers in which every path to a return passes a serving step (Put, Generate stored as id, or another such helper):
	// "reserve the explicit id or generate one" extracted into a function
	for round := 0; round < 3; round++ {
		for _, fn := range w.Funcs {
			if servesAll[fn] || w.PkgOf(fn) != modPath+"/parser" || fn.Blocks == nil {
				continue
			}
			servesIns := func(ins ssa.Instruction) bool {
				c, ok := ins.(ssa.CallInstruction)
				if !ok {
					return false
				}
				if isPut(c) {
					// reserving counts only for an id that was found on the node (an explicit attribute), not for a
					// value the helper makes up itself
					fromAttr := false
					operandsClosure(c.Common().Args[0], func(v ssa.Value) bool {
						if ac, ok := v.(*ssa.Call); ok {
							if _, _, ok := methodCallOn(ac, "AttributeString"); ok {
								fromAttr = true
							}
							if _, _, ok := methodCallOn(ac, "Attribute"); ok {
								fromAttr = true
							}
						}
						return !fromAttr
					})
					return fromAttr
				}
				if cc, ok := ins.(*ssa.Call); ok && isGenerate(c) && storesAsID(fn, cc) {
					return true
				}
				if cal := c.Common().StaticCallee(); cal != nil && servesAll[cal] {
					return true
				}
				return false
			}
			any := false
			leak := false
			seen := map[*ssa.BasicBlock]bool{}
			var dfs func(b *ssa.BasicBlock)
			dfs = func(b *ssa.BasicBlock) {
				if leak || seen[b] {
					return
				}
				seen[b] = true
				for _, ins := range b.Instrs {
					if servesIns(ins) {
						any = true
						return
					}
					if _, isRet := ins.(*ssa.Return); isRet {
						leak = true
						return
					}
				}
				for _, sx := range b.Succs {
					dfs(sx)
				}
			}
			dfs(fn.Blocks[0])
			if any && !leak {
				servesAll[fn] = true
			}
		}
	}
	n := 0
	for _, t := range w.Implementers(bp) {
		open := w.MethodOf(t, "Open")
		cl := w.MethodOf(t, "Close")
		if open == nil || cl == nil || !w.InModule(open) || open.Blocks == nil {
			continue
		}
		returnsHeading := false
		for _, b := range open.Blocks {
			if rt, ok := b.Instrs[len(b.Instrs)-1].(*ssa.Return); ok && len(rt.Results) > 0 {
				for _, leaf := range phiLeaves(rt.Results[0]) {
					if nt := namedOf(stripIfaceConv(leaf).Type()); nt != nil && nt.Obj() == heading.Obj() {
						returnsHeading = true
					}
				}
			}
		}
		if !returnsHeading {
			continue
		}
		n++
		key := w.FnKey(cl)
		serves := func(ins ssa.Instruction) bool {
			c, ok := ins.(ssa.CallInstruction)
			if !ok {
				return false
			}
			if isPut(c) {
				return true
			}
			if cc, ok := ins.(*ssa.Call); ok && isGenerate(c) && storesAsID(cl, cc) {
				return true
			}
			if cal := c.Common().StaticCallee(); cal != nil && servesAll[cal] {
				return true
			}
			return false
		}
		// candidate flags: bool receiver fields tested in Close whose true region contains a serving call
		found := false
		for _, b := range cl.Blocks {
			iff, ok := b.Instrs[len(b.Instrs)-1].(*ssa.If)
			if !ok {
				continue
			}
			ld, ok := iff.Cond.(*ssa.UnOp)
			if !ok || ld.Op != token.MUL || !isBool(ld.Type()) {
				continue
			}
			if _, ok := ld.X.(*ssa.FieldAddr); !ok {
				continue
			}
			// region under the true edge
			start := b.Succs[0]
			region := map[*ssa.BasicBlock]bool{}
			stack := []*ssa.BasicBlock{start}
			hasServe := false
			for len(stack) > 0 {
				x := stack[len(stack)-1]
				stack = stack[:len(stack)-1]
				if region[x] || !edgeDominates(b, 0, x) {
					continue
				}
				region[x] = true
				for _, ins := range x.Instrs {
					if serves(ins) {
						hasServe = true
					}
				}
				stack = append(stack, x.Succs...)
			}
			if !hasServe {
				continue
			}
			found = true
			_, fv := fieldOfAddr(ld.X.(*ssa.FieldAddr))
			fname := "?"
			if fv != nil {
				fname = fv.Name()
			}
			// must-serve dataflow from `start`
			served := map[*ssa.BasicBlock]bool{}
			// in-state: true = served on all paths reaching block start (from the flag edge)
			inS := map[*ssa.BasicBlock]int{} // 0 unvisited, 1 served, 2 not served
			var visit func(x *ssa.BasicBlock, s bool)
			badRet := ""
			visit = func(x *ssa.BasicBlock, s bool) {
				st := 2
				if s {
					st = 1
				}
				if inS[x] == 2 || (inS[x] == 1 && st == 1) {
					return
				}
				inS[x] = st
				cur := s
				for _, ins := range x.Instrs {
					if serves(ins) {
						cur = true
					}
					if _, ok := ins.(*ssa.Return); ok && !cur && badRet == "" {
						badRet = w.InstrPos(ins)
					}
				}
				for _, su := range x.Succs {
					visit(su, cur)
				}
			}
			_ = served
			visit(start, false)
			okey := fmt.Sprintf("%s under option %s", key, fname)
			if badRet == "" {
				r.OK(okey, w.InstrPos(iff), "every path from the option's true edge to a return puts an existing id or generates and stores one")
			} else {
				r.Bad(okey, badRet, "with the option on, a path reaches this return without putting an existing id into the table and without generating and storing one: that heading has no id (or its explicit id is not reserved)")
			}
		}
		if !found {
			r.Bad(key, w.FnPos(cl), "the Close of a heading parser has no option-guarded region that serves an id")
		}
	}
	r.Expect("block parsers that open headings", n, 1)
}
