package main

// rules_c08_more.go — further structural clauses of C08:
//
//	C08-B a block parser without trigger characters never opens a block on a blank line
//	C08-M the block-quote marker parser consumes the marker and exactly one optional following space

import (
	"fmt"
	"go/token"

	"golang.org/x/tools/go/ssa"
)

func callName(c ssa.CallInstruction) string {
	com := c.Common()
	if com.IsInvoke() {
		return com.Method.Name()
	}
	if cal := com.StaticCallee(); cal != nil {
		return cal.Name()
	}
	return ""
}

func ruleFreeParsersRejectBlankLines(w *World, r *Report) {
	r.Rule("C08-B", "A block parser whose Trigger() is nil is tried on every line, also on a line that is blank after its container markers (at top level the parser loop skips blank lines first, inside a block quote '> ' followed by spaces is such a line). In every such parser's Open, each return of a node is dominated by the false edge of a blank test on the peeked line or its segment (util.IsBlank(line), Segment.IsEmpty() after trimming). Otherwise a whitespace-only line inside a container opens an (empty) block there while the same line at top level does not: the quoted document is no longer the quote of the document.")
	it := w.Iface("parser", "BlockParser")
	n := 0
	for _, t := range w.Implementers(it) {
		trig := w.MethodOf(t, "Trigger")
		open := w.MethodOf(t, "Open")
		if trig == nil || open == nil || !w.InModule(open) {
			continue
		}
		free := false
		for _, b := range trig.Blocks {
			if ret, ok := b.Instrs[len(b.Instrs)-1].(*ssa.Return); ok && len(ret.Results) == 1 && isNilConst(ret.Results[0]) {
				free = true
			}
		}
		if !free {
			continue
		}
		n++
		key := typeShort(t) + ": Open rejects blank lines"
		bad := ""
		nRet := 0
		for _, b := range open.Blocks {
			ret, ok := b.Instrs[len(b.Instrs)-1].(*ssa.Return)
			if !ok || len(ret.Results) == 0 {
				continue
			}
			allNil := true
			for _, leaf := range phiLeaves(ret.Results[0]) {
				if !isNilConst(leaf) {
					allNil = false
				}
			}
			if allNil {
				continue
			}
			nRet++
			guarded := false
			for _, cf := range dominatingConds(b) {
				for _, a := range condAtoms(cf.If.Cond, cf.Truth) {
					c, ok := a.V.(*ssa.Call)
					if !ok || a.Truth {
						continue
					}
					switch callName(c) {
					case "IsBlank", "IsEmpty":
						guarded = true
					}
				}
			}
			if !guarded {
				bad = w.InstrPos(ret)
			}
		}
		switch {
		case nRet == 0:
			r.Unknown(key, w.FnPos(open), "Open never returns a node")
		case bad != "":
			r.Bad(key, bad, "a node is returned on a path that has not established that the line is non-blank: a whitespace-only line inside a container opens a block")
		default:
			r.OK(key, w.FnPos(open), fmt.Sprintf("%d node-returning return(s), each under IsBlank/IsEmpty == false", nRet))
		}
	}
	r.Expect("block parsers without trigger characters", n, 1)
}

// byteTestOn: cond is `s[i] == c` / `s[i] != c` for a constant c; returns (c, isEq).
func byteTestOn(v ssa.Value) (int64, bool, bool) {
	bo, ok := v.(*ssa.BinOp)
	if !ok || (bo.Op != token.EQL && bo.Op != token.NEQ) {
		return 0, false, false
	}
	isLoad := func(x ssa.Value) bool {
		u, ok := stripConv(x).(*ssa.UnOp)
		if !ok || u.Op != token.MUL {
			return false
		}
		_, ok = u.X.(*ssa.IndexAddr)
		return ok
	}
	if c, ok := constInt(bo.Y); ok && isLoad(bo.X) {
		return c, bo.Op == token.EQL, true
	}
	if c, ok := constInt(bo.X); ok && isLoad(bo.Y) {
		return c, bo.Op == token.EQL, true
	}
	return 0, false, false
}

func ruleQuoteMarkerAndOneSpace(w *World, r *Report) {
	r.Rule("C08-M", "The block quote parser (the BlockParser triggered by '>') consumes, on every path on which it accepts the line, the marker and exactly one optional following space or tab: in the function that moves the reader for it, every path to a `return true` contains an Advance past the marker and then either an advance by the constant 1 (Advance(1) / AdvanceAndSetPadding(1, _)), or branch facts showing that no space or tab follows the marker (end of line reached: index >= len(line) or the byte is '\\n'; or the byte tested unequal to both ' ' and '\\t'). A path that accepts the line with the optional space still in place hands every nested block a line shifted by one column: '> ' in front of a blank line of a code block leaves a stray space in the quoted rendering.")
	it := w.Iface("parser", "BlockParser")
	found := 0
	for _, t := range w.Implementers(it) {
		trig := w.MethodOf(t, "Trigger")
		if trig == nil {
			continue
		}
		isQuote := false
		for _, b := range trig.Blocks {
			if ret, ok := b.Instrs[len(b.Instrs)-1].(*ssa.Return); ok && len(ret.Results) == 1 {
				if lit, ok := byteLiteral(ret.Results[0]); ok && len(lit) == 1 && lit[0] == '>' {
					isQuote = true
				}
			}
		}
		if !isQuote {
			continue
		}
		// the bool-returning helper(s) of this type that advance a reader
		for _, m := range w.methodsOfType(t) {
			if m.Signature.Results().Len() != 1 || !isBool(m.Signature.Results().At(0).Type()) {
				continue
			}
			advances := false
			for _, b := range m.Blocks {
				for _, ins := range b.Instrs {
					if c, ok := ins.(ssa.CallInstruction); ok && (callName(c) == "Advance" || callName(c) == "AdvanceAndSetPadding") {
						advances = true
					}
				}
			}
			if !advances {
				continue
			}
			found++
			key := w.FnKey(m) + ": marker and one optional space"
			nTrue, nBad := 0, 0
			var badAt ssa.Instruction
			complete := EnumPaths(m.Blocks[0], map[string]bool{}, isReturnBlock, func(p Path) {
				last := p.Blocks[len(p.Blocks)-1]
				ret, ok := last.Instrs[len(last.Instrs)-1].(*ssa.Return)
				if !ok {
					return
				}
				rv := resolveAlong(ret.Results[0], p.Blocks)
				if bv, isC := constBool(rv); !isC || !bv {
					return
				}
				nTrue++
				advMarker, advOne := false, false
				notSpace, notTab, atEnd := false, false, false
				for i, b := range p.Blocks {
					for _, ins := range b.Instrs {
						c, ok := ins.(ssa.CallInstruction)
						if !ok {
							continue
						}
						switch callName(c) {
						case "Advance", "AdvanceAndSetPadding":
							args := c.Common().Args
							a0 := args[0]
							if !c.Common().IsInvoke() && len(args) > 1 {
								a0 = args[1]
							}
							if k, isC := constInt(a0); isC && k == 1 && advMarker {
								advOne = true
							} else {
								advMarker = true
							}
						}
					}
					if i >= len(p.Edges) {
						break
					}
					iff, ok := b.Instrs[len(b.Instrs)-1].(*ssa.If)
					if !ok {
						continue
					}
					for _, a := range condAtoms(iff.Cond, p.Edges[i] == 0) {
						if c, isEq, ok := byteTestOn(a.V); ok {
							eq := isEq == a.Truth
							switch {
							case c == '\n' && eq:
								atEnd = true
							case c == ' ' && !eq:
								notSpace = true
							case c == '\t' && !eq:
								notTab = true
							}
						}
						if bo, ok := a.V.(*ssa.BinOp); ok {
							// index >= len(line) after the marker
							if (bo.Op == token.GEQ && a.Truth) || (bo.Op == token.LSS && !a.Truth) {
								if lenOf(bo.Y) != nil {
									atEnd = true
								}
							}
						}
					}
				}
				if !advMarker || !(advOne || atEnd || (notSpace && notTab)) {
					nBad++
					badAt = ret
				}
			})
			switch {
			case !complete:
				r.Unknown(key, w.FnPos(m), "too many paths")
			case nTrue == 0:
				r.Unknown(key, w.FnPos(m), "no accepting path found")
			case nBad > 0:
				r.Bad(key, w.InstrPos(badAt), fmt.Sprintf("%d of %d accepting paths neither consume one space/tab after the marker nor establish that none follows", nBad, nTrue))
			default:
				r.OK(key, w.FnPos(m), fmt.Sprintf("%d accepting paths", nTrue))
			}
		}
	}
	r.Expect("reader-moving helpers of the block quote parser", found, 1)
}

// ---- C08-K one notion of "blank line" ------------------------------------------------------------------------

// ruleOneBlankNotion: the top-level loop skips blank lines through Reader.SkipBlankLines, while every blank test made
// inside a container goes through util.IsBlank on the rest of the line. The two must be the same predicate.
func ruleOneBlankNotion(w *World, r *Report) {
	r.Rule("C08-K", "In the implementation of Reader.SkipBlankLines (the reader types' methods and the package text helpers they call with the reader), every AdvanceLine on that reader is dominated by the true edge of util.IsBlank applied to the line just peeked from the same reader, and every 'found a non-blank line' return by its false edge: what is skipped as blank at top level is exactly what util.IsBlank calls blank inside a block quote or list item. A wider test there (Unicode spaces, NBSP) makes a line vanish at top level that is a paragraph once quoted.")
	isBlank := w.PkgFunc("util", "IsBlank")
	if isBlank == nil {
		r.Unknown("util.IsBlank", "", "function not found")
		return
	}
	var roots []*ssa.Function
	for _, t := range w.readerTypes() {
		if m := w.DeclaredMethod(t, "SkipBlankLines"); m != nil {
			roots = append(roots, m)
		}
	}
	seen := map[*ssa.Function]bool{}
	var work []*ssa.Function
	work = append(work, roots...)
	n := 0
	for len(work) > 0 {
		fn := work[len(work)-1]
		work = work[:len(work)-1]
		if seen[fn] || fn.Blocks == nil {
			continue
		}
		seen[fn] = true
		for _, b := range fn.Blocks {
			for _, ins := range b.Instrs {
				c, ok := ins.(ssa.CallInstruction)
				if !ok {
					continue
				}
				if cal := c.Common().StaticCallee(); cal != nil && w.InModule(cal) && cal.Pkg != nil && cal.Pkg.Pkg == w.TPkg("text") && cal != isBlank {
					// follow helpers that receive a reader
					for _, a := range c.Common().Args {
						if typeShort(a.Type()) == "text.Reader" || rootedInReader(w, a) {
							work = append(work, cal)
						}
					}
				}
				if callName(c) != "AdvanceLine" {
					continue
				}
				var rd ssa.Value
				if c.Common().IsInvoke() {
					rd = c.Common().Value
				} else if len(c.Common().Args) > 0 {
					rd = c.Common().Args[0]
				}
				n++
				key := fmt.Sprintf("%s: AdvanceLine only past a util.IsBlank line", w.FnKey(fn))
				ok2 := false
				for _, cf := range dominatingConds(b) {
					if cf.Truth && isBlankOfPeeked(cf.If.Cond, isBlank, rd) {
						ok2 = true
					}
				}
				if ok2 {
					r.OK(key, w.InstrPos(ins), "dominated by the true edge of util.IsBlank(line) for the line peeked from the same reader")
				} else {
					r.Bad(key, w.InstrPos(ins), "a line is skipped as blank on a path that is not decided by util.IsBlank alone: top-level blank-line skipping and the in-container blank test disagree for some line")
				}
			}
		}
	}
	r.Expect("AdvanceLine calls under SkipBlankLines", n, 1)
}

func rootedInReader(w *World, v ssa.Value) bool {
	n := namedOf(v.Type())
	if n == nil {
		return false
	}
	for _, t := range w.readerTypes() {
		if t.Obj() == n.Obj() {
			return true
		}
	}
	return false
}

// isBlankOfPeeked: cond is util.IsBlank(line) where line is the first result of PeekLine() on reader rd.
func isBlankOfPeeked(cond ssa.Value, isBlank *ssa.Function, rd ssa.Value) bool {
	c, ok := cond.(*ssa.Call)
	if !ok || c.Common().StaticCallee() != isBlank || len(c.Common().Args) != 1 {
		return false
	}
	ex, ok := c.Common().Args[0].(*ssa.Extract)
	if !ok || ex.Index != 0 {
		return false
	}
	pk, ok := ex.Tuple.(*ssa.Call)
	if !ok || callName(pk) != "PeekLine" {
		return false
	}
	var prd ssa.Value
	if pk.Common().IsInvoke() {
		prd = pk.Common().Value
	} else if len(pk.Common().Args) > 0 {
		prd = pk.Common().Args[0]
	}
	return prd != nil && rd != nil && sameValue(stripMakeIface(prd), stripMakeIface(rd))
}
