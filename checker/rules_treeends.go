package main

// rules_treeends.go — C13-R: unlinking a child moves the parent's end pointers.

import (
	"fmt"

	"golang.org/x/tools/go/ssa"
)

// clearsParentOf: the instruction is v.SetParent(nil), or hands v to a module function that calls SetParent(nil) on that
// parameter.
func (w *World) clearsParentOf(ins ssa.Instruction) ssa.Value {
	c, ok := ins.(*ssa.Call)
	if !ok {
		return nil
	}
	com := c.Common()
	if com.IsInvoke() {
		if com.Method.Name() == "SetParent" && len(com.Args) == 1 && isNilConst(com.Args[0]) {
			return com.Value
		}
		return nil
	}
	cal := com.StaticCallee()
	if cal == nil || !w.InModule(cal) || cal.Blocks == nil {
		return nil
	}
	for i, p := range cal.Params {
		if i >= len(com.Args) {
			break
		}
		for _, b := range cal.Blocks {
			for _, ci := range b.Instrs {
				if cc, ok := ci.(*ssa.Call); ok && cc.Common().IsInvoke() && cc.Common().Value == ssa.Value(p) && cc.Common().Method.Name() == "SetParent" && len(cc.Common().Args) == 1 && isNilConst(cc.Common().Args[0]) {
					return com.Args[i]
				}
			}
		}
	}
	return nil
}

func ruleEndsFollowRemoval(w *World, r *Report) {
	r.Rule("C13-R", "In every method of a node type in package ast that unlinks one child v of its receiver (it reads v.PreviousSibling() and v.NextSibling() and calls v.SetParent(nil)): on every path to a return on which the previous sibling was seen to be nil the receiver's firstChild is stored, and on every path on which the next sibling was seen to be nil the receiver's lastChild is stored (paths enumerated, nil tests followed through phis). Removing the only child otherwise leaves LastChild() pointing at a node that is no longer in the tree, and the next AppendChild links the new node behind the departed one.")
	n := 0
	for _, fn := range w.Funcs {
		if w.PkgOf(fn) != modPath+"/ast" || fn.Signature.Recv() == nil || len(fn.Params) < 2 {
			continue
		}
		recv := fn.Params[0]
		var prevV, nextV ssa.Value
		var victim ssa.Value
		clears := false
		for _, b := range fn.Blocks {
			for _, ins := range b.Instrs {
				if x := w.clearsParentOf(ins); x != nil {
					if _, isP := x.(*ssa.Parameter); isP {
						clears = true
					}
				}
				c, ok := ins.(*ssa.Call)
				if !ok || !c.Common().IsInvoke() {
					continue
				}
				if _, isP := c.Common().Value.(*ssa.Parameter); !isP {
					continue
				}
				switch c.Common().Method.Name() {
				case "PreviousSibling":
					prevV, victim = c, c.Common().Value
				case "NextSibling":
					nextV = c
				}
			}
		}
		if prevV == nil || nextV == nil || !clears || victim == nil {
			continue
		}
		n++
		key := w.FnKey(fn) + ": end pointers follow the removed child"
		bad := ""
		nPaths := 0
		complete := EnumPaths(fn.Blocks[0], map[string]bool{}, func(b *ssa.BasicBlock) bool {
			_, isRet := b.Instrs[len(b.Instrs)-1].(*ssa.Return)
			return isRet
		}, func(p Path) {
			last := p.Blocks[len(p.Blocks)-1]
			if _, isRet := last.Instrs[len(last.Instrs)-1].(*ssa.Return); !isRet {
				return
			}
			// only paths that unlink
			unlinks := false
			storedFirst, storedLast := false, false
			for _, b := range p.Blocks {
				for _, ins := range b.Instrs {
					switch x := ins.(type) {
					case *ssa.Call:
						if w.clearsParentOf(x) == victim {
							unlinks = true
						}
					case *ssa.Store:
						if fa, ok := x.Addr.(*ssa.FieldAddr); ok && fa.X == ssa.Value(recv) {
							if _, f := fieldOfAddr(fa); f != nil {
								switch f.Name() {
								case "firstChild":
									storedFirst = true
								case "lastChild":
									storedLast = true
								}
							}
						}
					}
				}
			}
			if !unlinks {
				return
			}
			nPaths++
			prevNil, nextNil := false, false
			for i := 0; i+1 < len(p.Blocks); i++ {
				iff, ok := p.Blocks[i].Instrs[len(p.Blocks[i].Instrs)-1].(*ssa.If)
				if !ok {
					continue
				}
				cond := resolveAlong(iff.Cond, p.Blocks[:i+1])
				for _, a := range condAtoms(cond, p.Edges[i] == 0) {
					if x, isNil, ok := nilTest(a.V); ok && isNil == a.Truth {
						switch resolveAlong(x, p.Blocks[:i+1]) {
						case prevV:
							prevNil = true
						case nextV:
							nextNil = true
						}
					}
				}
			}
			if prevNil && !storedFirst {
				bad = "a path on which the removed child had no previous sibling returns without storing firstChild"
			}
			if nextNil && !storedLast {
				bad = "a path on which the removed child had no next sibling returns without storing lastChild: LastChild() keeps pointing at the removed node"
			}
		})
		switch {
		case !complete:
			r.Unknown(key, w.FnPos(fn), "too many paths")
		case bad != "":
			r.Bad(key, w.FnPos(fn), bad)
		default:
			r.OK(key, w.FnPos(fn), fmt.Sprintf("%d unlinking paths, the end pointers are stored wherever the removed child was first or last", nPaths))
		}
	}
	r.Expect("methods that unlink one child", n, 1)
}
