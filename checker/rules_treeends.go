package main

// rules_treeends.go — C13-R: unlinking a child moves the parent's end pointers.

import (
	"fmt"

	"golang.org/x/tools/go/ssa"
)

// clearsParentOf: the instruction is v.SetParent(nil), or hands v to a module function that calls SetParent(nil) on that
// parameter.
func (w *World) clearsParentOf(ins ssa.Instruction) ssa.Value {
	c, ok := ins.(*ssa.Call)
	if !ok {
		return nil
	}
	com := c.Common()
	if com.IsInvoke() {
		if com.Method.Name() == "SetParent" && len(com.Args) == 1 && isNilConst(com.Args[0]) {
			return com.Value
		}
		return nil
	}
	cal := com.StaticCallee()
	if cal == nil || !w.InModule(cal) || cal.Blocks == nil {
		return nil
	}
	for i, p := range cal.Params {
		if i >= len(com.Args) {
			break
		}
		for _, b := range cal.Blocks {
			for _, ci := range b.Instrs {
				if cc, ok := ci.(*ssa.Call); ok && cc.Common().IsInvoke() && cc.Common().Value == ssa.Value(p) && cc.Common().Method.Name() == "SetParent" && len(cc.Common().Args) == 1 && isNilConst(cc.Common().Args[0]) {
					return com.Args[i]
				}
			}
		}
	}
	return nil
}

func ruleEndsFollowRemoval(w *World, r *Report) {
	r.Rule("C13-R", "In every method of a node type in package ast that unlinks one child v of its receiver (it reads v.PreviousSibling() and v.NextSibling() and calls v.SetParent(nil)): on every path to a return on which the previous sibling was seen to be nil the receiver's firstChild is stored, and on every path on which the next sibling was seen to be nil the receiver's lastChild is stored (paths enumerated, nil tests followed through phis). Removing the only child otherwise leaves LastChild() pointing at a node that is no longer in the tree, and the next AppendChild links the new node behind the departed one.")
	n := 0
	for _, fn := range w.Funcs {
		if w.PkgOf(fn) != modPath+"/ast" || fn.Signature.Recv() == nil || len(fn.Params) < 2 {
			continue
		}
		recv := fn.Params[0]
		var prevV, nextV ssa.Value
		var victim ssa.Value
		clears := false
		for _, b := range fn.Blocks {
			for _, ins := range b.Instrs {
				if x := w.clearsParentOf(ins); x != nil {
					if _, isP := x.(*ssa.Parameter); isP {
						clears = true
					}
				}
				c, ok := ins.(*ssa.Call)
				if !ok || !c.Common().IsInvoke() {
					continue
				}
				if _, isP := c.Common().Value.(*ssa.Parameter); !isP {
					continue
				}
				switch c.Common().Method.Name() {
				case "PreviousSibling":
					prevV, victim = c, c.Common().Value
				case "NextSibling":
					nextV = c
				}
			}
		}
		if prevV == nil || nextV == nil || !clears || victim == nil {
			continue
		}
		n++
		key := w.FnKey(fn) + ": end pointers follow the removed child"
		bad := ""
		nPaths := 0
		complete := EnumPaths(fn.Blocks[0], map[string]bool{}, func(b *ssa.BasicBlock) bool {
			_, isRet := b.Instrs[len(b.Instrs)-1].(*ssa.Return)
			return isRet
		}, func(p Path) {
			last := p.Blocks[len(p.Blocks)-1]
			if _, isRet := last.Instrs[len(last.Instrs)-1].(*ssa.Return); !isRet {
				return
			}
			// only paths that unlink
			unlinks := false
			storedFirst, storedLast := false, false
			for _, b := range p.Blocks {
				for _, ins := range b.Instrs {
					switch x := ins.(type) {
					case *ssa.Call:
						if w.clearsParentOf(x) == victim {
							unlinks = true
						}
					case *ssa.Store:
						if fa, ok := x.Addr.(*ssa.FieldAddr); ok && fa.X == ssa.Value(recv) {
							if _, f := fieldOfAddr(fa); f != nil {
								switch f.Name() {
								case "firstChild":
									storedFirst = true
								case "lastChild":
									storedLast = true
								}
							}
						}
					}
				}
			}
			if !unlinks {
				return
			}
			nPaths++
			prevNil, nextNil := false, false
			for i := 0; i+1 < len(p.Blocks); i++ {
				iff, ok := p.Blocks[i].Instrs[len(p.Blocks[i].Instrs)-1].(*ssa.If)
				if !ok {
					continue
				}
				cond := resolveAlong(iff.Cond, p.Blocks[:i+1])
				for _, a := range condAtoms(cond, p.Edges[i] == 0) {
					if x, isNil, ok := nilTest(a.V); ok && isNil == a.Truth {
						switch resolveAlong(x, p.Blocks[:i+1]) {
						case prevV:
							prevNil = true
						case nextV:
							nextNil = true
						}
					}
				}
			}
			if prevNil && !storedFirst {
				bad = "a path on which the removed child had no previous sibling returns without storing firstChild"
			}
			if nextNil && !storedLast {
				bad = "a path on which the removed child had no next sibling returns without storing lastChild: LastChild() keeps pointing at the removed node"
			}
		})
		switch {
		case !complete:
			r.Unknown(key, w.FnPos(fn), "too many paths")
		case bad != "":
			r.Bad(key, w.FnPos(fn), bad)
		default:
			r.OK(key, w.FnPos(fn), fmt.Sprintf("%d unlinking paths, the end pointers are stored wherever the removed child was first or last", nPaths))
		}
	}
	r.Expect("methods that unlink one child", n, 1)
}

// ---- C13-G: a mutator detaches only its own children and the node it adopts ------------------------------------

// detachesFromAnyParent: the index of a parameter p of h that h removes from p.Parent() (ensureIsolated), or -1.
func detachesFromAnyParent(h *ssa.Function) int {
	if h == nil || h.Blocks == nil {
		return -1
	}
	for pi, p := range h.Params {
		for _, b := range h.Blocks {
			for _, ins := range b.Instrs {
				c, ok := ins.(*ssa.Call)
				if !ok || !c.Common().IsInvoke() || c.Common().Method.Name() != "RemoveChild" || len(c.Common().Args) != 2 {
					continue
				}
				if stripNodeConv(c.Common().Args[1]) != ssa.Value(p) {
					continue
				}
				fromParent := false
				for _, leaf := range phiLeaves(c.Common().Value) {
					if pc, ok := leaf.(*ssa.Call); ok && pc.Common().IsInvoke() && pc.Common().Method.Name() == "Parent" && pc.Common().Value == ssa.Value(p) {
						fromParent = true
					}
				}
				if fromParent {
					return pi
				}
			}
		}
	}
	return -1
}

func ruleMutatorsDetachOnlyTheirOwn(w *World, r *Report) {
	r.Rule("C13-G", "In the mutators of package ast (methods with a self parameter that link nodes), a node is taken out of whatever parent it has (a helper that calls v.Parent().RemoveChild(…, v), such as ensureIsolated) only if it is the node the mutator adopts — the parameter that receives SetParent(self). Reference nodes (the child to replace, the sibling to insert next to) are detached only through RemoveChild(self, v), which does nothing unless v is a child of the receiver. ReplaceChild(self, foreign, x) otherwise rips `foreign` out of an uninvolved tree.")
	// adopted parameter positions per mutator: SetParent(non-nil) is invoked on the parameter, or it is handed to another
	// mutator at a position that one adopts (ReplaceChild and InsertAfter delegate to InsertBefore)
	var muts []*ssa.Function
	for _, fn := range w.Funcs {
		if w.PkgOf(fn) == modPath+"/ast" && fn.Signature.Recv() != nil && len(fn.Params) >= 3 && fn.Synthetic == "" {
			muts = append(muts, fn)
		}
	}
	adoptedIdx := map[*ssa.Function]map[int]bool{}
	for _, fn := range muts {
		adoptedIdx[fn] = map[int]bool{}
		for _, b := range fn.Blocks {
			for _, ins := range b.Instrs {
				if c, ok := ins.(*ssa.Call); ok && c.Common().IsInvoke() && c.Common().Method.Name() == "SetParent" && len(c.Common().Args) == 1 && !isNilConst(c.Common().Args[0]) {
					if p, ok := stripNodeConv(c.Common().Value).(*ssa.Parameter); ok {
						adoptedIdx[fn][paramIndex(fn, p)] = true
					}
				}
			}
		}
	}
	for changed := true; changed; {
		changed = false
		for _, fn := range muts {
			for _, b := range fn.Blocks {
				for _, ins := range b.Instrs {
					c, ok := ins.(*ssa.Call)
					if !ok {
						continue
					}
					cal := c.Common().StaticCallee()
					if cal == nil || adoptedIdx[cal] == nil {
						continue
					}
					for k := range adoptedIdx[cal] {
						if k < len(c.Common().Args) {
							if p, ok := stripNodeConv(c.Common().Args[k]).(*ssa.Parameter); ok && !adoptedIdx[fn][paramIndex(fn, p)] {
								adoptedIdx[fn][paramIndex(fn, p)] = true
								changed = true
							}
						}
					}
				}
			}
		}
	}
	n := 0
	for _, fn := range muts {
		adopted := map[ssa.Value]bool{}
		for k := range adoptedIdx[fn] {
			if k >= 0 && k < len(fn.Params) {
				adopted[fn.Params[k]] = true
			}
		}
		if len(adopted) == 0 {
			continue
		}
		n++
		key := w.FnKey(fn) + ": detaches only its own children and the adopted node"
		bad := ""
		nCalls := 0
		for _, b := range fn.Blocks {
			for _, ins := range b.Instrs {
				c, ok := ins.(*ssa.Call)
				if !ok {
					continue
				}
				cal := c.Common().StaticCallee()
				if cal == nil || !w.InModule(cal) {
					continue
				}
				pi := detachesFromAnyParent(cal)
				if pi < 0 || pi >= len(c.Common().Args) {
					continue
				}
				nCalls++
				arg := stripNodeConv(c.Common().Args[pi])
				if !adopted[arg] {
					bad = fmt.Sprintf("%s at %s takes %s out of whatever parent it has, but this mutator does not adopt that node", cal.Name(), w.InstrPos(c), shortVal(arg))
				}
			}
		}
		if bad != "" {
			r.Bad(key, w.FnPos(fn), bad+": a reference node that belongs to another parent is removed from that parent")
		} else {
			r.OK(key, w.FnPos(fn), fmt.Sprintf("%d detach-from-anywhere call(s), each on the adopted node", nCalls))
		}
	}
	r.Expect("mutators that adopt a node", n, 2)
}
