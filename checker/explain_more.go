package main

// explain_more.go — clauses added after the first build round (rules written in response to independently seeded
// changes, see DESIGN.md section 8). Appended to each property's explanation so that MANIFEST.json and the evidence
// files state what is decided.

var explainMore = map[string]string{
	"C01": " Added: (W) every read at a constant positive offset from an index that stands under a window guard on the same index and slice is covered by the strongest such guard (a guard weakened by one indexes out of range when the input ends there); (S) a slice end computed as the sum of two data-dependent values is compared before use (truncated multi-byte sequence at the end of the input).",
	"C02": " Added: (L) the link-label normaliser's result is trimmed at both ends, Unicode-case-folded and whitespace-collapsed, by a typestate over its data path (= C19-L); (T) in block parsers, whole-line indentation and tab widths are measured from the reader's LineOffset(), the absolute column inside containers; (K) per-block context state read by a block parser's Continue/Close is initialised by its Open (= C09-K); (O) the link-title delimiter pairs accepted by the inline-link and the reference-definition parsers, evaluated for all 256 opener bytes, are exactly the three forms of the specification at both sites.",
	"C05": " Added: (X) a detached node carries no sibling links; (H) the nodes stored into firstChild/lastChild have no outward link, with a loop invariant for SortChildren's carried head; (F) sibling links of an argument node are consulted only under arg.Parent() == self; (I) iterate-and-unlink: no loop advances its cursor through a link that a call earlier in the iteration overwrote (sibling cursors in parser/ast, link-field cursors over bookkeeping lists module-wide) — leftover bracket/delimiter bookkeeping nodes.",
	"C08": " Added: (B) a block parser without trigger characters never opens a block on a blank line (inside a container the parser loop does not filter them); (M) the block-quote marker parser consumes, on every accepting path, the marker and exactly one optional following space or tab.",
	"C09": " Added: (K) every per-block context key that a block parser's own Continue/Close reads is stored by its Open on every node-returning path, so state left by an earlier block of the same kind is never read by a later one; (E) the block-phase driver returns from inside the opened-blocks loop only after closing all open blocks (lower index 0), so how a block is closed does not depend on whether input follows; (O) reference definitions accept the same three title forms as inline links (= C02-O), so a definition block is recognised wherever it stands.",
	"C10": " Added to (H): every feasible path on which SoftLineBreak() is true passes the HardWraps branch before returning (no fast path that recognises the soft break and returns).",
	"C11": " Added: (T) the trigger sets of the extension parsers whose characters the statement names (Strikethrough, TaskList, Footnote, DefinitionList) are constant and contained in those characters; (D) the table extension accepts a delimiter cell only after a match of a constant regular expression every match of which contains '-'.",
	"C13": " Added: (X) detached nodes carry no links; (H) ends of the child list have no outward link (inductive for the sort's carried head); (F) foreign-reference guard on every sibling-link read of an argument; (O) the in-place insertion sort links the element exactly in front of the node it was compared with and found not-less; (K5) also at loop cuts: the result of every recursive Walk call is tested for error and Stop before the loop continues.",
	"C14": " Added: (B) the BufWriter handed to the render functions is the caller's own BufWriter or a bufio.Writer around the caller's writer on every path (an adapter without bufio's sticky error loses both the prefix property and the error report).",
	"C16": " Added: (U) the store that numbers a definition lies in no loop of its function (one reference numbers at most one definition); (O) the list's in-place sort inserts each element in front of the node it was compared with (= C13-O).",
	"C17": " Added to (R): counter continuity — every loop that appends cells starts its column counter at 0 (first loop) or at the previous loop's counter, so the counter equals the number of cells in the row when the padding loop runs.",
	"C19": " Added: (S) every field the membership test of a BytesFilter reads is stored into the derived filter by every deriving method (Extend, ExtendString; shared clone helpers followed); (G) every window guard with lookahead in package util is exact — it demands no more bytes than the guarded code reads (a %XX triple at the very end of the input must be treated like one in the middle); (L) typestate of the link-label normaliser: trimmed, case-folded, collapsed.",
}

// explainRound3: rules written in response to the second and third seeding rounds (DESIGN.md sections 3c and 8).
var explainRound3 = map[string]string{
	"C01": " Round 3: (Z) a scanning index advanced by a computed amount advances by a positive amount (entry of an all-positive constant table, or zero excluded by a dominating test) — a step that can be 0 repeats the same cycle for ever; (O) per-block context state that records its owner node is cleared only by that node's Close (= C09-W; an unconditional reset makes the next fence's Continue assert on nil); (N) the link-in-link search neither skips node kinds nor re-scans subtrees (= C05-N; exponential time on nested image descriptions). (N2) every paragraph handed to the paragraph transformers is known to be attached (x.Parent() != nil or x == y.LastChild()), followed up the call chain from the transformers that dereference node.Parent().",
	"C02": " Round 3: (G) exact window guards in package util (= C19-G: a %XX triple in the last three bytes of a destination); (B) a block node that takes another block's place (SetLines(other.Lines()), ReplaceChild) takes over its blank-previous-lines flag, which the tight/loose decision reads; (H) the end condition of type-1 HTML blocks is case-insensitive (= C09-H); (K2) case folding looks every decodable non-ASCII rune up in the folding table (= C19-K). (W) backward window guards len(s) >= k are exact (a hard break made of exactly two spaces and the newline after an inline construct); (R) raw text (code span content) is never sent through the decoding writer, in the normal output and in image alt text alike; (G2) forward window guards outside util are exact (= C09-G).",
	"C03": " Round 3: (E3) in the sanitiser loops, once the escape table returned a replacement the cycle cannot continue without handing it to a call (no 'looks already escaped' shortcut); (Q) the rewriting utilities answer through their copy-on-write buffer, a fast path may hand the argument back only under a proof that nothing needs rewriting (= C19-Q); (M) attribute-filter membership is decided by comparing bytes, never by a hash alone (= C19-M); (V) an option given by name keeps the value it was given (= C10-V: Unsafe=false spelled out stays false).",
	"C04": " Round 3: (Q) every path through IsDangerousURL that returns false has seen all four scheme tests fail on the url argument, or passed the data:image exemption, or knows the url to be shorter than the shortest scheme; (V) = C10-V; (E) the sanitiser the checked URL is written through escapes every byte its table lists (= C03-E) and answers through its buffer (= C19-Q).",
	"C05": " Round 3: (N) the predicate that keeps links out of link text walks the sibling chain and descends into every non-link sibling through FirstChild(), for every node kind and exactly once per subtree; (L) link symmetry is also checked inside re-linking helpers of package ast that a mutator calls. (B) a bracket opener taken off the pending list is replaced or removed in the tree on every path to a return.",
	"C06": " Round 3: (P) convenience wrappers around Markdown.Convert are pure pass-throughs (= C14-P); (O2) components configured in place by their owner (SetOptioner) are allocated by the registering activation, never shared between instances (= C10-O); the shared-memory class now includes module struct types held, directly or behind a module interface, by package-level variables (the attribute filters).",
	"C07": " Round 3: shared memory includes objects held by package-level variables of module interface type (util.BytesFilter: a filter.Add on the render path is a write to process-wide state); (O2) = C10-O.",
	"C08": " Round 3: (K) one notion of blank line: Reader.SkipBlankLines skips exactly what util.IsBlank calls blank; (W) the block quote's render function is a constant wrapper — always WalkContinue, <blockquote> opened on every entering and closed on every leaving path, branching on nothing but `entering` and the node's attributes; (V) in the inline phase a span whose ends come from two different segments is read through BlockReader.Value, never sliced out of the raw source (container markers between the lines).",
	"C09": " Round 3: (W) owner-recording per-block state is cleared only under `recorded node == node`; (H) the type-1 HTML block end condition treats letters case-insensitively (an end tag </PRE> must close the block, otherwise it swallows every later block). (G) window guards and loop bounds outside util demand no more bytes than the reads that depend on them (a construct that ends exactly at the end of the input); (N) a nil peeked line is sent where a blank line is sent.",
	"C10": " Round 3: (V) every by-name setter stores the type-asserted value it was given, never a constant; (O) configured-in-place components are owned by one instance (a renderer built once per extension value keeps an earlier instance's XHTML flag).",
	"C11": " Round 3: (I) in the inline dispatch loop the reader is restored between consecutive parsers of one trigger (= C20-I); (S) an inline parser that returns nil has not added a node to its parent; (D2) the delimiter-row parser returns a non-nil column list only as the result of an append under a '-' match (no empty non-nil list). (L) the default WWW pattern starts with the case-sensitive literal www. and is tried only behind bytes.HasPrefix(line, \"www.\") on the raw line.",
	"C12": " Round 3: the writer table covers package slices (every function except a reviewed read-only list writes through its slice argument: Delete, Insert, Replace, Compact, …), the builtin clear, and bytes.NewBuffer, which takes ownership of the slice unless the new buffer is only read.",
	"C13": " Round 3: (L) link symmetry is also checked inside re-linking helpers of package ast.",
	"C14": " Round 3: (P) every wrapper around Markdown.Convert (the package-level goldmark.Convert) passes the caller's source, writer and options through unchanged and returns the result unchanged (no pooled buffer in front of the caller's writer).",
	"C15": " Round 3: (T2) every context Parse installs itself is the result of a constructor call made in that activation (a context recycled from a pool keeps the used-id table).",
	"C16": " Round 3: (R) the document-level accumulators (footnote list, reference list) are cleared by the AST transformer on every path, so a reused parse context starts clean; (L) every FootnoteLink returned by the inline parser is entered into the per-document reference list; the tree-mutator rules (C13) are run as well because the list is ordered by SortChildren.",
	"C17": " Round 3: (W) the render functions of Table, TableHeader, TableRow and TableCell always return WalkContinue and open/close their element on every entering/leaving path (no header or cell silently omitted).",
	"C18": " Round 3: (P) Value(seg) loads no receiver field that AdvanceLine/SetPosition store — its result does not depend on where the cursor stands.",
	"C19": " Round 3: (M) BytesFilter.Contains answers true only behind a byte comparison with the key; (K) case folding consults the folding table for every decodable rune whose lead byte is >= 0xC2 (all 256 values of v[i] evaluated per skip cycle); (Q) rewriters answer through their copy-on-write buffer; (R) follows parsed code points into helper functions and byte-narrowing writes.",
	"C20": " Round 3: (I) a declining inline parser's reader position is restored before the next parser of the same trigger is tried; (F) also: copy() of the trigger-less list counts as a spread, stores into the trigger table happen only in the loop over a parser's trigger bytes, and after the table lookup the selected list is always walked unless that very list is nil.",
}

// explainRound4: rules written in response to the fourth seeding round.
var explainRound4 = map[string]string{
	"C01": " Round 4: (I) where a scanner cuts its pending range one byte short while a loop-carried 'previous byte was a backslash' flag is set (s[n:i-1]), the invariant flag => n <= i-1 is inductive over every feasible cycle of the loop (byte facts evaluated for all 256 values); (G) sub-parsers called in a loop (attribute lists and arrays) consume input whenever they report success — a forward must-analysis over Advance calls, tested scan runs and forwarded successes — so those loops cannot spin on an empty match.",
	"C05": " Round 4: (H) a loop that detaches the node it works on and re-points its variable to a newly built node builds every replacement from the current node, never from the value the variable had on entry (overlapping, out-of-order text pieces otherwise).",
	"C06": " Round 4: the analysed program now includes every declared method of every named type of the library, also of types that only clients convert to an interface (extension.TaskList, Strikethrough, DefinitionList, GFM): their Extend methods register configured-in-place renderers too (C10-O).",
	"C07": " Round 4: as C06 — the Extend methods of the extensions that no library code converts to goldmark.Extender are analysed as well.",
	"C09": " Round 4: (A) document-level accumulators in the parse context (consumed once by an AST transformer) are extended, never replaced: every non-nil Set stores a value built from what the key held, or lies on the edge where the key was just seen to be nil; (H) the type-1 arm is found by evaluating every comparison of the block type with a constant, also in helpers the type is handed to.",
	"C10": " Round 4: (O) now covers the renderers registered by TaskList, Strikethrough and DefinitionList (their Extend methods were not part of the analysed program before); (U) the safe arm may branch and ask the node questions, every write in the region it dominates is a write of constants.",
	"C16": " Round 4: (N) the sort of the footnote list by Index lies on every path that attaches the list to the document (a sort that is skipped when the definitions 'look ordered' lists items in definition order while they are numbered in reference order).",
	"C19": " Round 4: (S) also: the parent's fields are copied into the derived filter before any key is added to it — a whole-field overwrite after Add, or after a constructor that was handed the new keys, drops what those keys had set.",
}

// explainRound5: rules written in response to the fifth seeding round.
var explainRound5 = map[string]string{
	"C01": " Round 5: (W) the window rule also covers reads made by a module helper that indexes its (slice, index) parameters without a length test of its own (util.ToRune), and both edges of every comparison with a length count as guards; (Q) all comparisons with one named byte constant (\"class\") agree on case sensitivity — the attribute parser's type check and its merge step must recognise the same spellings.",
	"C02": " Round 5: (L) a table keyed by lower-case words (the HTML block tag names) is looked up only with lower-cased keys; (S) in the resolving writer every feasible loop cycle that writes nothing moves the index by exactly one byte (a failed reference look-ahead is rewound), so no byte is skipped undecoded.",
	"C06": " Round 5: (G) configuration-time code — every New… and With… function, its closures and static callees — writes no memory rooted at a package-level variable (reviewed exceptions: the node-kind and context-key registries).",
	"C08": " Round 5: (R) render functions never slice the source between positions of two different segments (= C10).",
	"C10": " Round 5: (A) every constructor taking functional options applies them to the object it returns (in place through a pointer into it, or through a copy that is stored back); (R) render functions read node text segment by segment — the source between two segments holds container markers, so Unsafe output would differ from safe output by more than the placeholder.",
	"C11": " Round 5: (X) the Extend methods of the extensions hand only registration options (With…Parsers, With…Transformers, WithNodeRenderers) to the instance; instance-wide options passed along change documents that do not use the extension (CJK is the reviewed exception); (Y) the typographer returns a node only when the byte under the cursor is one of ' \" - . < > (per-edge data-flow of 256-bit byte sets over Parse); (F) the footnote parsers return a node only behind a test of a byte of the peeked line against '^'.",
	"C13": " Round 5: (R) a method that unlinks one child stores firstChild on every path on which the child had no previous sibling and lastChild on every path on which it had no next sibling; (G) a mutator takes a node out of whatever parent it has only if it adopts that node — reference nodes are detached only through RemoveChild(self, v).",
	"C15": " Round 5: (A) = C10-A: options given to NewATXHeadingParser / NewSetextHeadingParser reach the parser that is returned (an auto-id option applied to a dropped copy yields headings without ids).",
	"C16": " Round 5: (B) also: the table of running per-footnote ordinals is allocated once per Transform — not in a loop and not in a helper called twice — so ordinals do not restart.",
}

func augmentExplain() {

	for id, more := range explainMore {
		if p := registry[id]; p != nil {
			p.Explain += more
		}
	}
	for id, more := range explainRound3 {
		if p := registry[id]; p != nil {
			p.Explain += more
		}
	}
	for id, more := range explainRound4 {
		if p := registry[id]; p != nil {
			p.Explain += more
		}
	}
	for id, more := range explainRound5 {
		if p := registry[id]; p != nil {
			p.Explain += more
		}
	}
}
