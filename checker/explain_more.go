package main

// explain_more.go — clauses added after the first build round (rules written in response to independently seeded
// changes, see DESIGN.md section 8). Appended to each property's explanation so that MANIFEST.json and the evidence
// files state what is decided.

var explainMore = map[string]string{
	"C01": " Added: (W) every read at a constant positive offset from an index that stands under a window guard on the same index and slice is covered by the strongest such guard (a guard weakened by one indexes out of range when the input ends there); (S) a slice end computed as the sum of two data-dependent values is compared before use (truncated multi-byte sequence at the end of the input).",
	"C02": " Added: (L) the link-label normaliser's result is trimmed at both ends, Unicode-case-folded and whitespace-collapsed, by a typestate over its data path (= C19-L); (T) in block parsers, whole-line indentation and tab widths are measured from the reader's LineOffset(), the absolute column inside containers; (K) per-block context state read by a block parser's Continue/Close is initialised by its Open (= C09-K); (O) the link-title delimiter pairs accepted by the inline-link and the reference-definition parsers, evaluated for all 256 opener bytes, are exactly the three forms of the specification at both sites.",
	"C05": " Added: (X) a detached node carries no sibling links; (H) the nodes stored into firstChild/lastChild have no outward link, with a loop invariant for SortChildren's carried head; (F) sibling links of an argument node are consulted only under arg.Parent() == self; (I) iterate-and-unlink: no loop advances its cursor through a link that a call earlier in the iteration overwrote (sibling cursors in parser/ast, link-field cursors over bookkeeping lists module-wide) — leftover bracket/delimiter bookkeeping nodes.",
	"C08": " Added: (B) a block parser without trigger characters never opens a block on a blank line (inside a container the parser loop does not filter them); (M) the block-quote marker parser consumes, on every accepting path, the marker and exactly one optional following space or tab.",
	"C09": " Added: (K) every per-block context key that a block parser's own Continue/Close reads is stored by its Open on every node-returning path, so state left by an earlier block of the same kind is never read by a later one; (E) the block-phase driver returns from inside the opened-blocks loop only after closing all open blocks (lower index 0), so how a block is closed does not depend on whether input follows; (O) reference definitions accept the same three title forms as inline links (= C02-O), so a definition block is recognised wherever it stands.",
	"C10": " Added to (H): every feasible path on which SoftLineBreak() is true passes the HardWraps branch before returning (no fast path that recognises the soft break and returns).",
	"C11": " Added: (T) the trigger sets of the extension parsers whose characters the statement names (Strikethrough, TaskList, Footnote, DefinitionList) are constant and contained in those characters; (D) the table extension accepts a delimiter cell only after a match of a constant regular expression every match of which contains '-'.",
	"C13": " Added: (X) detached nodes carry no links; (H) ends of the child list have no outward link (inductive for the sort's carried head); (F) foreign-reference guard on every sibling-link read of an argument; (O) the in-place insertion sort links the element exactly in front of the node it was compared with and found not-less; (K5) also at loop cuts: the result of every recursive Walk call is tested for error and Stop before the loop continues.",
	"C14": " Added: (B) the BufWriter handed to the render functions is the caller's own BufWriter or a bufio.Writer around the caller's writer on every path (an adapter without bufio's sticky error loses both the prefix property and the error report).",
	"C16": " Added: (U) the store that numbers a definition lies in no loop of its function (one reference numbers at most one definition); (O) the list's in-place sort inserts each element in front of the node it was compared with (= C13-O).",
	"C17": " Added to (R): counter continuity — every loop that appends cells starts its column counter at 0 (first loop) or at the previous loop's counter, so the counter equals the number of cells in the row when the padding loop runs.",
	"C19": " Added: (S) every field the membership test of a BytesFilter reads is stored into the derived filter by every deriving method (Extend, ExtendString; shared clone helpers followed); (G) every window guard with lookahead in package util is exact — it demands no more bytes than the guarded code reads (a %XX triple at the very end of the input must be treated like one in the middle); (L) typestate of the link-label normaliser: trimmed, case-folded, collapsed.",
}

func augmentExplain() {
	for id, more := range explainMore {
		if p := registry[id]; p != nil {
			p.Explain += more
		}
	}
}
