package main

// rules_backwindow.go — C02-W: backward window guards (len(s) >= k protecting reads s[len(s)-j]) are exact.

import (
	"fmt"
	"go/token"

	"golang.org/x/tools/go/ssa"
)

type backGuard struct {
	iff   *ssa.If
	edge  int
	slice ssa.Value
	k     int64 // the edge proves len(slice) >= k
}

// backGuards: guards of the form len(s) >= k / len(s) > k-1 / !(len(s) < k) / len(s) == k (either operand order).
func backGuards(fn *ssa.Function) []backGuard {
	var out []backGuard
	for _, b := range fn.Blocks {
		if len(b.Instrs) == 0 {
			continue
		}
		iff, ok := b.Instrs[len(b.Instrs)-1].(*ssa.If)
		if !ok {
			continue
		}
		bo, ok := iff.Cond.(*ssa.BinOp)
		if !ok {
			continue
		}
		op := bo.Op
		l, cv := bo.X, bo.Y
		if _, isC := constInt(l); isC {
			l, cv = bo.Y, bo.X
			switch op {
			case token.LSS:
				op = token.GTR
			case token.GTR:
				op = token.LSS
			case token.LEQ:
				op = token.GEQ
			case token.GEQ:
				op = token.LEQ
			}
		}
		c, isC := constInt(cv)
		s := lenOf(l)
		if !isC || s == nil {
			continue
		}
		switch op {
		case token.GEQ:
			out = append(out, backGuard{iff, 0, s, c})
		case token.GTR:
			out = append(out, backGuard{iff, 0, s, c + 1})
		case token.LSS:
			out = append(out, backGuard{iff, 1, s, c})
		case token.LEQ:
			out = append(out, backGuard{iff, 1, s, c + 1})
		case token.EQL:
			out = append(out, backGuard{iff, 0, s, c})
		}
	}
	return out
}

// backOffset: index is len(s) - j for the given s; returns j.
func backOffset(index, s ssa.Value) (int64, bool) {
	b, ok := stripConv(index).(*ssa.BinOp)
	if !ok || b.Op != token.SUB {
		return 0, false
	}
	if lenOf(b.X) != s {
		return 0, false
	}
	return constInt(b.Y)
}

func ruleBackwardWindowsExact(w *World, r *Report) {
	r.Rule("C02-W", "Backward windows are exact: where a guard len(s) >= k (any spelling: > k-1, == k, the false edge of < k) protects reads of the last bytes s[len(s)-j], the largest j among the reads that no other such guard covers equals k. A guard tightened by one ('a hard break needs text before the two spaces': len > 3 instead of >= 3) makes the construct fail exactly when it is all that is left of the line — after an inline parser consumed '**foo**', the rest of the line is just the two spaces and the newline, and the hard break degrades to a soft one.")
	n := 0
	for _, fn := range w.Funcs {
		if fn.Synthetic != "" {
			continue
		}
		gs := backGuards(fn)
		for gi, g := range gs {
			if g.k <= 0 {
				continue
			}
			needed := int64(-1)
			reads := 0
			for _, blk := range fn.Blocks {
				if !edgeDominates(g.iff.Block(), g.edge, blk) {
					continue
				}
				for _, ins := range blk.Instrs {
					ia, ok := ins.(*ssa.IndexAddr)
					if !ok || ia.X != g.slice {
						continue
					}
					j, ok := backOffset(ia.Index, g.slice)
					if !ok || j <= 0 {
						continue
					}
					reads++
					covered := false
					for gj, o := range gs {
						if gj != gi && o.iff != g.iff && o.slice == g.slice && o.k >= j && edgeDominates(o.iff.Block(), o.edge, blk) {
							covered = true
						}
					}
					if !covered && j > needed {
						needed = j
					}
				}
			}
			if reads == 0 || needed < 0 {
				continue
			}
			n++
			key := fmt.Sprintf("%s: guard len(%s) >= %d", w.FnKey(fn), stableName(g.slice), g.k)
			if g.k > needed {
				r.Bad(key, w.InstrPos(g.iff), fmt.Sprintf("the guard demands %d bytes but the reads that depend on it look back only %d from the end: when the construct is all that remains of the line it is not recognised", g.k, needed))
			} else {
				r.OK(key, w.InstrPos(g.iff), fmt.Sprintf("needed by a read at len-%d", needed))
			}
		}
	}
	r.Expect("backward window guards", n, 2)
}
