package main

// rules_effects.go — effect analysis: C06 (purity across calls) and C07 (concurrency safety).

import (
	"fmt"
	"go/token"
	"go/types"
	"sort"
	"strings"

	"golang.org/x/tools/go/ssa"
)

func init() {
	register(&Property{
		ID:      "C06",
		Level:   "other",
		Explain: "Decides by effect analysis over the call graph (all built-in extensions included): (S) no store into configuration/global memory is reachable from Convert/Parse/Render outside the sync.Once initialisers, so no state can survive a call; (R) nothing reachable from Render writes AST node memory except nil-guarded memoisation of a value computed from the node itself; (N) no nondeterminism source (map iteration, time, rand, goroutines, select) is reachable per call; (E) Convert is exactly reader := NewReader(source); Parse; Render with the same source. Does NOT decide byte equality across equivalent option spellings, user-supplied extensions, or a caller-supplied Context/IDs object.",
		Trusted: []string{"type-directed memory classes (DESIGN 2.3)", "VTA call graph with pass-site refinement (DESIGN 2.2)", "no unsafe writes (C12-X)"},
		Assumes: []string{"user-supplied extensions, parsers, renderers and Context objects are out of scope"},
		Rules:   []func(*World, *Report){ruleNoSharedState("C06-S"), ruleStatelessSharedObjects, ruleRenderReadOnly, ruleNoNondeterminism, ruleOptionsCommute, ruleConvertShape, ruleConvertWrappersPassThrough, ruleConfiguredComponentsOwned, ruleConfigTimeWritesNoGlobals},
	})
	register(&Property{
		ID:      "C07",
		Level:   "proof",
		Explain: "A data race needs two goroutines, one location and at least one write. Locations two concurrent calls on one instance can both reach are (a) the configuration graph and globals, (b) the caller's source buffer, (c) what a call allocates and publishes. S: no write to (a) outside a Once-closure, hence (c) is empty; O: every write to (a) reachable from an entry point is inside the closure handed to sync.Once.Do on a Once that is a field of the initialised object (or a global), and the Do call dominates every read of the fields the closure writes; I: the global registries (node kinds, context keys, case-folding table) are written only from package initialisation; B (= C12): the source buffer is never written; T: every foreign method call on a receiver loaded from shared memory has a concurrency-safe receiver type. With these, every write performed by a call goes to memory no other call can reach: no race, and no call observes another call's writes.",
		Trusted: []string{"Go memory model for sync.Once", "table of concurrency-safe stdlib receiver types (regexp.Regexp, sync.Once, unicode.RangeTable)", "VTA call graph with pass-site refinement (DESIGN 2.2)", "type-directed memory classes (DESIGN 2.3)", "C12 (source buffer never written; no unsafe writes)"},
		Assumes: []string{"user-supplied extensions out of scope", "the same AST is not rendered concurrently with itself (node memoisation is per tree)"},
		Rules:   []func(*World, *Report){ruleNoSharedState("C07-S"), ruleStatelessSharedObjects, ruleOnceDiscipline, ruleInitOnlyRegistries, ruleThreadSafeObjects, ruleSourceNeverWrittenSummary, ruleConfiguredComponentsOwned},
	})
}

// perCallReach returns the functions reachable from the entry points without entering Once-closures.
func (w *World) perCallReach(roots []*ssa.Function) map[*ssa.Function]*ssa.Function {
	cg := w.CG()
	return cg.Reach(roots, cg.OnceSkip())
}

func (w *World) moduleFuncsIn(reach map[*ssa.Function]*ssa.Function) []*ssa.Function {
	var out []*ssa.Function
	for f := range reach {
		if w.InModule(f) && f.Blocks != nil {
			out = append(out, f)
		}
	}
	sort.Slice(out, func(i, j int) bool { return out[i].String() < out[j].String() })
	return out
}

// writeKey gives a line-independent key for a write.
func (w *World) writeKey(wr Write, info AddrInfo) string {
	f := info.Field
	if f == "" {
		f = "*"
	}
	return fmt.Sprintf("%s: %s %s.%s", w.FnKey(wr.Fn), wr.Kind, strings.SplitN(info.Why, " (", 2)[0], f)
}

// isWriteToClass lists the writes of class `class` in fn. For append/copy on non-byte slices the
// destination is the first argument; append only counts when the base is not local.
func (w *World) classWrites(fn *ssa.Function, class MemClass) []struct {
	W    Write
	Info AddrInfo
} {
	var out []struct {
		W    Write
		Info AddrInfo
	}
	for _, wr := range WritesOf(fn) {
		info := w.ClassifyRef(wr.Addr)
		if info.Class == class {
			out = append(out, struct {
				W    Write
				Info AddrInfo
			}{wr, info})
		}
	}
	return out
}

// ---- C06-S / C07-S ---------------------------------------------------------------

func ruleNoSharedState(id string) func(*World, *Report) {
	return func(w *World, r *Report) {
		r.Rule(id, "No Store/MapUpdate/append/copy/delete whose target is configuration-graph or global memory is reachable from Convert, Parse or Render without passing through a closure handed to sync.Once.Do.")
		e := w.Entries()
		r.Expect("entry points (Convert/Parse/Render implementations)", len(e.All()), 1)
		reach := w.perCallReach(e.All())
		fns := w.moduleFuncsIn(reach)
		r.Expect("module functions reachable per call", len(fns), 300)
		nw := 0
		for _, fn := range fns {
			for _, wr := range WritesOf(fn) {
				info := w.ClassifyRef(wr.Addr)
				if info.Class == MemLocal {
					continue
				}
				nw++
				if info.Class == MemShared {
					r.Bad(w.writeKey(wr, info), w.InstrPos(wr.Instr),
						fmt.Sprintf("%s into shared memory %s, reachable from an entry point outside sync.Once", wr.Kind, info.Why),
						w.PathTo(reach, fn)...)
				}
			}
		}
		r.Expect("non-local writes examined", nw, 96)
		r.OK("all reachable writes classified", "", fmt.Sprintf("%d non-local writes in %d functions: none targets shared memory", nw, len(fns)))
		r.Note("%s: %d shared types, %d node types", id, len(w.SharedTypes()), len(w.NodeTypes()))
		r.Quiet("%s shared types: %s", id, strings.Join(w.describeTypes(w.SharedTypes()), "; "))
	}
}

func shortList(l []string, n int) []string {
	if len(l) > n {
		return append(l[:n:n], fmt.Sprintf("… (%d more)", len(l)-n))
	}
	return l
}

// ---- C06-R ------------------------------------------------------------------------

func ruleRenderReadOnly(w *World, r *Report) {
	r.Rule("C06-R", "Nothing reachable from Render (outside its Once-closure) writes AST node memory, except a nil-guarded memoisation: a store to field F of the receiver dominated by the true edge of `F == nil` whose value is computed from the receiver and the parameters only.")
	e := w.Entries()
	reach := w.perCallReach(e.Render)
	fns := w.moduleFuncsIn(reach)
	r.Expect("module functions reachable from Render", len(fns), 100)
	memo := 0
	for _, fn := range fns {
		for _, cw := range w.classWrites(fn, MemNode) {
			key := w.writeKey(cw.W, cw.Info)
			if ok, why := w.isNilGuardedMemo(cw.W); ok {
				memo++
				r.OK(key, w.InstrPos(cw.W.Instr), "nil-guarded memoisation: "+why)
				continue
			}
			r.Bad(key, w.InstrPos(cw.W.Instr), fmt.Sprintf("%s into AST node memory (%s) while rendering", cw.W.Kind, cw.Info.Why), w.PathTo(reach, fn)...)
		}
	}
	r.Expect("nil-guarded memoisations recognised", memo, 1)
}

func (w *World) isNilGuardedMemo(wr Write) (bool, string) {
	st, ok := wr.Instr.(*ssa.Store)
	if !ok {
		return false, ""
	}
	fa, ok := st.Addr.(*ssa.FieldAddr)
	if !ok {
		return false, ""
	}
	fn := wr.Fn
	if len(fn.Params) == 0 || fa.X != ssa.Value(fn.Params[0]) || fn.Signature.Recv() == nil {
		return false, ""
	}
	guarded := false
	for _, cf := range dominatingConds(st.Block()) {
		for _, a := range condAtoms(cf.If.Cond, cf.Truth) {
			if x, isNil, ok := nilTest(a.V); ok && isLoadOf(x, fa) && isNil == a.Truth {
				guarded = true
			}
		}
	}
	if !guarded {
		return false, ""
	}
	// stored value: derived from parameters / fresh allocations only (no globals, no free variables)
	pure := true
	operandsClosure(st.Val, func(v ssa.Value) bool {
		switch v.(type) {
		case *ssa.Global, *ssa.FreeVar:
			pure = false
		}
		return pure
	})
	if !pure {
		return false, ""
	}
	_, f := fieldOfAddr(fa)
	return true, "field " + f.Name() + " set only when nil, from the receiver/parameters"
}

// ---- C06-N ------------------------------------------------------------------------

var nondetPkgs = map[string]bool{"time": true, "math/rand": true, "math/rand/v2": true, "os": true, "crypto/rand": true, "runtime": false}

func ruleNoNondeterminism(w *World, r *Report) {
	r.Rule("C06-N", "No range over a map, no call into time/math/rand/os, no go statement and no select is reachable from Convert/Parse/Render outside the Once-closures; inside the Once-closures a map range is allowed only when each iteration's effect is keyed by the map key.")
	e := w.Entries()
	reach := w.perCallReach(e.All())
	fns := w.moduleFuncsIn(reach)
	checked := 0
	for _, fn := range fns {
		for _, b := range fn.Blocks {
			for _, ins := range b.Instrs {
				checked++
				switch v := ins.(type) {
				case *ssa.Range:
					if _, isMap := v.X.Type().Underlying().(*types.Map); isMap {
						key := w.FnKey(fn) + ": range over map " + typeShort(v.X.Type())
						if ok, why := mapRangeKeyed(v); ok {
							r.OK(key, w.InstrPos(ins), "per call, but order-independent: "+why)
						} else {
							r.Bad(key, w.InstrPos(ins), "map iteration order is random; reachable per call and its effect is not keyed by the map key ("+why+")", w.PathTo(reach, fn)...)
						}
					}
				case *ssa.Go:
					r.Bad(w.FnKey(fn)+": go statement", w.InstrPos(ins), "goroutine started per call", w.PathTo(reach, fn)...)
				case *ssa.Select:
					r.Bad(w.FnKey(fn)+": select", w.InstrPos(ins), "select reachable per call", w.PathTo(reach, fn)...)
				case ssa.CallInstruction:
					if cal := v.Common().StaticCallee(); cal != nil && cal.Pkg != nil && nondetPkgs[cal.Pkg.Pkg.Path()] {
						r.Bad(w.FnKey(fn)+": call "+cal.String(), w.InstrPos(ins), "call into a nondeterministic/environment package reachable per call", w.PathTo(reach, fn)...)
					}
				}
			}
		}
	}
	r.OK("per-call code free of nondeterminism sources", "", fmt.Sprintf("%d instructions in %d functions examined", checked, len(fns)))
	// Once-closures: map ranges must be key-indexed
	cg := w.CG()
	nOnce := 0
	var onceFns []*ssa.Function
	for f := range cg.OnceClosures {
		if w.InModule(f) {
			onceFns = append(onceFns, f)
		}
	}
	sort.Slice(onceFns, func(i, j int) bool { return onceFns[i].String() < onceFns[j].String() })
	for _, oc := range onceFns {
		inner := cg.Reach([]*ssa.Function{oc}, nil)
		for _, fn := range w.moduleFuncsIn(inner) {
			for _, b := range fn.Blocks {
				for _, ins := range b.Instrs {
					rg, ok := ins.(*ssa.Range)
					if !ok {
						continue
					}
					if _, isMap := rg.X.Type().Underlying().(*types.Map); !isMap {
						continue
					}
					nOnce++
					key := w.FnKey(fn) + ": range over map " + typeShort(rg.X.Type())
					if ok, why := mapRangeKeyed(rg); ok {
						r.OK(key, w.InstrPos(ins), "inside Once-closure; "+why)
					} else {
						r.Bad(key, w.InstrPos(ins), "map range inside an initialiser whose effect is not keyed by the map key: "+why, w.PathTo(inner, fn)...)
					}
				}
			}
		}
	}
	r.Note("C06-N: %d map ranges inside Once-closures", nOnce)
}

// mapRangeKeyed: every use of the key/value extracted from the iterator is (a) an argument of a
// call that receives the key as well, or (b) a store/map update indexed by the key.
func mapRangeKeyed(rg *ssa.Range) (bool, string) {
	var key, val ssa.Value
	for _, ref := range referrersOf(rg) {
		nx, ok := ref.(*ssa.Next)
		if !ok {
			continue
		}
		for _, r2 := range referrersOf(nx) {
			if ex, ok := r2.(*ssa.Extract); ok {
				switch ex.Index {
				case 1:
					key = ex
				case 2:
					val = ex
				}
			}
		}
	}
	if key == nil {
		return false, "key unused: effects cannot be keyed"
	}
	// no early exit and no loop-carried state: otherwise the result depends on the iteration order
	for _, ref := range referrersOf(rg) {
		nx, ok := ref.(*ssa.Next)
		if !ok {
			continue
		}
		hdr := nx.Block()
		for _, l := range findLoops(rg.Parent()) {
			if l.Header != hdr {
				continue
			}
			for _, ins := range hdr.Instrs {
				if _, isPhi := ins.(*ssa.Phi); isPhi {
					return false, "the loop carries state from one iteration to the next"
				}
			}
			for b := range l.Body {
				if b == hdr {
					continue
				}
				for _, s := range b.Succs {
					if !l.Body[s] {
						return false, "the loop is left early (break/return): which entry is seen first depends on the order"
					}
				}
			}
		}
	}
	if val == nil {
		return true, "only the key is used"
	}
	usesKey := func(ins ssa.Instruction) bool {
		for _, op := range ins.Operands(nil) {
			if *op == nil {
				continue
			}
			found := false
			operandsClosure(*op, func(v ssa.Value) bool {
				if v == key {
					found = true
				}
				return !found
			})
			if found {
				return true
			}
		}
		return false
	}
	for _, ref := range referrersOf(val) {
		switch x := ref.(type) {
		case *ssa.MapUpdate, *ssa.Store:
			if !usesKey(ref) {
				return false, "value stored without the key"
			}
		case ssa.CallInstruction:
			if !usesKey(ref) {
				return false, "value passed to " + x.Common().String() + " without the key"
			}
		case *ssa.MakeInterface, *ssa.ChangeType, *ssa.Convert, *ssa.DebugRef:
			// conversions: follow one level
			if v, ok := ref.(ssa.Value); ok {
				for _, r3 := range referrersOf(v) {
					if _, isDbg := r3.(*ssa.DebugRef); isDbg {
						continue
					}
					if !usesKey(r3) {
						return false, "converted value used without the key"
					}
				}
			}
		default:
			return false, fmt.Sprintf("value used by %T", ref)
		}
	}
	return true, "each iteration stores/calls with (key, value)"
}

// ---- C06-E ------------------------------------------------------------------------

func ruleConvertShape(w *World, r *Report) {
	r.Rule("C06-E", "Convert = construct a reader over `source`; one Parse invoke with that reader and the options; one Render invoke with the same `source`, the caller's writer and the parse result; return Render's result.")
	e := w.Entries()
	r.Expect("Convert implementations", len(e.Convert), 1)
	for _, fn := range e.Convert {
		key := w.FnKey(fn)
		var parse, render []*ssa.Call
		var others []string
		for _, b := range fn.Blocks {
			for _, ins := range b.Instrs {
				c, ok := ins.(*ssa.Call)
				if !ok {
					continue
				}
				com := c.Common()
				if com.IsInvoke() && com.Method.Name() == "Parse" {
					parse = append(parse, c)
				} else if com.IsInvoke() && com.Method.Name() == "Render" {
					render = append(render, c)
				} else if cal := com.StaticCallee(); cal != nil {
					others = append(others, cal.String())
				} else {
					others = append(others, com.String())
				}
			}
		}
		if len(fn.Blocks) != 1 || len(parse) != 1 || len(render) != 1 {
			r.Unknown(key, w.FnPos(fn), fmt.Sprintf("unexpected shape: %d blocks, %d Parse invokes, %d Render invokes", len(fn.Blocks), len(parse), len(render)))
			continue
		}
		// params: recv, source, writer, opts
		if len(fn.Params) < 4 {
			r.Unknown(key, w.FnPos(fn), "unexpected parameter list")
			continue
		}
		source, writer, opts := fn.Params[1], fn.Params[2], fn.Params[3]
		ok := true
		var why []string
		// Parse(reader, opts...) where reader = NewReader(source)
		pa := parse[0].Common().Args
		rd := stripMakeIface(pa[0])
		rc, isCall := rd.(*ssa.Call)
		if !isCall || rc.Common().StaticCallee() == nil || len(rc.Common().Args) != 1 || rc.Common().Args[0] != ssa.Value(source) ||
			!types.Identical(rc.Common().StaticCallee().Signature.Results().At(0).Type(), w.Named("text", "Reader")) {
			ok = false
			why = append(why, "Parse's reader is not constructed from `source` by a text.Reader constructor")
		}
		if len(pa) < 2 || pa[1] != ssa.Value(opts) {
			ok = false
			why = append(why, "options are not passed through to Parse")
		}
		ra := render[0].Common().Args
		if len(ra) != 3 || ra[0] != ssa.Value(writer) || ra[1] != ssa.Value(source) || ra[2] != ssa.Value(parse[0]) {
			ok = false
			why = append(why, "Render is not called with (writer, source, result of Parse)")
		}
		// return value is Render's result
		for _, b := range fn.Blocks {
			if ret, isRet := b.Instrs[len(b.Instrs)-1].(*ssa.Return); isRet {
				if len(ret.Results) != 1 || ret.Results[0] != ssa.Value(render[0]) {
					ok = false
					why = append(why, "does not return Render's result unchanged")
				}
			}
		}
		for _, o := range others {
			if !strings.Contains(o, "NewReader") {
				ok = false
				why = append(why, "extra call "+o)
			}
		}
		if ok {
			r.OK(key, w.FnPos(fn), "NewReader(source); Parse(reader, opts...); return Render(writer, source, doc)")
		} else {
			r.Bad(key, w.FnPos(fn), strings.Join(why, "; "))
		}
	}
}

func stripMakeIface(v ssa.Value) ssa.Value {
	for {
		switch x := v.(type) {
		case *ssa.MakeInterface:
			v = x.X
		case *ssa.ChangeInterface:
			v = x.X
		default:
			return v
		}
	}
}

// ---- C07-O ------------------------------------------------------------------------

func ruleOnceDiscipline(w *World, r *Report) {
	r.Rule("C07-O", "Every write to shared/global memory reachable from an entry point lies in code reachable only through the closure given to (*sync.Once).Do; the Once is a field of the object being initialised (or a global guarding globals); and in the entry function the Do call dominates every read of a field the closure writes.")
	cg := w.CG()
	e := w.Entries()
	full := cg.Reach(e.All(), nil)
	var onces []*ssa.Function
	for f := range cg.OnceClosures {
		if w.InModule(f) {
			if _, ok := full[f]; ok {
				onces = append(onces, f)
			}
		}
	}
	sort.Slice(onces, func(i, j int) bool { return onces[i].String() < onces[j].String() })
	r.Expect("sync.Once initialisers reachable from entry points", len(onces), 1)
	for _, oc := range onces {
		call := cg.OnceClosures[oc]
		key := w.FnKey(oc)
		// receiver of Do: &obj.once (field of a shared object) or a global
		recv := call.Common().Args[0]
		info := w.ClassifyRef(recv)
		var ownerRoot ssa.Value
		switch x := recv.(type) {
		case *ssa.FieldAddr:
			ownerRoot = x.X
		case *ssa.Global:
			ownerRoot = x
		}
		if ownerRoot == nil || info.Class != MemShared {
			r.Bad(key+": once object", w.InstrPos(call), "the sync.Once is not a field of a shared object nor a global: "+shortVal(recv))
			continue
		}
		// writes inside the closure (and what it reaches): shared writes must target the owner object or globals
		inner := cg.Reach([]*ssa.Function{oc}, nil)
		written := map[string]bool{}
		nWrites := 0
		for _, fn := range w.moduleFuncsIn(inner) {
			for _, cw := range w.classWrites(fn, MemShared) {
				nWrites++
				if cw.Info.Field != "" {
					written[cw.Info.Field] = true
				}
			}
		}
		r.OK(key+": once object", w.InstrPos(call), fmt.Sprintf("Once is %s; closure performs %d shared writes (fields: %s)", shortVal(recv), nWrites, strings.Join(sortedKeys(written), ",")))
		// Do dominates reads of those fields in the function that calls Do
		host := call.Parent()
		bad := 0
		reads := 0
		for _, fnn := range AnonClosure(host) {
			if fnn == oc {
				continue
			}
			for _, b := range fnn.Blocks {
				for _, ins := range b.Instrs {
					fa, ok := ins.(*ssa.FieldAddr)
					if !ok {
						continue
					}
					_, f := fieldOfAddr(fa)
					if f == nil || !written[f.Name()] {
						continue
					}
					if c, _ := w.typeClass(fa.X.Type()); c != MemShared {
						continue
					}
					reads++
					if fnn == host && !instrDominates(call, ins) {
						bad++
						r.Bad(key+": read of "+f.Name()+" before Do", w.InstrPos(ins), "field written by the Once-closure is accessed on a path that has not passed Do")
					}
				}
			}
		}
		if bad == 0 {
			r.OK(key+": Do dominates reads", w.InstrPos(call), fmt.Sprintf("%d accesses of initialised fields in %s, all after Do", reads, w.FnKey(host)))
		}
	}
	// globals written under a Once: every load elsewhere must be dominated by that Once's Do (or a wrapper that always runs it)
	for _, oc := range onces {
		call := cg.OnceClosures[oc]
		onceObj := call.Common().Args[0]
		inner := cg.Reach([]*ssa.Function{oc}, nil)
		globals := map[*ssa.Global]bool{}
		for _, fn := range w.moduleFuncsIn(inner) {
			for _, wr := range WritesOf(fn) {
				for _, root := range w.ClassifyRef(wr.Addr).Roots {
					if g, ok := root.(*ssa.Global); ok {
						globals[g] = true
					}
				}
			}
		}
		if len(globals) == 0 {
			continue
		}
		// wrappers: functions in which a Do on the same Once object dominates every return
		mustDo := map[*ssa.Function]bool{}
		isDoCall := func(ins ssa.Instruction) bool {
			c, ok := ins.(ssa.CallInstruction)
			if !ok {
				return false
			}
			cal := c.Common().StaticCallee()
			if cal == nil {
				return false
			}
			if cal.String() == "(*sync.Once).Do" {
				return sameAddr(c.Common().Args[0], onceObj)
			}
			return mustDo[cal]
		}
		for changed := true; changed; {
			changed = false
			for _, fn := range w.Funcs {
				if mustDo[fn] || inner[fn] != nil || fn == oc {
					continue
				}
				var dos []ssa.Instruction
				for _, b := range fn.Blocks {
					for _, ins := range b.Instrs {
						if isDoCall(ins) {
							dos = append(dos, ins)
						}
					}
				}
				if len(dos) == 0 {
					continue
				}
				all := true
				for _, b := range fn.Blocks {
					ret, ok := b.Instrs[len(b.Instrs)-1].(*ssa.Return)
					if !ok {
						continue
					}
					dom := false
					for _, d := range dos {
						if instrDominates(d, ret) {
							dom = true
						}
					}
					if !dom {
						all = false
					}
				}
				if all {
					mustDo[fn] = true
					changed = true
				}
			}
		}
		nLoads := 0
		for _, fn := range w.Funcs {
			if _, in := inner[fn]; in {
				continue
			}
			if fn.Name() == "init" {
				continue
			}
			for _, b := range fn.Blocks {
				for _, ins := range b.Instrs {
					u, ok := ins.(*ssa.UnOp)
					if !ok || u.Op != token.MUL {
						continue
					}
					g, ok := u.X.(*ssa.Global)
					if !ok || !globals[g] {
						continue
					}
					nLoads++
					key := fmt.Sprintf("%s: read of %s", w.FnKey(fn), g.Name())
					dom := false
					for _, b2 := range fn.Blocks {
						for _, i2 := range b2.Instrs {
							if isDoCall(i2) && instrDominates(i2, ins) {
								dom = true
							}
						}
					}
					if dom {
						r.OK(key, w.InstrPos(ins), "dominated by the Once's Do (or a wrapper that always runs it)")
					} else {
						r.Bad(key, w.InstrPos(ins), "global initialised under sync.Once is read on a path that has not passed Do: unsynchronised with the initialiser's writes")
					}
				}
			}
		}
		r.Note("C07-O: %s guards globals; %d reads checked", w.FnKey(oc), nLoads)
	}
	// every shared write reachable from entries must be inside some Once-closure's reach only
	perCall := w.perCallReach(e.All())
	n := 0
	for _, fn := range w.moduleFuncsIn(full) {
		ws := w.classWrites(fn, MemShared)
		if len(ws) == 0 {
			continue
		}
		n += len(ws)
		if _, ok := perCall[fn]; ok {
			for _, cw := range ws {
				r.Bad(w.writeKey(cw.W, cw.Info)+" (not only under Once)", w.InstrPos(cw.W.Instr), "function with shared writes is reachable without passing a Once-closure", w.PathTo(perCall, fn)...)
			}
		}
	}
	r.Expect("shared writes under Once-closures", n, 10)
}

// ---- C07-I ------------------------------------------------------------------------

func ruleInitOnlyRegistries(w *World, r *Report) {
	r.Rule("C07-I", "Functions that write package-level variables (the kind/context-key registries, the case-folding table) are called only from package initialisation (init, package-level var initialisers), never from code reachable from an entry point; apart from sync.Once-guarded initialisers.")
	cg := w.CG()
	e := w.Entries()
	perCall := w.perCallReach(e.All())
	// functions writing globals
	n := 0
	for _, fn := range w.Funcs {
		var gw []string
		for _, wr := range WritesOf(fn) {
			info := w.ClassifyRef(wr.Addr)
			for _, root := range info.Roots {
				if g, ok := root.(*ssa.Global); ok {
					gw = append(gw, g.Name())
				}
			}
		}
		if len(gw) == 0 {
			continue
		}
		n++
		key := w.FnKey(fn) + " writes " + strings.Join(uniq(gw), ",")
		if fn.Name() == "init" || strings.HasPrefix(fn.Name(), "init#") {
			r.OK(key, w.FnPos(fn), "package initialiser")
			continue
		}
		if _, ok := perCall[fn]; ok {
			r.Bad(key, w.FnPos(fn), "writes a global and is reachable from an entry point outside sync.Once", w.PathTo(perCall, fn)...)
			continue
		}
		// all callers must be init functions or Once closures (transitively unreachable per call is what matters)
		var callers []string
		for _, c := range cg.In[fn] {
			callers = append(callers, w.FnKey(c))
		}
		sort.Strings(callers)
		r.OK(key, w.FnPos(fn), "not reachable per call; callers: "+strings.Join(shortList(uniq(callers), 6), ", "))
	}
	r.Expect("functions writing globals", n, 3)
}

func uniq(l []string) []string {
	m := map[string]bool{}
	for _, s := range l {
		m[s] = true
	}
	return sortedKeys(m)
}

// ---- C07-T ------------------------------------------------------------------------

var threadSafeRecv = map[string]string{
	"*regexp.Regexp":      "regexp.Regexp is documented safe for concurrent use",
	"*sync.Once":          "sync.Once",
	"*unicode.RangeTable": "read-only table",
	"*sync.Mutex":         "sync.Mutex",
	"*sync.RWMutex":       "sync.RWMutex",
	"*sync.Pool":          "sync.Pool",
}

// read-only foreign functions that may receive shared slices/maps/pointers
var readOnlyForeign = map[string]bool{
	"bytes.Equal": true, "bytes.HasPrefix": true, "bytes.HasSuffix": true, "bytes.Contains": true, "bytes.Index": true,
	"bytes.IndexByte": true, "bytes.ToLower": true, "bytes.Compare": true, "bytes.EqualFold": true, "bytes.TrimSpace": true,
	"bytes.IndexAny": true, "bytes.LastIndex": true, "bytes.Count": true, "bytes.Split": true, "bytes.Repeat": true, "bytes.Replace": true,
	"unicode.Is": true, "unicode.In": true, "unicode.IsOneOf": true,
	"fmt.Sprintf": true, "fmt.Fprintf": true, "fmt.Fprint": true, "fmt.Sprint": true,
	"strings.HasPrefix": true, "strings.Contains": true,
	"unicode/utf8.DecodeRune": true, "unicode/utf8.RuneCount": true, "unicode/utf8.Valid": true,
	"sort.SearchInts": true, "sort.Search": true,
}

func ruleThreadSafeObjects(w *World, r *Report) {
	r.Rule("C07-T", "Per call, every call of a function outside the module that receives a pointer/slice/map rooted in shared or global memory either has a receiver type in the concurrency-safe table or is a read-only function from the reviewed table.")
	e := w.Entries()
	reach := w.perCallReach(e.All())
	n := 0
	for _, fn := range w.moduleFuncsIn(reach) {
		for _, b := range fn.Blocks {
			for _, ins := range b.Instrs {
				c, ok := ins.(ssa.CallInstruction)
				if !ok {
					continue
				}
				com := c.Common()
				cal := com.StaticCallee()
				if cal == nil || w.InModule(cal) || builtinName(com) != "" {
					continue
				}
				for i, a := range com.Args {
					switch a.Type().Underlying().(type) {
					case *types.Pointer, *types.Slice, *types.Map:
					default:
						continue
					}
					info := w.ClassifyRef(a)
					if info.Class != MemShared {
						continue
					}
					n++
					key := fmt.Sprintf("%s: %s arg%d", w.FnKey(fn), cal.String(), i)
					if i == 0 && cal.Signature.Recv() != nil {
						rt := cal.Signature.Recv().Type().String()
						if why, ok := threadSafeRecv[rt]; ok {
							r.OK(key, w.InstrPos(ins), why)
							continue
						}
						r.Bad(key, w.InstrPos(ins), "method of "+rt+" called on an object loaded from shared memory ("+info.Why+"); type not in the concurrency-safe table", w.PathTo(reach, fn)...)
						continue
					}
					if readOnlyForeign[cal.String()] {
						r.OK(key, w.InstrPos(ins), "read-only function")
						continue
					}
					r.Bad(key, w.InstrPos(ins), "shared memory ("+info.Why+") passed to "+cal.String()+" which is not in the read-only table", w.PathTo(reach, fn)...)
				}
			}
		}
	}
	r.Expect("foreign calls receiving shared memory", n, 1)
}

// ruleSourceNeverWrittenSummary: C07-B = C12; evaluated by running C12's write-site rule.
func ruleSourceNeverWrittenSummary(w *World, r *Report) {
	r.Rule("C07-B", "= C12-W/C/B/X: the caller's source buffer is never written (see C12).")
	sub := &Report{Property: "C12"}
	for _, rule := range registry["C12"].Rules {
		rule(w, sub)
	}
	bad := 0
	for _, o := range sub.Obls {
		if o.Status != Discharged {
			bad++
			r.Obls = append(r.Obls, Obligation{Rule: "C07-B", Construct: o.Rule + ": " + o.Construct, Pos: o.Pos, Status: o.Status, Detail: o.Detail, Path: o.Path})
		}
	}
	if bad == 0 {
		r.OK("C12 obligations", "", fmt.Sprintf("%d obligations of C12 discharged", len(sub.Obls)))
	}
}

var _ = token.NoPos

// ---- C06-F ------------------------------------------------------------------------

// foreign methods that do not change the observable state of their receiver
var statelessMethods = map[string]bool{
	"(*sync.Once).Do": true, // one-time initialisation: covered by C07-O / C06-N
}

func ruleStatelessSharedObjects(w *World, r *Report) {
	r.Rule("C06-F", "Per call, every foreign method invoked on an object rooted in shared or global memory leaves no state behind: (*regexp.Regexp) matching methods, (*sync.Once).Do, read-only table functions. A sync.Pool, bytes.Buffer, strings.Builder, rand source, mutex-protected cache etc. reachable from shared memory is state that survives the call.")
	e := w.Entries()
	reach := w.perCallReach(e.All())
	n := 0
	for _, fn := range w.moduleFuncsIn(reach) {
		for _, b := range fn.Blocks {
			for _, ins := range b.Instrs {
				c, ok := ins.(ssa.CallInstruction)
				if !ok {
					continue
				}
				com := c.Common()
				cal := com.StaticCallee()
				if cal == nil || w.InModule(cal) || cal.Signature.Recv() == nil || len(com.Args) == 0 {
					continue
				}
				info := w.ClassifyRef(com.Args[0])
				if info.Class != MemShared {
					continue
				}
				n++
				name := cal.String()
				key := fmt.Sprintf("%s: %s", w.FnKey(fn), name)
				rt := cal.Signature.Recv().Type().String()
				switch {
				case statelessMethods[name]:
					r.OK(key, w.InstrPos(ins), "stateless by table")
				case rt == "*regexp.Regexp" && (strings.HasPrefix(cal.Name(), "Match") || strings.HasPrefix(cal.Name(), "Find") || cal.Name() == "String" || cal.Name() == "NumSubexp" || cal.Name() == "SubexpNames"):
					r.OK(key, w.InstrPos(ins), "regexp matching does not change the compiled expression")
				default:
					r.Bad(key, w.InstrPos(ins), "method "+name+" on an object in shared memory ("+info.Why+") may keep state across calls; not in the stateless table", w.PathTo(reach, fn)...)
				}
			}
		}
	}
	r.Expect("foreign method calls on shared objects", n, 10)
}

// ---- C06-O: options applied from a map must commute ---------------------------------------------------

// ruleOptionsCommute: Render's initialiser replays the option map (random iteration order) through SetOption.
// The configuration is the same for every order only if the effects of different option names commute; the
// structural sufficient condition checked here: different names store to disjoint fields.
func ruleOptionsCommute(w *World, r *Report) {
	r.Rule("C06-O", "Renderer options are replayed from a map (random order) through SetOption(name, value). In every module SetOption method the arms selected by different option names store to pairwise disjoint receiver fields (an arm may forward to an embedded SetOption): otherwise the resulting configuration, and with it the output, depends on map iteration order and differs between two instances built from the same options.")
	n := 0
	for _, fn := range w.Funcs {
		if fn.Name() != "SetOption" || fn.Signature.Recv() == nil || len(fn.Params) != 3 || fn.Parent() != nil {
			continue
		}
		nameP := fn.Params[1]
		if !isString(nameP.Type()) {
			continue
		}
		recvT := namedOf(fn.Params[0].Type())
		if recvT == nil || !w.InModuleType(recvT) {
			continue
		}
		type arm struct {
			name   string
			fields map[string]bool
			pos    string
		}
		var arms []arm
		for _, b := range fn.Blocks {
			iff, ok := b.Instrs[len(b.Instrs)-1].(*ssa.If)
			if !ok {
				continue
			}
			bo, ok := iff.Cond.(*ssa.BinOp)
			if !ok || bo.Op != token.EQL {
				continue
			}
			var cs string
			if stripConv(bo.X) == ssa.Value(nameP) {
				cs, ok = constString(stripConv(bo.Y))
			} else if stripConv(bo.Y) == ssa.Value(nameP) {
				cs, ok = constString(stripConv(bo.X))
			} else {
				continue
			}
			if !ok {
				continue
			}
			a := arm{name: cs, fields: map[string]bool{}, pos: w.InstrPos(iff)}
			for _, x := range fn.Blocks {
				if !edgeDominates(b, 0, x) {
					continue
				}
				for _, ins := range x.Instrs {
					st, ok := ins.(*ssa.Store)
					if !ok {
						continue
					}
					root, p, ok := addrFieldPath(st.Addr)
					if !ok || root != ssa.Value(fn.Params[0]) {
						continue
					}
					a.fields[fieldPathName(recvT, p)] = true
				}
			}
			arms = append(arms, a)
		}
		if len(arms) == 0 {
			continue
		}
		n++
		key := w.FnKey(fn)
		bad := false
		for i := 0; i < len(arms); i++ {
			for j := i + 1; j < len(arms); j++ {
				if arms[i].name == arms[j].name {
					continue
				}
				for f := range arms[i].fields {
					if arms[j].fields[f] {
						bad = true
						r.Bad(fmt.Sprintf("%s: options %q and %q", key, arms[i].name, arms[j].name), arms[j].pos, fmt.Sprintf("both arms store to field %s: the final value depends on the order in which the option map is replayed", f))
					}
				}
			}
		}
		if !bad {
			r.OK(key, w.FnPos(fn), fmt.Sprintf("%d option arms store to pairwise disjoint fields", len(arms)))
		}
	}
	r.Expect("SetOption methods with named arms", n, 3)
}
