package main

// rules_c16.go — C16: footnote numbering and cross-links (structural clauses only).
//
//	C16-T id/href template agreement between the four footnote render functions (from the sink model's
//	      attribute contexts: the sequence of pieces written inside id="…" and href="#…")
//	C16-N numbering: the only assignment of a footnote's index takes the next value of the list counter
//	      under "not numbered yet"; unnumbered definitions are removed; the list is ordered by index
//	C16-B back-links: one per reference count, numbered 0..count-1 like the references themselves

import (
	"fmt"
	"go/token"
	"go/types"
	"sort"
	"strings"

	"golang.org/x/tools/go/ssa"
)

func init() {
	register(&Property{
		ID:      "C16",
		Level:   "other",
		Explain: "The statement as a whole depends on which references survive into the rendered tree (references inside image alt text or inside the body of an unreferenced footnote are counted but not rendered — the dangling back-links reported in the property text); that is a property of documents and is NOT decided. Decided are the structural conditions without which no document could be consistent: (T) the id written for a reference and the href written for its back-link, and the href written for a reference and the id written for its footnote item, are built from the same template — the same sequence of constants, the same id prefix and the same node fields (Index, RefIndex under the same condition), extracted from the sink model's attribute contexts; (N) a footnote's Index is assigned only from the list counter immediately after incrementing it and only while the footnote is still unnumbered, so numbers are 1..Count in order of first reference; definitions still unnumbered are removed from the list and the list is sorted by a comparator on Index; (B) the transformer creates, for a footnote with reference count c, exactly the back-links RefIndex 0..c-1 with that Index, and numbers the references of one footnote 0,1,2,… in list order by the same counter discipline. (A) the inline parser never numbers a definition without returning the reference node in the same call; (I) no loop of the footnote code advances its sibling cursor through a node it detached in the same iteration. Not decided: that every counted reference is rendered (known deviation), distinctness of generated ids from user ids, nesting of footnotes in footnotes.",
		Trusted: []string{"sink model and HTML lexer-state dataflow (DESIGN 2.5)", "SortChildren sorts by the comparator (C13)"},
		Assumes: []string{"built-in footnote extension only"},
		Rules: append(append([]func(*World, *Report){}, treeRuleSet...), ruleFootnoteTemplates, ruleFootnoteNumbering, ruleNumberedMeansReferenced, ruleOneDefinitionPerReference, ruleSortInsertionPoint, ruleDocumentStateCleared, ruleReturnedReferenceRegistered,
			ruleIterationSafety("C16-I", func(w *World, fn *ssa.Function) bool { return inSourceFile(w, fn, "extension/footnote.go") }, 1)),
	})
}

// sigOfValue renders a non-constant written value as a template signature.
func (w *World) sigOfValue(v ssa.Value, depth int) string {
	if depth > 6 {
		return "?"
	}
	v = stripConv(v)
	switch x := v.(type) {
	case *ssa.Parameter:
		if sub, ok := w.sigSubst[x]; ok {
			return w.sigOfValue(sub, depth+1)
		}
	case *ssa.Const:
		if s, ok := constString(x); ok {
			return fmt.Sprintf("%q", s)
		}
		if c, ok := constInt(x); ok {
			if b, isB := x.Type().Underlying().(*types.Basic); isB && b.Kind() == types.Uint8 {
				return fmt.Sprintf("%q", string(rune(c)))
			}
			return fmt.Sprint(c)
		}
	case *ssa.Call:
		com := x.Common()
		cal := com.StaticCallee()
		if cal != nil {
			switch cal.String() {
			case "strconv.Itoa", "strconv.FormatInt":
				return "int(" + w.sigOfValue(com.Args[0], depth+1) + ")"
			case "fmt.Sprintf", "fmt.Sprint":
				var parts []string
				args := com.Args
				if cal.Name() == "Sprintf" {
					if f, ok := constString(args[0]); ok && (f == "%v" || f == "%d") {
						args = args[1:]
					} else {
						return "sprintf(?)"
					}
				}
				for _, a := range args {
					for _, o := range w.Sinks().variadicOperands(a) {
						parts = append(parts, w.sigOfValue(o, depth+1))
					}
				}
				return "int(" + strings.Join(parts, ",") + ")"
			}
			if w.InModule(cal) {
				return "call:" + cal.Name()
			}
			return "call:" + cal.String()
		}
		if com.IsInvoke() {
			return "invoke:" + com.Method.Name()
		}
	case *ssa.MakeInterface:
		return w.sigOfValue(x.X, depth+1)
	case *ssa.UnOp:
		if x.Op == token.MUL {
			if fa, ok := x.X.(*ssa.FieldAddr); ok {
				_, f := fieldOfAddr(fa)
				if f != nil {
					return "field:" + f.Name()
				}
			}
		}
	case *ssa.Phi:
		var alts []string
		for _, e := range x.Edges {
			alts = append(alts, w.sigOfValue(e, depth+1))
		}
		sort.Strings(alts)
		return "phi(" + strings.Join(uniq(alts), "|") + ")"
	}
	return fmt.Sprintf("%T", v)
}

// condSig describes the extra branch facts under which a block runs, relative to a base block.
func (w *World) condSig(b, base *ssa.BasicBlock) string {
	baseFacts := map[string]bool{}
	for _, cf := range dominatingConds(base) {
		baseFacts[fmt.Sprintf("%p/%v", cf.If, cf.Truth)] = true
	}
	var out []string
	for _, cf := range dominatingConds(b) {
		if baseFacts[fmt.Sprintf("%p/%v", cf.If, cf.Truth)] {
			continue
		}
		s := "?"
		if bo, ok := cf.If.Cond.(*ssa.BinOp); ok {
			s = w.sigOfValue(bo.X, 0) + bo.Op.String() + w.sigOfValue(bo.Y, 0)
		}
		if !cf.Truth {
			s = "!(" + s + ")"
		}
		out = append(out, s)
	}
	sort.Strings(out)
	return strings.Join(out, "&&")
}

// attrTemplates extracts, for a render function, the templates written inside the given attributes.
func (w *World) attrTemplates(fn *ssa.Function, attrs map[string]bool) map[string][]string {
	lr := w.LexAll()
	sa := w.Sinks()
	type item struct {
		e    *SinkEvent
		call *ssa.Call // a call that hands the writer to a module helper
		blk  int
		idx  int
	}
	eventsOf := func(f *ssa.Function, ctxOK func(LexState) bool) []item {
		var evs []item
		seen := map[string]bool{}
		for k := range lr.Events {
			e := &lr.Events[k]
			if e.Sink.Fn != f || !ctxOK(e.Ctx) {
				continue
			}
			key := fmt.Sprintf("%p/%d", e.Sink.Instr, e.Piece)
			if seen[key] {
				continue
			}
			seen[key] = true
			ins := e.Sink.Instr.(ssa.Instruction)
			evs = append(evs, item{e: e, blk: ins.Block().Index, idx: instrIndex(ins)})
		}
		for _, b := range f.Blocks {
			for ii, ins := range b.Instrs {
				c, ok := ins.(*ssa.Call)
				if !ok || sa.sinkAt(f, ins) != nil {
					continue
				}
				cal := c.Common().StaticCallee()
				if cal == nil || !w.InModule(cal) || cal.Blocks == nil {
					continue
				}
				passes := false
				for _, a := range c.Common().Args {
					if sa.isBufWriter(a.Type()) {
						passes = true
					}
				}
				if passes {
					evs = append(evs, item{call: c, blk: b.Index, idx: ii})
				}
			}
		}
		sort.SliceStable(evs, func(i, j int) bool {
			if evs[i].blk != evs[j].blk {
				return evs[i].blk < evs[j].blk
			}
			if evs[i].idx != evs[j].idx {
				return evs[i].idx < evs[j].idx
			}
			if evs[i].e != nil && evs[j].e != nil {
				return evs[i].e.Piece < evs[j].e.Piece
			}
			return false
		})
		return evs
	}
	out := map[string][]string{}
	var openBlock = map[string]*ssa.BasicBlock{}
	var process func(f *ssa.Function, items []item, cur LexState, base *ssa.BasicBlock, depth int) LexState
	process = func(f *ssa.Function, items []item, cur LexState, base *ssa.BasicBlock, depth int) LexState {
		for _, x := range items {
			if x.call != nil {
				// a helper called while a wanted attribute value is open: its pieces belong to the template, with the
				// helper's parameters standing for the arguments of this call
				if cur.Mode != LexAttr || !attrs[cur.Attr] || depth > 2 {
					continue
				}
				cal := x.call.Common().StaticCallee()
				attr := cur.Attr
				sub := eventsOf(cal, func(c LexState) bool { return c.Mode == LexAttr && c.Attr == attr })
				old := w.sigSubst
				w.sigSubst = map[*ssa.Parameter]ssa.Value{}
				for k, v := range old {
					w.sigSubst[k] = v
				}
				for pi, pp := range cal.Params {
					if pi < len(x.call.Common().Args) {
						w.sigSubst[pp] = x.call.Common().Args[pi]
					}
				}
				cur = process(cal, sub, cur, cal.Blocks[0], depth+1)
				w.sigSubst = old
				continue
			}
			p := x.e.Sink.Pieces[x.e.Piece]
			st := x.e.State
			blk := x.e.Sink.Instr.(ssa.Instruction).Block()
			if p.Const {
				// walk the constant char by char; characters inside a wanted attribute value belong to its template
				c0 := ""
				curAttr := ""
				flush := func() {
					if c0 != "" && curAttr != "" {
						out[curAttr] = append(out[curAttr], fmt.Sprintf("%q", c0))
					}
					c0 = ""
				}
				for i := 0; i < len(p.Text); i++ {
					c := p.Text[i]
					if st.Mode == LexAttr && attrs[st.Attr] && c != '"' {
						if curAttr != st.Attr {
							flush()
							curAttr = st.Attr
						}
						c0 += string(c)
					}
					nst := st.feed(string(c))
					if nst.Mode == LexAttr && st.Mode != LexAttr && attrs[nst.Attr] {
						openBlock[nst.Attr] = blk
					}
					if st.Mode == LexAttr && nst.Mode != LexAttr {
						flush()
						curAttr = ""
					}
					st = nst
				}
				flush()
				cur = st
				continue
			}
			cur = st
			if st.Mode == LexAttr && attrs[st.Attr] {
				var arg ssa.Value
				com := x.e.Sink.Instr.Common()
				if com.IsInvoke() && len(com.Args) > 0 {
					arg = com.Args[0]
				}
				sig := "?"
				if arg != nil {
					sig = w.sigOfValue(arg, 0)
				}
				ob := openBlock[st.Attr]
				if base != nil {
					ob = base // inside a helper: conditions relative to the helper's entry
				}
				if ob != nil && ob != blk {
					if cs := w.condSig(blk, ob); cs != "" {
						sig += " if " + cs
					}
				}
				out[st.Attr] = append(out[st.Attr], sig)
			}
		}
		return cur
	}
	process(fn, eventsOf(fn, func(LexState) bool { return true }), LexState{}, nil, 0)
	return out
}

func ruleFootnoteTemplates(w *World, r *Report) {
	r.Rule("C16-T", "For the render functions registered for FootnoteLink, FootnoteBacklink and Footnote, the sink model's attribute contexts give the sequence of pieces written inside id=\"…\" and href=\"…\" (constants verbatim; other pieces by their source: id-prefix call, integer node field, and the branch condition under which an optional piece is written). Required: href of a reference == '#' + id of a footnote item; href of a back-link == '#' + id of a reference.")
	var link, back, item *ssa.Function
	for _, reg := range w.Registrations() {
		if reg.Kind == nil || reg.Func == nil {
			continue
		}
		switch reg.Kind.Name() {
		case "KindFootnoteLink":
			link = reg.Func
		case "KindFootnoteBacklink":
			back = reg.Func
		case "KindFootnote":
			item = reg.Func
		}
	}
	if link == nil || back == nil || item == nil {
		r.Unknown("footnote render functions", "", "registrations for FootnoteLink/FootnoteBacklink/Footnote not found")
		return
	}
	want := map[string]bool{"id": true, "href": true}
	tl, tb, ti := w.attrTemplates(link, want), w.attrTemplates(back, want), w.attrTemplates(item, want)
	join := func(p []string) string { return strings.Join(p, " + ") }
	stripHash := func(p []string) ([]string, bool) {
		if len(p) == 0 {
			return nil, false
		}
		first := p[0]
		if strings.HasPrefix(first, "\"#") {
			rest := "\"" + first[2:]
			if rest == "\"\"" {
				return p[1:], true
			}
			return append([]string{rest}, p[1:]...), true
		}
		return p, false
	}
	r.Quiet("C16-T templates: reference id = %s; reference href = %s; back-link href = %s; item id = %s", join(tl["id"]), join(tl["href"]), join(tb["href"]), join(ti["id"]))
	check := func(name string, href []string, id []string, posFn *ssa.Function) {
		h, ok := stripHash(href)
		key := name
		switch {
		case len(href) == 0 || len(id) == 0:
			r.Unknown(key, w.FnPos(posFn), fmt.Sprintf("template not found (href: %s; id: %s)", join(href), join(id)))
		case !ok:
			r.Bad(key, w.FnPos(posFn), "the href does not start with '#': "+join(href))
		case join(h) != join(id):
			r.Bad(key, w.FnPos(posFn), fmt.Sprintf("the link target %s and the id it should reach %s are built differently: the cross-link dangles", join(h), join(id)))
		default:
			r.OK(key, w.FnPos(posFn), "both are "+join(id))
		}
	}
	check("href of a footnote reference == id of the footnote item", tl["href"], ti["id"], link)
	check("href of a back-link == id of the footnote reference", tb["href"], tl["id"], back)
	n := 0
	for _, t := range [][]string{tl["id"], tl["href"], tb["href"], ti["id"]} {
		n += len(t)
	}
	r.Expect("template pieces extracted", n, 9)
}

// ---- C16-N / C16-B -----------------------------------------------------------------------------------

func (w *World) storesToField(typ *types.Named, field string) []*ssa.Store {
	var out []*ssa.Store
	for _, fn := range w.Funcs {
		for _, b := range fn.Blocks {
			for _, ins := range b.Instrs {
				st, ok := ins.(*ssa.Store)
				if !ok {
					continue
				}
				fa, ok := st.Addr.(*ssa.FieldAddr)
				if !ok {
					continue
				}
				nt := namedOf(fa.X.Type())
				_, f := fieldOfAddr(fa)
				if nt != nil && nt.Obj() == typ.Obj() && f != nil && f.Name() == field {
					out = append(out, st)
				}
			}
		}
	}
	return out
}

func isFieldLoad(v ssa.Value, typ *types.Named, field string) (ssa.Value, bool) {
	u, ok := stripConv(v).(*ssa.UnOp)
	if !ok || u.Op != token.MUL {
		return nil, false
	}
	fa, ok := u.X.(*ssa.FieldAddr)
	if !ok {
		return nil, false
	}
	nt := namedOf(fa.X.Type())
	_, f := fieldOfAddr(fa)
	if nt != nil && nt.Obj() == typ.Obj() && f != nil && f.Name() == field {
		return fa.X, true
	}
	return nil, false
}

func ruleFootnoteNumbering(w *World, r *Report) {
	r.Rule("C16-N", "Outside constructors, Footnote.Index is stored only with the value of FootnoteList.Count loaded right after the only increment of Count (Count = Count + 1), and that store is dominated by the test Index < 0 on the same footnote (not numbered yet): numbers are consecutive from 1 in order of first reference and never reassigned. In the AST transformer every footnote whose Index < 0 is removed from the list, and the list is sorted with a comparator that compares Index.")
	fnT := w.Named("extension/ast", "Footnote")
	listT := w.Named("extension/ast", "FootnoteList")
	backT := w.Named("extension/ast", "FootnoteBacklink")
	linkT := w.Named("extension/ast", "FootnoteLink")
	if fnT == nil || listT == nil || backT == nil || linkT == nil {
		r.Unknown("footnote AST types", "", "not found")
		return
	}
	isCtor := func(fn *ssa.Function) bool {
		return fn.Pkg != nil && fn.Pkg.Pkg == w.TPkg("extension/ast")
	}
	nIdx := 0
	for _, st := range w.storesToField(fnT, "Index") {
		fn := st.Parent()
		if isCtor(fn) {
			continue
		}
		nIdx++
		key := fmt.Sprintf("%s: store #%d to Footnote.Index", w.FnKey(fn), nIdx)
		// value: load of list.Count
		_, isCount := isFieldLoad(st.Val, listT, "Count")
		// dominated by Index < 0 on the same footnote
		obj := st.Addr.(*ssa.FieldAddr).X
		guarded := false
		for _, cf := range dominatingConds(st.Block()) {
			for _, a := range condAtoms(cf.If.Cond, cf.Truth) {
				if bo, ok := a.V.(*ssa.BinOp); ok {
					if o, ok := isFieldLoad(bo.X, fnT, "Index"); ok && o == obj {
						if c, ok := constInt(bo.Y); ok && ((bo.Op == token.LSS && c == 0 && a.Truth) || (bo.Op == token.GEQ && c == 0 && !a.Truth) || (bo.Op == token.LEQ && c == -1 && a.Truth)) {
							guarded = true
						}
					}
				}
			}
		}
		// preceded in the same block by Count = Count + 1
		incBefore := false
		for _, ins := range st.Block().Instrs {
			if ins == ssa.Instruction(st) {
				break
			}
			if s2, ok := ins.(*ssa.Store); ok {
				if fa, ok := s2.Addr.(*ssa.FieldAddr); ok {
					_, f := fieldOfAddr(fa)
					if nt := namedOf(fa.X.Type()); nt != nil && nt.Obj() == listT.Obj() && f != nil && f.Name() == "Count" {
						if bo, ok := s2.Val.(*ssa.BinOp); ok && bo.Op == token.ADD {
							if _, isL := isFieldLoad(bo.X, listT, "Count"); isL {
								if c, ok := constInt(bo.Y); ok && c == 1 {
									incBefore = true
								}
							}
						}
					}
				}
			}
		}
		if isCount && guarded && incBefore {
			r.OK(key, w.InstrPos(st), "Index = ++Count under Index < 0")
		} else {
			r.Bad(key, w.InstrPos(st), fmt.Sprintf("a footnote's number is assigned outside the discipline 'Index = ++list.Count while Index < 0' (value is the counter: %v, guarded by Index < 0: %v, counter incremented just before: %v): numbers can repeat, skip or change", isCount, guarded, incBefore))
		}
	}
	r.Expect("assignments of Footnote.Index outside constructors", nIdx, 1)
	// Count is incremented only there
	nCount := 0
	for _, st := range w.storesToField(listT, "Count") {
		if isCtor(st.Parent()) {
			continue
		}
		nCount++
	}
	if nCount == 1 {
		r.OK("FootnoteList.Count has a single writer", "", "one increment site")
	} else {
		r.Bad("FootnoteList.Count has a single writer", "", fmt.Sprintf("%d stores to the list counter outside constructors", nCount))
	}
	// transformer: removal of unnumbered footnotes, sort by Index, back-links
	at := w.Iface("parser", "ASTTransformer")
	// functions that construct a FootnoteBacklink (the transformer itself, or a helper it calls)
	ctorIn := map[*ssa.Function][]*ssa.Call{}
	for _, f := range w.Funcs {
		if isCtor(f) {
			continue
		}
		for _, b := range f.Blocks {
			for _, ins := range b.Instrs {
				if c, ok := ins.(*ssa.Call); ok {
					if nt := namedOf(c.Type()); nt != nil && nt.Obj() == backT.Obj() && c.Common().StaticCallee() != nil && isCtor(c.Common().StaticCallee()) {
						ctorIn[f] = append(ctorIn[f], c)
					}
				}
			}
		}
	}
	var tf *ssa.Function
	for _, t := range w.Implementers(at) {
		f := w.MethodOf(t, "Transform")
		if f == nil || f.Blocks == nil {
			continue
		}
		if len(ctorIn[f]) > 0 {
			tf = f
		}
		for _, b := range f.Blocks {
			for _, ins := range b.Instrs {
				if c, ok := ins.(*ssa.Call); ok {
					if cal := c.Common().StaticCallee(); cal != nil && len(ctorIn[cal]) > 0 {
						tf = f
					}
				}
			}
		}
	}
	if tf == nil {
		r.Unknown("footnote AST transformer", "", "no ASTTransformer constructs FootnoteBacklink nodes")
		return
	}
	key := w.FnKey(tf)
	// removal under Index < 0
	removed := false
	for _, b := range tf.Blocks {
		for _, ins := range b.Instrs {
			c, ok := ins.(ssa.CallInstruction)
			if !ok {
				continue
			}
			name := ""
			if c.Common().IsInvoke() {
				name = c.Common().Method.Name()
			} else if cal := c.Common().StaticCallee(); cal != nil {
				name = cal.Name()
			}
			if name != "RemoveChild" {
				continue
			}
			for _, cf := range dominatingConds(b) {
				for _, a := range condAtoms(cf.If.Cond, cf.Truth) {
					if bo, ok := a.V.(*ssa.BinOp); ok {
						if _, ok := isFieldLoad(bo.X, fnT, "Index"); ok {
							if cst, ok := constInt(bo.Y); ok && cst == 0 && ((bo.Op == token.LSS && a.Truth) || (bo.Op == token.GEQ && !a.Truth)) {
								removed = true
							}
						}
					}
				}
			}
		}
	}
	if removed {
		r.OK(key+": unreferenced definitions are removed", w.FnPos(tf), "RemoveChild under Index < 0")
	} else {
		r.Bad(key+": unreferenced definitions are removed", w.FnPos(tf), "no RemoveChild dominated by Index < 0: a definition that is never referenced is rendered (with number -1)")
	}
	// sort comparator compares Index
	sorted := false
	var sortBlocks []*ssa.BasicBlock
	for _, b := range tf.Blocks {
		for _, ins := range b.Instrs {
			c, ok := ins.(ssa.CallInstruction)
			if !ok {
				continue
			}
			name := ""
			if c.Common().IsInvoke() {
				name = c.Common().Method.Name()
			} else if cal := c.Common().StaticCallee(); cal != nil {
				name = cal.Name()
			}
			if name != "SortChildren" {
				continue
			}
			for _, a := range c.Common().Args {
				for _, f := range funcValues(stripChangeType(a)) {
					// the comparator returns a negative constant under Index(n1) < Index(n2)
					for _, cb := range f.Blocks {
						rt, ok := cb.Instrs[len(cb.Instrs)-1].(*ssa.Return)
						if !ok || len(rt.Results) != 1 {
							continue
						}
						if cst, ok := constInt(rt.Results[0]); ok && cst < 0 {
							for _, cf := range dominatingConds(cb) {
								if bo, ok := cf.If.Cond.(*ssa.BinOp); ok && cf.Truth && bo.Op == token.LSS {
									_, ok1 := isFieldLoad(bo.X, fnT, "Index")
									_, ok2 := isFieldLoad(bo.Y, fnT, "Index")
									if ok1 && ok2 {
										sorted = true
										sortBlocks = append(sortBlocks, b)
									}
								}
							}
						}
					}
				}
			}
		}
	}
	// the sort is not optional: it lies on every path that attaches the list to the document (an AppendChild on the
	// Document parameter)
	skipped := ""
	if sorted {
		var doc ssa.Value
		for _, p := range tf.Params {
			if strings.HasSuffix(typeShort(p.Type()), "ast.Document") {
				doc = p
			}
		}
		for _, b := range tf.Blocks {
			for _, ins := range b.Instrs {
				c, ok := ins.(ssa.CallInstruction)
				if !ok || doc == nil {
					continue
				}
				name := ""
				if c.Common().IsInvoke() {
					name = c.Common().Method.Name()
				} else if cal := c.Common().StaticCallee(); cal != nil {
					name = cal.Name()
				}
				if name != "AppendChild" {
					continue
				}
				onDoc := false
				for _, a := range c.Common().Args {
					if stripMakeIface(a) == doc {
						onDoc = true
					}
				}
				if c.Common().IsInvoke() && stripMakeIface(c.Common().Value) == doc {
					onDoc = true
				}
				if !onDoc {
					continue
				}
				dom := false
				for _, sb := range sortBlocks {
					if sb == b || sb.Dominates(b) {
						dom = true
					}
				}
				if !dom {
					skipped = w.InstrPos(ins)
				}
			}
		}
	}
	if sorted && skipped != "" {
		r.Bad(key+": list ordered by Index", skipped, "the list is attached to the document on a path that skips the sort by Index: the sort is conditional, so for some documents items are listed in definition order while numbered in reference order")
	} else if sorted {
		r.OK(key+": list ordered by Index", w.FnPos(tf), "SortChildren with a comparator returning <0 under Index(a) < Index(b)")
	} else {
		r.Bad(key+": list ordered by Index", w.FnPos(tf), "the footnote list is not sorted by a comparator on Index: items are listed in definition order while numbered in reference order")
	}

	r.Rule("C16-B", "In the AST transformer every FootnoteBacklink is constructed with the footnote's own Index; the first one gets RefIndex 0 and the others are created in a loop i = 1 … while i < refCount with RefIndex = i, where refCount is the counter map's entry for that Index — the same map in which each reference (FootnoteLink) was counted by its Index, and each reference's RefIndex is the running count of earlier references with the same Index.")
	// back-links: constructor arg is the footnote's Index; RefIndex stores are 0 or the loop counter bounded by refCount
	nBack := 0
	okBack := true
	why := ""
	// a creation: where it happens in the transformer, the index handed to the constructor and the value stored as RefIndex
	type creation struct {
		at       ssa.Instruction
		index    ssa.Value
		refIndex ssa.Value
		ctorBlk  *ssa.BasicBlock           // the block of the constructor call (in the transformer or in a helper)
		subst    func(ssa.Value) ssa.Value // helper parameters -> the transformer's call arguments
	}
	var creations []creation
	singleLoop := false
	refIndexOf := func(c *ssa.Call) ssa.Value {
		var out ssa.Value
		for _, ref := range referrersOf(c) {
			fa, ok := ref.(*ssa.FieldAddr)
			if !ok {
				continue
			}
			_, f := fieldOfAddr(fa)
			if f == nil || f.Name() != "RefIndex" {
				continue
			}
			for _, r2 := range referrersOf(fa) {
				if st, ok := r2.(*ssa.Store); ok {
					out = st.Val
				}
			}
		}
		return out
	}
	for f, calls := range ctorIn {
		for _, c := range calls {
			if len(c.Common().Args) != 1 {
				okBack, why = false, "unexpected constructor arguments"
				continue
			}
			idx, ri := c.Common().Args[0], refIndexOf(c)
			if f == tf {
				creations = append(creations, creation{c, idx, ri, c.Block(), func(v ssa.Value) ssa.Value { return v }})
				continue
			}
			// helper: substitute its parameters by the transformer's call arguments
			for _, b := range tf.Blocks {
				for _, ins := range b.Instrs {
					cc, ok := ins.(*ssa.Call)
					if !ok || cc.Common().StaticCallee() != f {
						continue
					}
					subst := func(v ssa.Value) ssa.Value {
						if v == nil {
							return nil
						}
						if p, ok := stripConv(v).(*ssa.Parameter); ok {
							if k := paramIndex(f, p); k >= 0 && k < len(cc.Common().Args) {
								return cc.Common().Args[k]
							}
						}
						return v
					}
					if _, fromCaller := stripConv(ri).(*ssa.Parameter); fromCaller {
						// the RefIndex is handed in: it is judged where the transformer computes it
						creations = append(creations, creation{cc, subst(idx), subst(ri), cc.Block(), func(v ssa.Value) ssa.Value { return v }})
					} else {
						creations = append(creations, creation{cc, subst(idx), ri, c.Block(), subst})
					}
				}
			}
		}
	}
	sort.Slice(creations, func(i, j int) bool { return creations[i].at.Pos() < creations[j].at.Pos() })
	for _, cr := range creations {
		nBack++
		if _, ok := isFieldLoad(cr.index, fnT, "Index"); !ok {
			okBack, why = false, "a back-link is constructed with an index that is not the footnote's Index"
		}
		if cr.refIndex == nil {
			okBack, why = false, "a back-link's RefIndex is never set"
			continue
		}
		if cst, ok := constInt(cr.refIndex); ok && cst == 0 {
			continue
		}
		phi, isPhi := stripConv(cr.refIndex).(*ssa.Phi)
		if !isPhi {
			okBack, why = false, "a back-link's RefIndex is neither 0 nor the loop counter"
			continue
		}
		// loop counter bounded by i < refCount (a Lookup in the counter map, possibly handed to a helper, possibly raised to
		// at least 1), starting at 1 after an explicit first back-link with RefIndex 0 — or starting at 0 in a single loop
		var isRefCount func(v ssa.Value, d int) bool
		isRefCount = func(v ssa.Value, d int) bool {
			v = stripConv(v)
			if _, isLk := v.(*ssa.Lookup); isLk {
				return true
			}
			if _, isLk := stripConv(cr.subst(v)).(*ssa.Lookup); isLk {
				return true
			}
			if ph, ok := v.(*ssa.Phi); ok && d < 3 {
				some := false
				for _, e := range ph.Edges {
					if c, isC := constInt(e); isC && c == 1 {
						continue
					}
					if !isRefCount(e, d+1) {
						return false
					}
					some = true
				}
				return some
			}
			return false
		}
		bounded := false
		for _, cf := range dominatingConds(cr.ctorBlk) {
			if impliesLess(cf.If.Cond, cf.Truth, func(v ssa.Value) bool { return v == ssa.Value(phi) }, func(v ssa.Value) bool { return isRefCount(v, 0) }) {
				bounded = true
			}
		}
		start1, start0 := false, false
		for _, e := range phi.Edges {
			if cst, ok := constInt(e); ok && cst == 1 {
				start1 = true
			}
			if cst, ok := constInt(e); ok && cst == 0 {
				start0 = true
			}
		}
		if bounded && start0 {
			singleLoop = true // numbers 0 … refCount-1 in one loop
		}
		if !bounded || !(start1 || start0) {
			okBack, why = false, "the additional back-links are not numbered 1 … refCount-1"
		}
	}
	if (nBack >= 2 || singleLoop) && okBack {
		r.OK(key+": back-links numbered 0..refCount-1", w.FnPos(tf), fmt.Sprintf("%d construction sites", nBack))
	} else {
		r.Bad(key+": back-links numbered 0..refCount-1", w.FnPos(tf), fmt.Sprintf("%d construction sites; %s", nBack, why))
	}
	// references: RefIndex = running count (load of map[Index] before increment), RefCount = counter[Index]
	nRef := 0
	okRef := false
	mapTwice := ""
	for _, st := range w.storesToField(linkT, "RefIndex") {
		if isCtor(st.Parent()) {
			continue
		}
		nRef++
		if st.Parent() != tf {
			// the numbering pass extracted into a helper the transformer calls
			called := false
			for _, b := range tf.Blocks {
				for _, ins := range b.Instrs {
					if c, ok := ins.(*ssa.Call); ok && c.Common().StaticCallee() == st.Parent() {
						called = true
					}
				}
			}
			if !called {
				continue
			}
		}
		if lk, ok := stripConv(st.Val).(*ssa.Lookup); ok {
			if _, ok := isFieldLoad(lk.Index, linkT, "Index"); ok {
				// followed by an increment of the same map entry
				for _, ins := range st.Block().Instrs {
					if mu, ok := ins.(*ssa.MapUpdate); ok && mu.Map == lk.X {
						if bo, ok := mu.Value.(*ssa.BinOp); ok && bo.Op == token.ADD {
							if c, ok := constInt(bo.Y); ok && c == 1 {
								okRef = true
								// one table per document: the map the running counts live in is made once per Transform — not
								// inside a loop, and not in a helper that the transformer calls more than once
								if mk, isMk := throughCell(lk.X).(*ssa.MakeMap); isMk {
									fnMk := mk.Parent()
									loops, _ := naturalLoops(fnMk)
									for _, l := range loops {
										if l.body[mk.Block()] {
											mapTwice = "the table of running counts is allocated inside a loop (" + w.InstrPos(mk) + ")"
										}
									}
									if fnMk != tf {
										calls := 0
										tl, _ := naturalLoops(tf)
										for _, b := range tf.Blocks {
											for _, ins := range b.Instrs {
												if c, ok := ins.(*ssa.Call); ok && c.Common().StaticCallee() == fnMk {
													calls++
													for _, l := range tl {
														if l.body[b] {
															calls++
														}
													}
												}
											}
										}
										if calls > 1 {
											mapTwice = fmt.Sprintf("the table of running counts is allocated in %s, which the transformer calls %d times (or in a loop): each call starts counting at 0 again", w.FnKey(fnMk), calls)
										}
									}
								}
							}
						}
					}
				}
			}
		}
	}
	if nRef == 1 && okRef && mapTwice != "" {
		r.Bad(key+": references numbered by a running count per Index", w.FnPos(tf), mapTwice+": two references to the same footnote get the same ordinal, so their ids collide and back-links point at ids that do not exist")
	} else if nRef == 1 && okRef {
		r.OK(key+": references numbered by a running count per Index", w.FnPos(tf), "RefIndex = seen[Index]; seen[Index]++")
	} else {
		r.Bad(key+": references numbered by a running count per Index", w.FnPos(tf), fmt.Sprintf("%d stores to FootnoteLink.RefIndex; running-count discipline recognised: %v", nRef, okRef))
	}
}

// ---- stale cursor: iterate-and-remove ---------------------------------------------------------------------

type staleCursor struct {
	loop   *natLoop
	detach ssa.Instruction
	step   *ssa.Call
}

// staleCursorLoops finds loops over siblings whose cursor c is advanced by c.NextSibling() evaluated after a call
// in the same iteration that may detach c (RemoveChild(…, c), ReplaceChild(…, c, …), or c handed to AppendChild /
// InsertBefore / InsertAfter of any node as the node to insert). RemoveChild clears the sibling links of the removed
// node, so the loop silently stops after the first such iteration.
func staleCursorLoops(fn *ssa.Function) []staleCursor {
	var out []staleCursor
	loops, _ := naturalLoops(fn)
	for _, l := range loops {
		for _, ins := range l.header.Instrs {
			phi, ok := ins.(*ssa.Phi)
			if !ok {
				break
			}
			if _, isI := phi.Type().Underlying().(*types.Interface); !isI {
				continue
			}
			// the step: a back-edge operand that is c.NextSibling() on the phi itself (or on a type-asserted copy of it)
			for i, e := range phi.Edges {
				if !l.body[l.header.Preds[i]] {
					continue
				}
				step, ok := e.(*ssa.Call)
				if !ok || !step.Common().IsInvoke() || step.Common().Method.Name() != "NextSibling" || step.Common().Value != ssa.Value(phi) {
					continue
				}
				// detaching calls on the cursor in the body that can execute before the step
				for b := range l.body {
					for _, di := range b.Instrs {
						c, ok := di.(ssa.CallInstruction)
						if !ok || di == ssa.Instruction(step) {
							continue
						}
						com := c.Common()
						name := ""
						var args []ssa.Value
						if com.IsInvoke() {
							name, args = com.Method.Name(), com.Args
						} else if cal := com.StaticCallee(); cal != nil && cal.Signature.Recv() != nil {
							name, args = cal.Name(), com.Args[1:]
						}
						isCursor := func(v ssa.Value) bool {
							v = stripIfaceConv(v)
							if v == ssa.Value(phi) {
								return true
							}
							if ta, ok := v.(*ssa.TypeAssert); ok && ta.X == ssa.Value(phi) {
								return true
							}
							if ex, ok := v.(*ssa.Extract); ok {
								if ta, ok := ex.Tuple.(*ssa.TypeAssert); ok && ta.X == ssa.Value(phi) && ex.Index == 0 {
									return true
								}
							}
							return false
						}
						detaches := false
						switch name {
						case "RemoveChild":
							detaches = len(args) == 2 && isCursor(args[1])
						case "ReplaceChild":
							detaches = len(args) == 3 && isCursor(args[1])
						case "AppendChild":
							detaches = len(args) == 2 && isCursor(args[1])
						case "InsertBefore", "InsertAfter":
							detaches = len(args) == 3 && isCursor(args[2])
						}
						if !detaches {
							continue
						}
						if reachesWithin(di, step, l) {
							out = append(out, staleCursor{l, di, step})
						}
					}
				}
			}
		}
	}
	return out
}

// reachesWithin: b can execute after a in the same iteration (without passing the loop header).
func reachesWithin(a, b ssa.Instruction, l *natLoop) bool {
	if a.Block() == b.Block() && instrIndex(a) < instrIndex(b) {
		return true
	}
	seen := map[*ssa.BasicBlock]bool{}
	var stack []*ssa.BasicBlock
	for _, s := range a.Block().Succs {
		if s != l.header && l.body[s] {
			stack = append(stack, s)
		}
	}
	for len(stack) > 0 {
		x := stack[len(stack)-1]
		stack = stack[:len(stack)-1]
		if seen[x] {
			continue
		}
		seen[x] = true
		if x == b.Block() {
			return true
		}
		for _, s := range x.Succs {
			if s != l.header && l.body[s] {
				stack = append(stack, s)
			}
		}
	}
	return false
}

// ruleIterationSafety reports stale-cursor loops in the functions of the given source file suffixes.
func ruleIterationSafety(id string, scope func(*World, *ssa.Function) bool, min int) func(*World, *Report) {
	return func(w *World, r *Report) {
		r.Rule(id, "Iterate-and-remove: in the functions this property depends on, no loop over sibling nodes advances its cursor c with c.NextSibling() after a call in the same iteration that may detach c (RemoveChild/ReplaceChild of c, or c inserted elsewhere). RemoveChild clears the removed node's sibling links, so such a loop silently stops after the first removal and the remaining nodes are neither removed nor processed. (The accepted idiom reads next := c.NextSibling() before the call.)")
		n := 0
		for _, fn := range w.Funcs {
			if !scope(w, fn) {
				continue
			}
			loops, _ := naturalLoops(fn)
			sib := 0
			for _, l := range loops {
				for _, ins := range l.header.Instrs {
					if phi, ok := ins.(*ssa.Phi); ok {
						if _, isI := phi.Type().Underlying().(*types.Interface); isI {
							sib++
						}
					}
				}
			}
			if sib == 0 {
				continue
			}
			n += sib
			bad := staleCursorLoops(fn)
			key := w.FnKey(fn) + ": sibling loops"
			if len(bad) == 0 {
				r.OK(key, w.FnPos(fn), fmt.Sprintf("%d loop cursor(s); none is advanced through a node detached in the same iteration", sib))
			}
			for _, sc := range bad {
				r.Bad(key, w.InstrPos(sc.step), fmt.Sprintf("the cursor is advanced with NextSibling() at %s after the call at %s detached it in the same iteration: the loop ends after the first such node", w.InstrPos(sc.step), w.InstrPos(sc.detach)))
			}
		}
		r.Expect("loops over sibling nodes in scope", n, min)
	}
}

func inSourceFile(w *World, fn *ssa.Function, suffix string) bool {
	for f := fn; f != nil; f = f.Parent() {
		if f.Pos().IsValid() {
			return strings.HasSuffix(w.Fset.Position(f.Pos()).Filename, suffix)
		}
	}
	return false
}

// ---- C16-A: numbering a definition and producing its reference are one step ------------------------------

func ruleNumberedMeansReferenced(w *World, r *Report) {
	r.Rule("C16-A", "In the function that assigns Footnote.Index (the inline parser), every return that can be reached after the assignment returns a non-nil FootnoteLink: a definition is never numbered (and therefore kept and given a back-link) without a reference node being produced for it in the same call.")
	fnT := w.Named("extension/ast", "Footnote")
	linkT := w.Named("extension/ast", "FootnoteLink")
	if fnT == nil || linkT == nil {
		r.Unknown("footnote AST types", "", "not found")
		return
	}
	n := 0
	type anchor struct {
		fn *ssa.Function
		at ssa.Instruction
	}
	var anchors []anchor
	for _, st := range w.storesToField(fnT, "Index") {
		fn := st.Parent()
		if fn.Pkg != nil && fn.Pkg.Pkg == w.TPkg("extension/ast") {
			continue
		}
		// a numbering step extracted into a helper that hands back the number (an integer result): the obligation
		// moves to every call site of the helper — the caller must produce the reference node after the call
		if res := fn.Signature.Results(); res.Len() == 1 && isInteger(res.At(0).Type()) {
			moved := false
			for _, caller := range w.CG().In[fn] {
				if !w.InModule(caller) {
					continue
				}
				for _, b := range caller.Blocks {
					for _, ins := range b.Instrs {
						if c, ok := ins.(*ssa.Call); ok && c.Common().StaticCallee() == fn {
							anchors = append(anchors, anchor{caller, c})
							moved = true
						}
					}
				}
			}
			if moved {
				continue
			}
		}
		anchors = append(anchors, anchor{fn, st})
	}
	for _, an := range anchors {
		fn, st := an.fn, an.at
		n++
		key := w.FnKey(fn) + ": returns after numbering"
		bad := ""
		nRet := 0
		for _, b := range fn.Blocks {
			rt, ok := b.Instrs[len(b.Instrs)-1].(*ssa.Return)
			if !ok || len(rt.Results) == 0 || !reachesInstr(st, rt) {
				continue
			}
			nRet++
			for _, leaf := range phiLeaves(rt.Results[0]) {
				v := stripIfaceConv(leaf)
				nt := namedOf(v.Type())
				if isNilConst(leaf) || isNilConst(v) || nt == nil || nt.Obj() != linkT.Obj() {
					// a nil return after numbering is acceptable only if it cannot follow the store on any path:
					// approximate by dominance — the return block must not be reachable from the store without
					// passing a block that re-tests "index == 0" false … keep it simple: flag unless guarded by index != 0 facts
					guarded := false
					for _, cf := range dominatingConds(b) {
						for _, a := range condAtoms(cf.If.Cond, cf.Truth) {
							if bo, ok := a.V.(*ssa.BinOp); ok {
								if c, ok := constInt(bo.Y); ok && c == 0 && bo.Op == token.EQL && a.Truth {
									guarded = true // index == 0: nothing was found, hence nothing numbered on this path
								}
							}
						}
					}
					if !guarded && bad == "" {
						bad = w.InstrPos(rt)
					}
				}
			}
		}
		if bad == "" && nRet > 0 {
			r.OK(key, w.InstrPos(st), fmt.Sprintf("%d reachable return(s): each returns the reference node (or is the 'no definition found' exit)", nRet))
		} else if nRet == 0 {
			r.Unknown(key, w.InstrPos(st), "no return reachable from the assignment")
		} else {
			r.Bad(key, bad, "after a definition has been numbered, this return hands back no reference node: the definition is kept and gets a back-link to a reference that does not exist")
		}
	}
	r.Expect("functions assigning Footnote.Index", n, 1)
}

// ---- stale cursor over a hand-linked list (field links) ---------------------------------------------------------

// storesParamField reports whether fn (or a module function it hands the parameter to, up to depth 3) stores into
// field `field` of its j-th parameter.
func (w *World) storesParamField(fn *ssa.Function, j int, field *types.Var, depth int) bool {
	if fn == nil || len(fn.Blocks) == 0 || j >= len(fn.Params) || depth > 3 {
		return false
	}
	p := fn.Params[j]
	for _, b := range fn.Blocks {
		for _, ins := range b.Instrs {
			switch x := ins.(type) {
			case *ssa.Store:
				if fa, ok := x.Addr.(*ssa.FieldAddr); ok && fa.X == ssa.Value(p) {
					if _, f := fieldOfAddr(fa); f == field {
						return true
					}
				}
			case ssa.CallInstruction:
				cal := x.Common().StaticCallee()
				if cal == nil || !w.InModule(cal) {
					continue
				}
				for k, a := range x.Common().Args {
					if a == ssa.Value(p) && w.storesParamField(cal, k, field, depth+1) {
						return true
					}
				}
			}
		}
	}
	return false
}

type staleFieldCursor struct {
	step   ssa.Instruction
	call   ssa.Instruction
	field  string
	callee string
}

// staleFieldCursorLoops: loops whose cursor c (pointer to a struct) is advanced by reading the link field c.F after a
// call in the same iteration that hands c to a module function which stores into that very field of its parameter
// (an unlink helper). The loop then follows the link the helper has just overwritten.
func (w *World) staleFieldCursorLoops(fn *ssa.Function) (cursors int, out []staleFieldCursor) {
	loops, _ := naturalLoops(fn)
	for _, l := range loops {
		for _, ins := range l.header.Instrs {
			phi, ok := ins.(*ssa.Phi)
			if !ok {
				break
			}
			pt, ok := phi.Type().Underlying().(*types.Pointer)
			if !ok {
				continue
			}
			if _, ok := pt.Elem().Underlying().(*types.Struct); !ok {
				continue
			}
			for i, e := range phi.Edges {
				if !l.body[l.header.Preds[i]] {
					continue
				}
				ld, ok := e.(*ssa.UnOp)
				if !ok || ld.Op != token.MUL {
					continue
				}
				fa, ok := ld.X.(*ssa.FieldAddr)
				if !ok || fa.X != ssa.Value(phi) {
					continue
				}
				_, field := fieldOfAddr(fa)
				cursors++
				for b := range l.body {
					for _, di := range b.Instrs {
						c, ok := di.(ssa.CallInstruction)
						if !ok {
							continue
						}
						cal := c.Common().StaticCallee()
						if cal == nil || !w.InModule(cal) {
							continue
						}
						for k, a := range c.Common().Args {
							if a == ssa.Value(phi) && w.storesParamField(cal, k, field, 0) && reachesWithin(di, ld, l) {
								out = append(out, staleFieldCursor{ld, di, field.Name(), cal.Name()})
							}
						}
					}
				}
			}
		}
	}
	return
}

// ruleStaleCursorModule (C05-I): the iterate-and-unlink discipline for the whole module — node sibling cursors and
// cursors over hand-linked bookkeeping lists (link-label states, delimiters).
func ruleStaleCursorModule(w *World, r *Report) {
	r.Rule("C05-I", "Iterate-and-unlink: no loop advances its cursor through a link that a call earlier in the same iteration has overwritten — (a) in packages parser and ast (the core tree builders; the footnote and table extensions are covered by C16-I/C17-I), c = c.NextSibling() after a call that detaches the node c (RemoveChild/ReplaceChild/AppendChild/Insert* of c: the removed node's sibling links are cleared), (b) module-wide, c = c.F for a link field F after c was handed to a module function that stores into F of that parameter (an unlink helper such as the link-label-state remover). Such a loop stops after its first element: the remaining bookkeeping nodes (bracket states, delimiters) stay in the tree Parse returns, or the remaining siblings are never processed.")
	nNode, nField := 0, 0
	for _, fn := range w.Funcs {
		if fn.Synthetic != "" {
			continue
		}
		key := w.FnKey(fn)
		loops, _ := naturalLoops(fn)
		sib := 0
		for _, l := range loops {
			for _, ins := range l.header.Instrs {
				if phi, ok := ins.(*ssa.Phi); ok {
					if _, isI := phi.Type().Underlying().(*types.Interface); isI {
						for i, e := range phi.Edges {
							if c, ok := e.(*ssa.Call); ok && l.body[l.header.Preds[i]] && c.Common().IsInvoke() && c.Common().Method.Name() == "NextSibling" && c.Common().Value == ssa.Value(phi) {
								sib++
							}
						}
					}
				}
			}
		}
		if pk := w.PkgOf(fn); sib > 0 && (pk == modPath+"/parser" || pk == modPath+"/ast") {
			nNode += sib
			bad := staleCursorLoops(fn)
			if len(bad) == 0 {
				r.OK(key+": sibling cursors", w.FnPos(fn), fmt.Sprintf("%d cursor(s) advanced by NextSibling(); none after a detaching call on the cursor", sib))
			}
			for _, sc := range bad {
				r.Bad(key+": sibling cursor advanced after detach", w.InstrPos(sc.step), fmt.Sprintf("the cursor is advanced with NextSibling() after the call at %s detached it in the same iteration: the loop ends after the first such node", w.InstrPos(sc.detach)))
			}
		}
		nf, badf := w.staleFieldCursorLoops(fn)
		if nf > 0 {
			nField += nf
			if len(badf) == 0 {
				r.OK(key+": link-field cursors", w.FnPos(fn), fmt.Sprintf("%d cursor(s) advanced by a link field; none after an unlinking call on the cursor", nf))
			}
			for _, sc := range badf {
				r.Bad(key+": link-field cursor advanced after unlink", w.InstrPos(sc.step), fmt.Sprintf("the cursor is advanced by reading its field %s after the call of %s at %s, which stores into that field of the cursor: the loop follows the overwritten link", sc.field, sc.callee, w.InstrPos(sc.call)))
			}
		}
	}
	r.Expect("sibling cursors advanced by NextSibling() in parser and ast", nNode, 8)
	r.Expect("cursors advanced by a link field", nField, 3)
}

// ---- C16-U: one reference numbers at most one definition --------------------------------------------------------

func ruleOneDefinitionPerReference(w *World, r *Report) {
	r.Rule("C16-U", "The store that numbers a definition (Footnote.Index, outside constructors) lies in no natural loop of its function: once the scan over the definitions has found the label it ends (the block of the store cannot reach the loop's back edge). Otherwise one reference numbers every definition carrying that label; the duplicates are kept and rendered with back-links to a reference that points elsewhere.")
	fnT := w.Named("extension/ast", "Footnote")
	if fnT == nil {
		r.Unknown("extension/ast.Footnote", "", "not found")
		return
	}
	n := 0
	for _, st := range w.storesToField(fnT, "Index") {
		fn := st.Parent()
		if fn.Pkg != nil && fn.Pkg.Pkg == w.TPkg("extension/ast") {
			continue
		}
		n++
		key := w.FnKey(fn) + ": numbering store outside every loop body"
		loops, _ := naturalLoops(fn)
		in := false
		for _, l := range loops {
			if l.body[st.Block()] {
				in = true
			}
		}
		if in {
			r.Bad(key, w.InstrPos(st), "the numbering store can execute again in the same call (its block reaches the back edge of the scan loop): one reference numbers several definitions with the same label")
		} else {
			r.OK(key, w.InstrPos(st), "the scan leaves the loop after numbering")
		}
	}
	r.Expect("numbering stores", n, 1)
}

// ---- C16-L ---------------------------------------------------------------------------------------------------

// ruleReturnedReferenceRegistered: every reference node the inline parser hands to the tree is also entered into the
// per-document list from which reference ids (RefIndex) and back-links are computed.
func ruleReturnedReferenceRegistered(w *World, r *Report) {
	r.Rule("C16-L", "In every function that returns a newly built FootnoteLink (the footnote inline parser), each return of it is dominated by a context Set under the link-list key (the accumulator the AST transformer consumes) whose value is an append of that very node. A reference that reaches the tree without being registered is rendered with RefIndex 0 — the same id as the first registered reference of that footnote — and gets no back-link: ids collide and references and back-links no longer correspond.")
	linkT := w.Named("extension/ast", "FootnoteLink")
	if linkT == nil {
		r.Unknown("extension/ast.FootnoteLink", "", "not found")
		return
	}
	n := 0
	for _, fn := range w.Funcs {
		if w.PkgOf(fn) != modPath+"/extension" || fn.Parent() != nil {
			continue
		}
		for _, b := range fn.Blocks {
			ret, ok := b.Instrs[len(b.Instrs)-1].(*ssa.Return)
			if !ok || len(ret.Results) == 0 {
				continue
			}
			for _, leaf := range phiLeaves(ret.Results[0]) {
				v := stripIfaceConv(leaf)
				c, isCall := v.(*ssa.Call)
				if !isCall {
					continue
				}
				nt := namedOf(c.Type())
				if nt == nil || nt.Obj() != linkT.Obj() || c.Parent() != fn {
					continue
				}
				n++
				key := fmt.Sprintf("%s: returned reference is registered", w.FnKey(fn))
				registered := false
				for _, bb := range fn.Blocks {
					for _, ins := range bb.Instrs {
						sc, ok := ins.(ssa.CallInstruction)
						if !ok {
							continue
						}
						g, op := ctxKeyOf(sc)
						if g == nil || op != "Set" {
							continue
						}
						ap, ok := stripMakeIface(sc.Common().Args[1]).(*ssa.Call)
						if !ok || builtinName(ap.Common()) != "append" || len(ap.Common().Args) != 2 {
							continue
						}
						// append(list, node...) : the variadic slice holds the node
						holds := false
						operandsClosure(ap.Common().Args[1], func(x ssa.Value) bool {
							if al, ok := x.(*ssa.Alloc); ok {
								for _, ref := range referrersOf(al) {
									if ia, ok := ref.(*ssa.IndexAddr); ok {
										for _, r2 := range referrersOf(ia) {
											if st, ok := r2.(*ssa.Store); ok && st.Val == ssa.Value(c) {
												holds = true
											}
										}
									}
								}
							}
							return !holds
						})
						if holds && (bb == b || bb.Dominates(b)) {
							registered = true
						}
					}
				}
				// or through a helper that registers its parameter on every path
				for _, bb := range fn.Blocks {
					for _, ins := range bb.Instrs {
						hc, ok := ins.(*ssa.Call)
						if !ok || !(bb == b || bb.Dominates(b)) {
							continue
						}
						cal := hc.Common().StaticCallee()
						if cal == nil || !w.InModule(cal) {
							continue
						}
						for ai, a := range hc.Common().Args {
							if a == ssa.Value(c) && ai < len(cal.Params) && w.registersFootnoteLinkParam(cal, ai) {
								registered = true
							}
						}
					}
				}
				if registered {
					r.OK(key, w.InstrPos(ret), "dominated by Set(key, append(list, node))")
				} else {
					r.Bad(key, w.InstrPos(ret), "a FootnoteLink is returned (and so attached to the tree) on a path that does not enter it into the per-document link list")
				}
			}
		}
	}
	r.Expect("returns of a new FootnoteLink", n, 1)
}

// registersFootnoteLinkParam: every return of fn is dominated by a context Set whose value is an append of the idx-th
// parameter (the registration step extracted into a helper).
func (w *World) registersFootnoteLinkParam(fn *ssa.Function, idx int) bool {
	if fn.Blocks == nil || idx >= len(fn.Params) {
		return false
	}
	p := ssa.Value(fn.Params[idx])
	var regBlocks []*ssa.BasicBlock
	for _, bb := range fn.Blocks {
		for _, ins := range bb.Instrs {
			sc, ok := ins.(ssa.CallInstruction)
			if !ok {
				continue
			}
			g, op := ctxKeyOf(sc)
			if g == nil || op != "Set" {
				continue
			}
			ap, ok := stripMakeIface(sc.Common().Args[1]).(*ssa.Call)
			if !ok || builtinName(ap.Common()) != "append" || len(ap.Common().Args) != 2 {
				continue
			}
			holds := false
			operandsClosure(ap.Common().Args[1], func(x ssa.Value) bool {
				if al, ok := x.(*ssa.Alloc); ok {
					for _, ref := range referrersOf(al) {
						if ia, ok := ref.(*ssa.IndexAddr); ok {
							for _, r2 := range referrersOf(ia) {
								if st, ok := r2.(*ssa.Store); ok && st.Val == p {
									holds = true
								}
							}
						}
					}
				}
				return !holds
			})
			if holds {
				regBlocks = append(regBlocks, bb)
			}
		}
	}
	if len(regBlocks) == 0 {
		return false
	}
	for _, b := range fn.Blocks {
		if _, ok := b.Instrs[len(b.Instrs)-1].(*ssa.Return); !ok {
			continue
		}
		dom := false
		for _, rb := range regBlocks {
			if rb == b || rb.Dominates(b) {
				dom = true
			}
		}
		if !dom {
			return false
		}
	}
	return true
}
