package main

// rules_c20.go — C20: registered components are applied strictly by priority.

import (
	"fmt"
	"go/token"
	"go/types"
	"sort"
	"strings"

	"golang.org/x/tools/go/ssa"
)

func init() {
	register(&Property{
		ID:      "C20",
		Level:   "other",
		Explain: "Decides the structural conditions under which priority alone determines the order: (D) the renderer's dispatch indexes its kind table only under a bounds test and calls the function only when non-nil, otherwise continues the walk; (S) in the parser's and renderer's one-time initialisers every prioritized slice is sorted by a call that dominates the loop consuming it; (C) the sort comparator is ascending on Priority; (R) node renderers are registered in descending slice order into an overwriting table (or ascending into a first-wins table), so the smallest priority value wins; (F) trigger-less block parsers enter the trigger-indexed lists only in a dedicated pass after all block parsers have been added, so they come after the triggered ones, and openBlocks walks the chosen list in ascending index order. Does NOT decide stability among equal priorities (excluded by the statement) or what custom components do.",
		Trusted: []string{"sort.Slice sorts according to the less function"},
		Assumes: []string{"distinct priorities (statement)"},
		Rules:   []func(*World, *Report){ruleTolerantDispatch, ruleSortBeforeBuild, ruleComparator, ruleRegistrationOrder, ruleFreeParsersLast, ruleDecliningParserRestored},
	})
}

// lessFact: does the fact (cond == truth) imply a < b ?
func impliesLess(cond ssa.Value, truth bool, isA, isB func(ssa.Value) bool) bool {
	for _, at := range condAtoms(cond, truth) {
		bo, ok := at.V.(*ssa.BinOp)
		if !ok {
			continue
		}
		x, y := stripConv(bo.X), stripConv(bo.Y)
		switch {
		case bo.Op == token.LSS && at.Truth && isA(x) && isB(y):
			return true
		case bo.Op == token.GTR && at.Truth && isA(y) && isB(x):
			return true
		case bo.Op == token.GEQ && !at.Truth && isA(x) && isB(y):
			return true
		case bo.Op == token.LEQ && !at.Truth && isA(y) && isB(x):
			return true
		}
	}
	return false
}

// walkerClosures: closures passed to ast.Walk inside Render implementations.
func (w *World) renderWalkers() []*ssa.Function {
	var out []*ssa.Function
	walk := w.PkgFunc("ast", "Walk")
	for _, rf := range w.Entries().Render {
		for _, b := range rf.Blocks {
			for _, ins := range b.Instrs {
				c, ok := ins.(*ssa.Call)
				if !ok || c.Common().StaticCallee() != walk || walk == nil {
					continue
				}
				for _, a := range c.Common().Args {
					for _, f := range funcValues(stripChangeType(a)) {
						out = append(out, w.followDelegate(w.unwrapBound(f))) // a method value (pass.visit) is analysed as the method
					}
				}
			}
		}
	}
	return out
}

// followDelegate: a function that consists of one block ending in "return g(...)" with g a function of this module is
// analysed as g (a closure that only forwards to a method).
func (w *World) followDelegate(f *ssa.Function) *ssa.Function {
	for depth := 0; depth < 4; depth++ {
		if f == nil || len(f.Blocks) != 1 {
			return f
		}
		b := f.Blocks[0]
		ret, ok := b.Instrs[len(b.Instrs)-1].(*ssa.Return)
		if !ok || len(ret.Results) == 0 {
			return f
		}
		var call *ssa.Call
		for _, ins := range b.Instrs {
			if c, ok := ins.(*ssa.Call); ok {
				if call != nil {
					return f
				}
				call = c
			}
		}
		if call == nil {
			return f
		}
		g := call.Common().StaticCallee()
		if g == nil || !w.InModule(g) || len(g.Blocks) == 0 {
			return f
		}
		for i, rv := range ret.Results {
			if len(ret.Results) == 1 {
				if rv != ssa.Value(call) {
					return f
				}
				continue
			}
			ex, ok := rv.(*ssa.Extract)
			if !ok || ex.Tuple != ssa.Value(call) || ex.Index != i {
				return f
			}
		}
		f = g
	}
	return f
}

func stripChangeType(v ssa.Value) ssa.Value {
	if ct, ok := v.(*ssa.ChangeType); ok {
		return ct.X
	}
	return v
}

// loadOfField: v is a load of a field with the given type predicate; returns the FieldAddr.
func loadOfField(v ssa.Value) (*ssa.FieldAddr, bool) {
	u, ok := v.(*ssa.UnOp)
	if !ok || u.Op != token.MUL {
		return nil, false
	}
	fa, ok := u.X.(*ssa.FieldAddr)
	return fa, ok
}

func ruleTolerantDispatch(w *World, r *Report) {
	r.Rule("C20-D", "In Render's walker the index into the kind-indexed function table is dominated by a comparison index < len(table) (normalised), the indirect call is dominated by f != nil, and a node without a function continues the walk (status WalkContinue, nil error).")
	ws := w.renderWalkers()
	r.Expect("walker closures in Render", len(ws), 1)
	for _, fn := range ws {
		key := w.FnKey(fn)
		nIdx := 0
		for _, b := range fn.Blocks {
			for _, ins := range b.Instrs {
				ia, ok := ins.(*ssa.IndexAddr)
				if !ok {
					continue
				}
				tblFA, ok := loadOfField(ia.X)
				if !ok {
					continue
				}
				sl, ok := ia.X.Type().Underlying().(*types.Slice)
				if !ok {
					continue
				}
				if _, isFn := sl.Elem().Underlying().(*types.Signature); !isFn {
					continue
				}
				nIdx++
				idx := stripConv(ia.Index)
				guarded := false
				for _, cf := range dominatingConds(b) {
					if impliesLess(cf.If.Cond, cf.Truth,
						func(v ssa.Value) bool { return sameValueLoose(v, idx) },
						func(v ssa.Value) bool {
							c, ok := v.(*ssa.Call)
							if !ok || builtinName(c.Common()) != "len" {
								return false
							}
							fa, ok := loadOfField(c.Common().Args[0])
							return ok && sameAddr(fa, tblFA)
						}) {
						guarded = true
					}
				}
				if guarded {
					r.OK(key+": table index", w.InstrPos(ins), "index is dominated by index < len(table)")
				} else {
					r.Bad(key+": table index", w.InstrPos(ins), "the kind-indexed table is indexed without a bounds test: a node kind larger than the table panics instead of being skipped")
				}
			}
		}
		r.Expect("indexings of the function table in "+key, nIdx, 1)
		// dynamic call of a NodeRendererFunc value dominated by != nil
		nCall := 0
		for _, b := range fn.Blocks {
			for _, ins := range b.Instrs {
				c, ok := ins.(*ssa.Call)
				if !ok || c.Common().IsInvoke() || c.Common().StaticCallee() != nil || builtinName(c.Common()) != "" {
					continue
				}
				nCall++
				f := c.Common().Value
				guarded := false
				for _, cf := range dominatingConds(b) {
					for _, a := range condAtoms(cf.If.Cond, cf.Truth) {
						if x, isNil, ok := nilTest(a.V); ok && x == f && isNil != a.Truth {
							guarded = true
						}
					}
				}
				if guarded {
					r.OK(key+": call of the node function", w.InstrPos(ins), "dominated by f != nil")
				} else {
					r.Bad(key+": call of the node function", w.InstrPos(ins), "the looked-up function is called without a nil test: a kind without renderer panics")
				}
			}
		}
		r.Expect("dynamic calls in "+key, nCall, 1)
		// the no-function path returns (WalkContinue, nil)
		wc := w.Obj("ast", "WalkContinue")
		var wcVal int64 = -1
		if c, ok := wc.(*types.Const); ok {
			wcVal, _ = constIntVal(c)
		}
		okRet := false
		for _, b := range fn.Blocks {
			ret, ok := b.Instrs[len(b.Instrs)-1].(*ssa.Return)
			if !ok || len(ret.Results) != 2 {
				continue
			}
			for _, leaf := range phiLeaves(ret.Results[0]) {
				if v, ok := constInt(leaf); ok && v == wcVal {
					okRet = true
				}
			}
		}
		if okRet {
			r.OK(key+": default status", w.FnPos(fn), "status defaults to WalkContinue when no function is called")
		} else {
			r.Bad(key+": default status", w.FnPos(fn), "no path returns WalkContinue for a node without renderer function")
		}
	}
}

func constIntVal(c *types.Const) (int64, bool) {
	v := c.Val()
	if v == nil {
		return 0, false
	}
	return int64FromConst(v)
}

func phiLeaves(v ssa.Value) []ssa.Value {
	var out []ssa.Value
	seen := map[ssa.Value]bool{}
	var rec func(v ssa.Value)
	rec = func(v ssa.Value) {
		if seen[v] {
			return
		}
		seen[v] = true
		switch x := v.(type) {
		case *ssa.Phi:
			for _, e := range x.Edges {
				rec(e)
			}
		case *ssa.ChangeType:
			rec(x.X)
		case *ssa.Convert:
			rec(x.X)
		default:
			out = append(out, v)
		}
	}
	rec(v)
	return out
}

// sameValueLoose: structural equality that also equates two loads of the same address in different blocks.
func sameValueLoose(a, b ssa.Value) bool {
	a, b = stripConv(a), stripConv(b)
	if sameValue(a, b) {
		return true
	}
	ua, ok1 := a.(*ssa.UnOp)
	ub, ok2 := b.(*ssa.UnOp)
	if ok1 && ok2 && ua.Op == token.MUL && ub.Op == token.MUL {
		return sameAddr(ua.X, ub.X)
	}
	ca, ok1 := a.(*ssa.Call)
	cb, ok2 := b.(*ssa.Call)
	if ok1 && ok2 {
		// same pure accessor on the same receiver, e.g. n.Kind()
		if ca.Common().IsInvoke() && cb.Common().IsInvoke() && ca.Common().Method == cb.Common().Method && ca.Common().Value == cb.Common().Value && len(ca.Common().Args) == 0 {
			return true
		}
	}
	return false
}

// ---- C20-S -------------------------------------------------------------------------------------

func ruleSortBeforeBuild(w *World, r *Report) {
	r.Rule("C20-S", "In every Once-closure of Parse and Render, each loop that consumes a field of type util.PrioritizedSlice is dominated by a call of PrioritizedSlice.Sort on the same field.")
	ps := w.Named("util", "PrioritizedSlice")
	sortFn := w.DeclaredMethod(ps, "Sort")
	if ps == nil || sortFn == nil {
		r.Unknown("util.PrioritizedSlice.Sort", "", "not found")
		return
	}
	n := 0
	e := w.Entries()
	hosts := map[*ssa.Function]bool{}
	for _, f := range append(append([]*ssa.Function{}, e.Parse...), e.Render...) {
		hosts[f] = true
	}
	var ocs []*ssa.Function
	for oc, call := range w.CG().OnceClosures {
		if hosts[call.Parent()] {
			ocs = append(ocs, oc)
		}
	}
	sort.Slice(ocs, func(i, j int) bool { return ocs[i].String() < ocs[j].String() })
	for _, oc := range ocs {
		// consumers: loads of PrioritizedSlice fields used for len()/indexing (range loops)
		type use struct {
			fa  *ssa.FieldAddr
			ins ssa.Instruction
		}
		var sorts, uses []use
		for _, b := range oc.Blocks {
			for _, ins := range b.Instrs {
				u, ok := ins.(*ssa.UnOp)
				if !ok || u.Op != token.MUL {
					continue
				}
				fa, ok := u.X.(*ssa.FieldAddr)
				if !ok || !types.Identical(u.Type(), ps) {
					continue
				}
				for _, ref := range liveRefs(u) {
					if c, ok := ref.(ssa.CallInstruction); ok && c.Common().StaticCallee() == sortFn {
						sorts = append(sorts, use{fa, ref})
						continue
					}
					uses = append(uses, use{fa, ref})
				}
			}
		}
		seen := map[string]bool{}
		for _, u := range uses {
			_, f := fieldOfAddr(u.fa)
			key := fmt.Sprintf("%s: consumes %s", w.FnKey(oc), f.Name())
			if seen[key] {
				continue
			}
			seen[key] = true
			n++
			ok := false
			for _, s := range sorts {
				if sameAddr(s.fa, u.fa) {
					// the sort must dominate every use of this field
					all := true
					for _, u2 := range uses {
						if sameAddr(u2.fa, u.fa) && !instrDominates(s.ins, u2.ins) {
							all = false
						}
					}
					if all {
						ok = true
					}
				}
			}
			if ok {
				r.OK(key, w.InstrPos(u.ins), "Sort() on the same field dominates every use")
			} else {
				r.Bad(key, w.InstrPos(u.ins), "the prioritized slice is consumed without a dominating Sort(): registration order, not priority, decides")
			}
		}
	}
	r.Expect("prioritized slices consumed in initialisers", n, 2)
}

// ---- C20-C -----------------------------------------------------------------------------------------

func ruleComparator(w *World, r *Report) {
	r.Rule("C20-C", "PrioritizedSlice.Sort sorts the receiver ascending by Priority: either sort.Slice/SliceStable with a less function that returns s[i].Priority < s[j].Priority (normalised), or slices.SortFunc/SortStableFunc with a three-way comparator that is cmp.Compare(a.Priority, b.Priority) or returns a negative constant exactly under a.Priority < b.Priority and a positive one exactly under a.Priority > b.Priority. A comparator that subtracts the priorities is reported: the difference overflows for priorities far apart (a 'first of all' priority such as math.MinInt then sorts last).")
	ps := w.Named("util", "PrioritizedSlice")
	sortFn := w.DeclaredMethod(ps, "Sort")
	if sortFn == nil {
		r.Unknown("util.PrioritizedSlice.Sort", "", "not found")
		return
	}
	var less *ssa.Function
	usesSort, threeWay := false, false
	for _, b := range sortFn.Blocks {
		for _, ins := range b.Instrs {
			c, ok := ins.(*ssa.Call)
			if !ok {
				continue
			}
			cal := c.Common().StaticCallee()
			if cal == nil {
				continue
			}
			name := cal.String()
			isLess := name == "sort.Slice" || name == "sort.SliceStable"
			isCmp := strings.HasPrefix(name, "slices.SortFunc") || strings.HasPrefix(name, "slices.SortStableFunc")
			if !isLess && !isCmp {
				continue
			}
			usesSort, threeWay = true, isCmp
			if sl := throughCell(stripConv(stripChangeType(stripMakeIface(c.Common().Args[0])))); sl != ssa.Value(sortFn.Params[0]) {
				r.Bad("PrioritizedSlice.Sort: sorted value", w.InstrPos(ins), "sorts something other than the receiver")
			}
			for _, f := range funcValues(c.Common().Args[1]) {
				less = w.unwrapBound(f) // a method value (s.less) is analysed as the method itself
			}
		}
	}
	if !usesSort || less == nil || len(less.Params) < 2 {
		r.Unknown("PrioritizedSlice.Sort", w.FnPos(sortFn), "no sort.Slice / slices.SortFunc call with a comparator closure found")
		return
	}
	pa, pb := less.Params[len(less.Params)-2], less.Params[len(less.Params)-1]
	// prioOf: v is the Priority of the element denoted by parameter p (an index into the receiver, or the element value)
	prioOf := func(v ssa.Value, p *ssa.Parameter) bool {
		v = stripConv(v)
		if f, ok := v.(*ssa.Field); ok {
			if st, ok := f.X.Type().Underlying().(*types.Struct); ok && st.Field(f.Field).Name() == "Priority" {
				return f.X == ssa.Value(p)
			}
			return false
		}
		u, ok := v.(*ssa.UnOp)
		if !ok || u.Op != token.MUL {
			return false
		}
		fa, ok := u.X.(*ssa.FieldAddr)
		if !ok {
			return false
		}
		_, f := fieldOfAddr(fa)
		if f.Name() != "Priority" {
			return false
		}
		if ia, ok := fa.X.(*ssa.IndexAddr); ok {
			return ia.Index == ssa.Value(p)
		}
		if al, ok := fa.X.(*ssa.Alloc); ok { // a struct parameter spilled to a local
			for _, ref := range referrersOf(al) {
				if st, ok := ref.(*ssa.Store); ok && st.Addr == ssa.Value(al) && st.Val == ssa.Value(p) {
					return true
				}
			}
		}
		return false
	}
	// ordering facts established by a condition: +1 means a.Priority < b.Priority, -1 means a.Priority > b.Priority
	factOf := func(cond ssa.Value, truth bool) int {
		bo, ok := cond.(*ssa.BinOp)
		if !ok {
			return 0
		}
		dir := 0
		switch {
		case prioOf(bo.X, pa) && prioOf(bo.Y, pb):
			dir = 1
		case prioOf(bo.X, pb) && prioOf(bo.Y, pa):
			dir = -1
		default:
			return 0
		}
		switch bo.Op {
		case token.LSS:
			if truth {
				return dir
			}
		case token.GTR:
			if truth {
				return -dir
			}
		case token.GEQ:
			if !truth {
				return dir
			}
		case token.LEQ:
			if !truth {
				return -dir
			}
		}
		return 0
	}
	verdict, why := "", ""
	nRet := 0
	for _, b := range less.Blocks {
		ret, isRet := b.Instrs[len(b.Instrs)-1].(*ssa.Return)
		if !isRet || len(ret.Results) != 1 {
			continue
		}
		for _, leaf := range phiLeaves(ret.Results[0]) {
			nRet++
			if !threeWay {
				bo, isB := leaf.(*ssa.BinOp)
				if isB && ((bo.Op == token.LSS && prioOf(bo.X, pa) && prioOf(bo.Y, pb)) || (bo.Op == token.GTR && prioOf(bo.X, pb) && prioOf(bo.Y, pa))) {
					continue
				}
				verdict, why = "bad", "the less function is not s[i].Priority < s[j].Priority: the slice is not sorted ascending by priority"
				continue
			}
			switch x := stripConv(leaf).(type) {
			case *ssa.BinOp:
				if x.Op == token.SUB && ((prioOf(x.X, pa) && prioOf(x.Y, pb)) || (prioOf(x.X, pb) && prioOf(x.Y, pa))) {
					verdict, why = "bad", "the comparator returns the difference of the two priorities: it overflows when they are more than MaxInt apart, so a priority such as math.MinInt sorts after ordinary ones"
					continue
				}
				verdict, why = "bad", "the comparator's result is not an ordering of the priorities"
			case *ssa.Call:
				cal := x.Common().StaticCallee()
				if cal != nil && strings.HasPrefix(cal.String(), "cmp.Compare") && len(x.Common().Args) == 2 {
					if prioOf(x.Common().Args[0], pa) && prioOf(x.Common().Args[1], pb) {
						continue
					}
					verdict, why = "bad", "cmp.Compare is not applied to (a.Priority, b.Priority): descending or unrelated order"
					continue
				}
				if verdict == "" {
					verdict, why = "unknown", "the comparator returns the result of a call this rule does not know"
				}
			case *ssa.Const:
				c, _ := constInt(x)
				if c == 0 {
					continue
				}
				// the sign must agree with a dominating ordering fact (of the block the constant flows from)
				want := 1
				if c > 0 {
					want = -1
				}
				okC := false
				blocks := []*ssa.BasicBlock{b}
				if phi, isPhi := ret.Results[0].(*ssa.Phi); isPhi {
					blocks = nil
					for pi, e := range phi.Edges {
						if e == leaf {
							blocks = append(blocks, phi.Block().Preds[pi])
						}
					}
				}
				for _, bb := range blocks {
					for _, cf := range dominatingConds(bb) {
						if factOf(cf.If.Cond, cf.Truth) == want {
							okC = true
						}
					}
					// the edge pred -> phi block itself
					if iff, isIf := bb.Instrs[len(bb.Instrs)-1].(*ssa.If); isIf && len(blocks) == 1 {
						_ = iff
					}
				}
				if !okC {
					verdict, why = "bad", fmt.Sprintf("the comparator returns %d on a path that has not established the matching order of the two priorities", c)
				}
			default:
				if verdict == "" {
					verdict, why = "unknown", "the comparator's result is not recognised"
				}
			}
		}
	}
	switch {
	case nRet == 0:
		r.Unknown("PrioritizedSlice.Sort: comparator", w.FnPos(less), "no return found")
	case verdict == "bad":
		r.Bad("PrioritizedSlice.Sort: comparator", w.FnPos(less), why)
	case verdict == "unknown":
		r.Unknown("PrioritizedSlice.Sort: comparator", w.FnPos(less), why)
	default:
		r.OK("PrioritizedSlice.Sort: comparator", w.FnPos(less), "ascending by Priority")
	}
}

// ---- C20-R ---------------------------------------------------------------------------------------

func ruleRegistrationOrder(w *World, r *Report) {
	r.Rule("C20-R", "Node renderers are registered so that the smallest priority value wins: the registration loop runs from len-1 down to 0 and Register overwrites the table entry (or it runs ascending and Register keeps the first entry).")
	for _, oc := range w.renderOnceClosures() {
		key := w.FnKey(oc)
		var regCall ssa.Instruction
		for _, b := range oc.Blocks {
			for _, ins := range b.Instrs {
				if c, ok := ins.(ssa.CallInstruction); ok && c.Common().IsInvoke() && c.Common().Method.Name() == "RegisterFuncs" {
					regCall = ins
				}
			}
		}
		if regCall == nil {
			// the per-renderer step extracted into a method: the call of that method stands for the registration
			for _, b := range oc.Blocks {
				for _, ins := range b.Instrs {
					c, ok := ins.(*ssa.Call)
					if !ok {
						continue
					}
					cal := c.Common().StaticCallee()
					if cal == nil || !w.InModule(cal) || cal.Blocks == nil {
						continue
					}
					for _, hb := range cal.Blocks {
						for _, hi := range hb.Instrs {
							if hc, ok := hi.(ssa.CallInstruction); ok && hc.Common().IsInvoke() && hc.Common().Method.Name() == "RegisterFuncs" {
								regCall = ins
							}
						}
					}
				}
			}
		}
		if regCall == nil {
			r.Unknown(key, w.FnPos(oc), "RegisterFuncs call not found")
			continue
		}
		var loop *Loop
		loops := findLoops(oc)
		for i := range loops {
			if loops[i].Body[regCall.Block()] && (loop == nil || len(loops[i].Body) > len(loop.Body)) {
				loop = &loops[i]
			}
		}
		if loop == nil {
			r.Unknown(key, w.InstrPos(regCall), "RegisterFuncs is not inside a loop")
			continue
		}
		dir := loopDirection(loop)
		overwrite, why := w.registerOverwrites()
		switch {
		case dir == "descending" && overwrite:
			r.OK(key+": registration order", w.InstrPos(regCall), "descending loop into an overwriting table: the smallest priority is written last ("+why+")")
		case dir == "ascending" && !overwrite && why != "":
			r.OK(key+": registration order", w.InstrPos(regCall), "ascending loop into a first-wins table ("+why+")")
		case dir == "":
			r.Unknown(key+": registration order", w.InstrPos(regCall), "cannot determine the direction of the registration loop")
		default:
			r.Bad(key+": registration order", w.InstrPos(regCall), fmt.Sprintf("registration loop is %s and Register %s: the largest priority value would win for a shared kind", dir, map[bool]string{true: "overwrites", false: "keeps the first entry"}[overwrite]))
		}
	}
}

// loopDirection inspects the integer header phis: init len-1 & step -1 => descending; init 0/-1 & step +1 => ascending.
func loopDirection(l *Loop) string {
	for _, ins := range l.Header.Instrs {
		ph, ok := ins.(*ssa.Phi)
		if !ok {
			break
		}
		if !isInteger(ph.Type()) {
			continue
		}
		step := int64(0)
		var init ssa.Value
		for i, p := range l.Header.Preds {
			e := ph.Edges[i]
			if l.Body[p] {
				if bo, ok := e.(*ssa.BinOp); ok && bo.X == ssa.Value(ph) {
					if c, ok := constInt(bo.Y); ok {
						if bo.Op == token.ADD {
							step = c
						} else if bo.Op == token.SUB {
							step = -c
						}
					}
				}
			} else {
				init = e
			}
		}
		if step == -1 {
			if bo, ok := init.(*ssa.BinOp); ok && bo.Op == token.SUB {
				if c, ok := constInt(bo.Y); ok && c == 1 {
					if call, ok := bo.X.(*ssa.Call); ok && builtinName(call.Common()) == "len" {
						return "descending"
					}
				}
			}
		}
		if step == 1 {
			if c, ok := constInt(init); ok && (c == 0 || c == -1) {
				return "ascending"
			}
		}
	}
	return ""
}

// registerOverwrites: the module's NodeRendererFuncRegisterer.Register stores unconditionally.
func (w *World) registerOverwrites() (bool, string) {
	it := w.Iface("renderer", "NodeRendererFuncRegisterer")
	for _, t := range w.Implementers(it) {
		m := w.MethodOf(t, "Register")
		if m == nil || !w.InModule(m) {
			continue
		}
		for _, b := range m.Blocks {
			for _, ins := range b.Instrs {
				mu, ok := ins.(*ssa.MapUpdate)
				if !ok {
					continue
				}
				if len(dominatingConds(b)) == 0 {
					return true, w.FnKey(m) + " updates the table unconditionally"
				}
				// guarded: first-wins only if guarded by a miss of the same key
				for _, cf := range dominatingConds(b) {
					if ex, ok := cf.If.Cond.(*ssa.Extract); ok && !cf.Truth {
						if lk, ok := ex.Tuple.(*ssa.Lookup); ok && lk.CommaOk && sameValue(lk.Index, mu.Key) {
							return false, w.FnKey(m) + " stores only when the kind has no entry yet"
						}
					}
				}
				return false, ""
			}
		}
	}
	return false, ""
}

// ---- C20-F ------------------------------------------------------------------------------------------

func ruleFreeParsersLast(w *World, r *Report) {
	r.Rule("C20-F", "Trigger-less block parsers are spread into the trigger-indexed lists only by a dedicated pass in Parse's Once-closure that runs after the loop adding all block parsers; the add function stores into the trigger table only on the path where the parser has triggers and never copies the trigger-less list; openBlocks walks the selected list in ascending index order.")
	parserT := w.Named("parser", "parser")
	var freeField, tableField *types.Var
	if parserT != nil {
		if st, ok := parserT.Underlying().(*types.Struct); ok {
			bp := w.Named("parser", "BlockParser")
			for i := 0; i < st.NumFields(); i++ {
				f := st.Field(i)
				if sl, ok := f.Type().Underlying().(*types.Slice); ok && bp != nil && types.Identical(sl.Elem(), bp) {
					freeField = f
				}
				if ar, ok := f.Type().Underlying().(*types.Array); ok {
					if sl, ok := ar.Elem().Underlying().(*types.Slice); ok && bp != nil && types.Identical(sl.Elem(), bp) {
						tableField = f
					}
				}
			}
		}
	}
	if freeField == nil || tableField == nil {
		r.Unknown("parser.parser fields", "", "could not identify the trigger table ([N][]BlockParser) and the trigger-less list ([]BlockParser)")
		return
	}
	isFieldLoad := func(v ssa.Value, f *types.Var) bool {
		fa, ok := loadOfField(v)
		if !ok {
			return false
		}
		_, g := fieldOfAddr(fa)
		return g == f
	}
	// all appends spreading the free list, all stores into the table
	type site struct {
		fn  *ssa.Function
		ins ssa.Instruction
	}
	var spreads, tableStores []site
	for _, fn := range w.Funcs {
		if w.PkgOf(fn) != modPath+"/parser" {
			continue
		}
		for _, b := range fn.Blocks {
			for _, ins := range b.Instrs {
				switch x := ins.(type) {
				case *ssa.Call:
					if builtinName(x.Common()) == "append" && len(x.Common().Args) == 2 && isFieldLoad(x.Common().Args[1], freeField) {
						spreads = append(spreads, site{fn, ins})
					}
					if builtinName(x.Common()) == "copy" && len(x.Common().Args) == 2 && isFieldLoad(x.Common().Args[1], freeField) {
						spreads = append(spreads, site{fn, ins})
					}
				case *ssa.Store:
					if ia, ok := x.Addr.(*ssa.IndexAddr); ok {
						if fa, ok := ia.X.(*ssa.FieldAddr); ok {
							if _, g := fieldOfAddr(fa); g == tableField {
								tableStores = append(tableStores, site{fn, ins})
							}
						}
					}
				}
			}
		}
	}
	r.Expect("spreads of the trigger-less list", len(spreads), 1)
	r.Expect("stores into the trigger table", len(tableStores), 1)
	var parseOnce *ssa.Function
	for oc, call := range w.CG().OnceClosures {
		for _, pf := range w.Entries().Parse {
			if call.Parent() == pf {
				parseOnce = oc
			}
		}
	}
	if parseOnce == nil {
		r.Unknown("Parse Once-closure", "", "not found")
		return
	}
	// the add loop: the loop in the Once-closure that calls a method storing into the table
	adders := map[*ssa.Function]bool{}
	for _, s := range tableStores {
		if s.fn != parseOnce {
			adders[s.fn] = true
		}
	}
	var addLoop *Loop
	loops := findLoops(parseOnce)
	for i := range loops {
		for b := range loops[i].Body {
			for _, ins := range b.Instrs {
				if c, ok := ins.(*ssa.Call); ok && adders[c.Common().StaticCallee()] {
					addLoop = &loops[i]
				}
			}
		}
	}
	if addLoop == nil {
		r.Unknown(w.FnKey(parseOnce)+": add loop", w.FnPos(parseOnce), "the loop adding block parsers was not found")
		return
	}
	for _, s := range spreads {
		key := w.FnKey(s.fn) + ": spread of " + freeField.Name()
		if s.fn != parseOnce {
			r.Bad(key, w.InstrPos(s.ins), "the trigger-less list is copied into a trigger list outside the dedicated pass: trigger-less parsers are merged by registration time instead of coming last")
			continue
		}
		if addLoop.Body[s.ins.Block()] || !addLoop.Header.Dominates(s.ins.Block()) {
			r.Bad(key, w.InstrPos(s.ins), "the pass spreading trigger-less parsers does not run after the loop that adds all block parsers")
		} else {
			r.OK(key, w.InstrPos(s.ins), "runs after the add loop (outside it and dominated by its header)")
		}
	}
	for _, s := range tableStores {
		if s.fn == parseOnce {
			continue
		}
		key := w.FnKey(s.fn) + ": store into " + tableField.Name()
		// must be on the has-triggers path: dominated by `tcs == nil` false edge (a nil test of a []byte value)
		ok := false
		for _, cf := range dominatingConds(s.ins.Block()) {
			for _, a := range condAtoms(cf.If.Cond, cf.Truth) {
				if x, isNil, isT := nilTest(a.V); isT && isNil != a.Truth && isByteSlice(x.Type()) {
					ok = true
				}
			}
		}
		// or inside a range over the trigger bytes (range over nil runs zero times)
		if !ok {
			for _, l := range findLoops(s.fn) {
				if !l.Body[s.ins.Block()] {
					continue
				}
				// the loop must be the range over the trigger bytes: its header compares against len(<[]byte>)
				if iff, isIf := l.Header.Instrs[len(l.Header.Instrs)-1].(*ssa.If); isIf {
					if bo, isB := iff.Cond.(*ssa.BinOp); isB {
						for _, side := range []ssa.Value{bo.X, bo.Y} {
							if c, isC := side.(*ssa.Call); isC && builtinName(c.Common()) == "len" && isByteSlice(c.Common().Args[0].Type()) {
								ok = true
							}
						}
					}
				}
			}
		}
		if ok {
			r.OK(key, w.InstrPos(s.ins), "only for parsers that have trigger bytes")
		} else {
			r.Bad(key, w.InstrPos(s.ins), "the add function stores into the trigger table for a parser without triggers")
		}
	}
	// openBlocks: ascending walk of the selected list
	nWalk := 0
	for _, fn := range w.Funcs {
		if w.PkgOf(fn) != modPath+"/parser" || fn.Signature.Recv() == nil || namedOf(fn.Signature.Recv().Type()) != parserT {
			continue
		}
		usesTable := false
		for _, b := range fn.Blocks {
			for _, ins := range b.Instrs {
				if fa, ok := ins.(*ssa.FieldAddr); ok {
					if _, g := fieldOfAddr(fa); g == tableField && fn != parseOnce.Parent() && !adders[fn] {
						usesTable = true
					}
				}
				// or through a selection helper of the same type (the lookup extracted into a method)
				if c, ok := ins.(*ssa.Call); ok && w.isBlockParserSelector(c.Common().StaticCallee(), tableField, freeField) {
					usesTable = true
				}
			}
		}
		if w.isBlockParserSelector(fn, tableField, freeField) {
			continue // the selector itself has no walk
		}
		if !usesTable {
			continue
		}
		for _, l := range findLoops(fn) {
			// loop whose body invokes Open
			opens := false
			for b := range l.Body {
				for _, ins := range b.Instrs {
					if c, ok := ins.(ssa.CallInstruction); ok && c.Common().IsInvoke() && c.Common().Method.Name() == "Open" {
						opens = true
					}
				}
			}
			if !opens {
				continue
			}
			if d := loopDirection(&l); d == "ascending" {
				nWalk++
				r.OK(w.FnKey(fn)+": walk of the selected parser list", w.FnPos(fn), "ascending index order")
				w.checkWalkNotBypassed(r, fn, &l, tableField)
			}
		}
	}
	r.Expect("ascending walks over the selected block-parser list", nWalk, 1)
}

// checkWalkNotBypassed: once a list has been looked up in the trigger table, the function does not leave for its exit
// without walking the selected list, except when that very list is nil. A shortcut that skips the trigger-less
// parsers when no triggered list exists ("this line can only continue the paragraph") takes away the turn of a
// trigger-less parser that may interrupt a paragraph.
func (w *World) checkWalkNotBypassed(r *Report, fn *ssa.Function, l *Loop, tableField *types.Var) {
	key := w.FnKey(fn) + ": the selected list is always walked"
	// the value the loop ranges over: len(x) in the loop's pre-header / header comparison
	var ranged ssa.Value
	if iff, ok := l.Header.Instrs[len(l.Header.Instrs)-1].(*ssa.If); ok {
		if bo, ok := iff.Cond.(*ssa.BinOp); ok {
			for _, side := range []ssa.Value{bo.X, bo.Y} {
				if c, ok := side.(*ssa.Call); ok && builtinName(c.Common()) == "len" {
					ranged = c.Common().Args[0]
				}
			}
		}
	}
	if ranged == nil {
		r.Unknown(key, w.FnPos(fn), "the list the walk ranges over was not identified")
		return
	}
	var loads []*ssa.BasicBlock
	for _, b := range fn.Blocks {
		for _, ins := range b.Instrs {
			if ia, ok := ins.(*ssa.IndexAddr); ok {
				if fa, ok := ia.X.(*ssa.FieldAddr); ok {
					if _, g := fieldOfAddr(fa); g == tableField {
						loads = append(loads, b)
					}
				}
			}
			if c, ok := ins.(*ssa.Call); ok && w.isBlockParserSelector(c.Common().StaticCallee(), tableField, nil) {
				loads = append(loads, b)
			}
		}
	}
	if len(loads) == 0 {
		r.Unknown(key, w.FnPos(fn), "no lookup in the trigger table found")
		return
	}
	bad := ""
	for _, t := range loads {
		seen := map[*ssa.BasicBlock]bool{}
		var dfs func(b *ssa.BasicBlock)
		dfs = func(b *ssa.BasicBlock) {
			if bad != "" || seen[b] || b == l.Header || l.Body[b] {
				return
			}
			seen[b] = true
			if isReturnBlock(b) {
				bad = w.InstrPos(b.Instrs[len(b.Instrs)-1])
				return
			}
			iff, isIf := b.Instrs[len(b.Instrs)-1].(*ssa.If)
			for i, s := range b.Succs {
				if isIf && len(b.Succs) == 2 {
					if x, isNil, isT := nilTest(iff.Cond); isT && x == ranged && (i == 0) == isNil {
						continue // the selected list itself is nil: nothing to walk
					}
				}
				dfs(s)
			}
		}
		// start after the lookup: the successors of the block (the lookup block itself may end in the nil test)
		iff, isIf := t.Instrs[len(t.Instrs)-1].(*ssa.If)
		for i, s := range t.Succs {
			if isIf && len(t.Succs) == 2 {
				if x, isNil, isT := nilTest(iff.Cond); isT && x == ranged && (i == 0) == isNil {
					continue
				}
			}
			dfs(s)
		}
	}
	if bad != "" {
		r.Bad(key, bad, "after looking a line's first byte up in the trigger table the function can reach its exit without walking the selected list although that list is not nil (or was not even selected): trigger-less parsers lose their turn on such lines")
	} else {
		r.OK(key, w.FnPos(fn), "from the table lookup every way to the exit passes the walk, except when the selected list is nil")
	}
}

var _ = strings.Join

// isBlockParserSelector: a method of the parser type that returns []BlockParser and whose every return value is the
// trigger-less list, or an entry of the trigger table returned under a dominating non-nil test of that entry (the
// "which parsers may open a block here" lookup extracted from the open loop). With freeField == nil only the shape
// "reads the table and returns []BlockParser" is required.
func (w *World) isBlockParserSelector(fn *ssa.Function, tableField, freeField *types.Var) bool {
	if fn == nil || fn.Blocks == nil || !w.InModule(fn) || fn.Signature.Results().Len() != 1 {
		return false
	}
	sl, ok := fn.Signature.Results().At(0).Type().Underlying().(*types.Slice)
	if !ok || typeShort(sl.Elem()) != "parser.BlockParser" {
		return false
	}
	reads := false
	for _, b := range fn.Blocks {
		for _, ins := range b.Instrs {
			if fa, ok := ins.(*ssa.FieldAddr); ok {
				if _, g := fieldOfAddr(fa); g == tableField {
					reads = true
				}
			}
		}
	}
	if !reads {
		return false
	}
	if freeField == nil {
		return true
	}
	for _, b := range fn.Blocks {
		ret, ok := b.Instrs[len(b.Instrs)-1].(*ssa.Return)
		if !ok {
			continue
		}
		for _, leaf := range phiLeaves(ret.Results[0]) {
			if fa, ok := loadOfField(leaf); ok {
				if _, g := fieldOfAddr(fa); g == freeField {
					continue
				}
			}
			// a table entry: must be known non-nil here
			nonNil := false
			for _, cf := range dominatingConds(b) {
				for _, a := range condAtoms(cf.If.Cond, cf.Truth) {
					if x, isNil, isT := nilTest(a.V); isT && isNil != a.Truth && x == leaf {
						nonNil = true
					}
				}
			}
			if !nonNil {
				return false
			}
		}
	}
	return true
}
