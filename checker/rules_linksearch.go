package main

// rules_linksearch.go — C05-N (also C01): the search that keeps links out of link text visits every descendant, and
// visits it once.

import (
	"fmt"
	"go/types"

	"golang.org/x/tools/go/ssa"
)

// isNextSiblingOf: v is x.NextSibling() for the given x.
func callOnNode(v ssa.Value, method string) (ssa.Value, bool) {
	c, ok := v.(*ssa.Call)
	if !ok {
		return nil, false
	}
	x, args, ok := methodCallOn(c, method)
	if !ok || len(args) != 0 {
		return nil, false
	}
	return x, true
}

func ruleLinkSearchComplete(w *World, r *Report) {
	r.Rule("C05-N", "The predicate that decides whether the text of a would-be link already contains a link (a bool function of package parser over an ast.Node that tests for *ast.Link) walks the sibling chain of its argument and, for every sibling that is not a link, descends into that sibling's children by calling itself on FirstChild(): (a) no cycle of the sibling loop can get back to the loop header without that call — a descent made only for listed node kinds (a type switch over Emphasis, Image) misses links inside containers of extensions (Strikethrough) and yields a link inside a link; (b) the call's argument is the FirstChild() value itself, never a cursor the caller also advances with NextSibling — the callee already walks the siblings, so calling it for every child re-scans each subtree once per preceding sibling, which is exponential in the nesting depth.")
	linkT := w.Named("ast", "Link")
	n := 0
	for _, fn := range w.Funcs {
		if fn.Pkg == nil || fn.Pkg.Pkg != w.TPkg("parser") || fn.Parent() != nil {
			continue
		}
		res := fn.Signature.Results()
		if res.Len() != 1 || !isBool(res.At(0).Type()) {
			continue
		}
		var nodeP *ssa.Parameter
		for _, p := range fn.Params {
			if typeShort(p.Type()) == "ast.Node" {
				nodeP = p
			}
		}
		if nodeP == nil || len(fn.Params) > 2 {
			continue
		}
		testsLink := false
		for _, b := range fn.Blocks {
			for _, ins := range b.Instrs {
				if ta, ok := ins.(*ssa.TypeAssert); ok && linkT != nil {
					if nt := namedOf(ta.AssertedType); nt != nil && nt.Obj() == linkT.Obj() {
						testsLink = true
					}
				}
			}
		}
		if !testsLink {
			continue
		}
		n++
		key := w.FnKey(fn)
		// the sibling loop: a header phi fed by the parameter and by NextSibling() of itself
		var loop *Loop
		var cursor *ssa.Phi
		for _, lp := range findLoops(fn) {
			lp := lp
			for _, ins := range lp.Header.Instrs {
				ph, ok := ins.(*ssa.Phi)
				if !ok {
					break
				}
				fromParam, advanced := false, false
				for _, e := range ph.Edges {
					if stripMakeIface(e) == ssa.Value(nodeP) {
						fromParam = true
					}
					if x, ok := callOnNode(e, "NextSibling"); ok && x == ssa.Value(ph) {
						advanced = true
					}
				}
				if fromParam && advanced {
					loop, cursor = &lp, ph
				}
			}
		}
		if loop == nil {
			r.Bad(key+": walks the sibling chain", w.FnPos(fn), "no loop from the argument along NextSibling() found: later siblings of the opener are not searched")
			continue
		}
		r.OK(key+": walks the sibling chain", w.FnPos(fn), "cursor starts at the argument and advances by NextSibling()")
		// descent calls
		descends := map[*ssa.BasicBlock]bool{}
		double := ""
		for b := range loop.Body {
			for _, ins := range b.Instrs {
				c, ok := ins.(*ssa.Call)
				if !ok || c.Common().StaticCallee() != fn {
					continue
				}
				arg := c.Common().Args[len(c.Common().Args)-1]
				if x, ok := callOnNode(arg, "FirstChild"); ok && x == ssa.Value(cursor) {
					descends[b] = true
					continue
				}
				if ph, ok := arg.(*ssa.Phi); ok {
					for _, e := range ph.Edges {
						if x, ok := callOnNode(e, "NextSibling"); ok && x == ssa.Value(ph) {
							double = w.InstrPos(c)
						}
					}
				}
			}
		}
		if double != "" {
			r.Bad(key+": each subtree searched once", double, "the function walks the siblings of its argument and is also called for every child from a loop that advances with NextSibling(): each subtree is scanned once per preceding sibling at every level (exponential in the nesting depth)")
		} else {
			r.OK(key+": each subtree searched once", w.FnPos(fn), "recursive calls receive FirstChild() values only")
		}
		// (a) no cycle of the sibling loop avoids the descent
		seen := map[*ssa.BasicBlock]bool{}
		leak := false
		var dfs func(b *ssa.BasicBlock, first bool)
		dfs = func(b *ssa.BasicBlock, first bool) {
			if leak || !loop.Body[b] {
				return
			}
			if b == loop.Header && !first {
				leak = true
				return
			}
			if seen[b] {
				return
			}
			seen[b] = true
			if descends[b] {
				return
			}
			for _, s := range b.Succs {
				dfs(s, false)
			}
		}
		dfs(loop.Header, true)
		if leak || len(descends) == 0 {
			r.Bad(key+": descends into every sibling", w.FnPos(fn), "a sibling can be passed over without searching its children (the descent is missing or made only for some node kinds): a link nested in such a node is not found and ends up inside another link")
		} else {
			r.OK(key+": descends into every sibling", w.FnPos(fn), "every cycle of the sibling loop passes the call on FirstChild()")
		}
	}
	r.Expect("link-in-link search predicates", n, 1)
	_ = types.Typ
	_ = fmt.Sprint
}
