package main

// rules_linksearch.go — C05-N (also C01): the search that keeps links out of link text visits every descendant, and
// visits it once.

import (
	"fmt"
	"go/types"

	"golang.org/x/tools/go/ssa"
)

// isNextSiblingOf: v is x.NextSibling() for the given x.
func callOnNode(v ssa.Value, method string) (ssa.Value, bool) {
	c, ok := v.(*ssa.Call)
	if !ok {
		return nil, false
	}
	x, args, ok := methodCallOn(c, method)
	if !ok || len(args) != 0 {
		return nil, false
	}
	return x, true
}

func ruleLinkSearchComplete(w *World, r *Report) {
	r.Rule("C05-N", "The predicate that decides whether the text of a would-be link already contains a link (a bool function of package parser over an ast.Node that tests for *ast.Link) walks the sibling chain of its argument and, for every sibling that is not a link, descends into that sibling's children by calling itself on FirstChild(): (a) no cycle of the sibling loop can get back to the loop header without that call — a descent made only for listed node kinds (a type switch over Emphasis, Image) misses links inside containers of extensions (Strikethrough) and yields a link inside a link; (b) the call's argument is the FirstChild() value itself, never a cursor the caller also advances with NextSibling — the callee already walks the siblings, so calling it for every child re-scans each subtree once per preceding sibling, which is exponential in the nesting depth.")
	linkT := w.Named("ast", "Link")
	n := 0
	for _, fn := range w.Funcs {
		if fn.Pkg == nil || fn.Pkg.Pkg != w.TPkg("parser") || fn.Parent() != nil {
			continue
		}
		res := fn.Signature.Results()
		if res.Len() != 1 || !isBool(res.At(0).Type()) {
			continue
		}
		var nodeP *ssa.Parameter
		for _, p := range fn.Params {
			if typeShort(p.Type()) == "ast.Node" {
				nodeP = p
			}
		}
		if nodeP == nil || len(fn.Params) > 2 {
			continue
		}
		testsLink := false
		for _, b := range fn.Blocks {
			for _, ins := range b.Instrs {
				if ta, ok := ins.(*ssa.TypeAssert); ok && linkT != nil {
					if nt := namedOf(ta.AssertedType); nt != nil && nt.Obj() == linkT.Obj() {
						testsLink = true
					}
				}
			}
		}
		if !testsLink {
			continue
		}
		n++
		key := w.FnKey(fn)
		// the sibling loop: a header phi fed by the parameter and by NextSibling() of itself
		var loop *Loop
		var cursor *ssa.Phi
		for _, lp := range findLoops(fn) {
			lp := lp
			for _, ins := range lp.Header.Instrs {
				ph, ok := ins.(*ssa.Phi)
				if !ok {
					break
				}
				fromParam, advanced := false, false
				for _, e := range ph.Edges {
					if stripMakeIface(e) == ssa.Value(nodeP) {
						fromParam = true
					}
					if x, ok := callOnNode(e, "NextSibling"); ok && x == ssa.Value(ph) {
						advanced = true
					}
				}
				if fromParam && advanced {
					loop, cursor = &lp, ph
				}
			}
		}
		if loop == nil {
			r.Bad(key+": walks the sibling chain", w.FnPos(fn), "no loop from the argument along NextSibling() found: later siblings of the opener are not searched")
			continue
		}
		r.OK(key+": walks the sibling chain", w.FnPos(fn), "cursor starts at the argument and advances by NextSibling()")
		// descent calls
		descends := map[*ssa.BasicBlock]bool{}
		double := ""
		for b := range loop.Body {
			for _, ins := range b.Instrs {
				c, ok := ins.(*ssa.Call)
				if !ok || c.Common().StaticCallee() != fn {
					continue
				}
				arg := c.Common().Args[len(c.Common().Args)-1]
				if x, ok := callOnNode(arg, "FirstChild"); ok && x == ssa.Value(cursor) {
					descends[b] = true
					continue
				}
				if ph, ok := arg.(*ssa.Phi); ok {
					for _, e := range ph.Edges {
						if x, ok := callOnNode(e, "NextSibling"); ok && x == ssa.Value(ph) {
							double = w.InstrPos(c)
						}
					}
				}
			}
		}
		if double != "" {
			r.Bad(key+": each subtree searched once", double, "the function walks the siblings of its argument and is also called for every child from a loop that advances with NextSibling(): each subtree is scanned once per preceding sibling at every level (exponential in the nesting depth)")
		} else {
			r.OK(key+": each subtree searched once", w.FnPos(fn), "recursive calls receive FirstChild() values only")
		}
		// (a) no cycle of the sibling loop avoids the descent
		seen := map[*ssa.BasicBlock]bool{}
		leak := false
		var dfs func(b *ssa.BasicBlock, first bool)
		dfs = func(b *ssa.BasicBlock, first bool) {
			if leak || !loop.Body[b] {
				return
			}
			if b == loop.Header && !first {
				leak = true
				return
			}
			if seen[b] {
				return
			}
			seen[b] = true
			if descends[b] {
				return
			}
			for _, s := range b.Succs {
				dfs(s, false)
			}
		}
		dfs(loop.Header, true)
		if leak || len(descends) == 0 {
			r.Bad(key+": descends into every sibling", w.FnPos(fn), "a sibling can be passed over without searching its children (the descent is missing or made only for some node kinds): a link nested in such a node is not found and ends up inside another link")
		} else {
			r.OK(key+": descends into every sibling", w.FnPos(fn), "every cycle of the sibling loop passes the call on FirstChild()")
		}
	}
	r.Expect("link-in-link search predicates", n, 1)
	_ = types.Typ
	_ = fmt.Sprint
}

// ---- C05-B -----------------------------------------------------------------------------------------------

// ruleUnlinkedOpenerLeavesTree: a bracket opener ('[' / '![' bookkeeping node) that has been taken off the pending list
// is also taken out of the tree before the function returns, on every path.
func ruleUnlinkedOpenerLeavesTree(w *World, r *Report) {
	r.Rule("C05-B", "Bracket openers are kept twice: as bookkeeping nodes in the tree and in a pending list in the parse context; the end-of-block sweep that turns leftovers into text walks the list only. Wherever the module takes an opener X off that list (a call of the function that unlinks its argument from the pending list, recognised by clearing the argument's own Next and Prev links), every path from that call to a return disposes of X in the tree as well — a call that takes X as the node to replace or remove (MergeOrReplaceTextSegment(_, X, …), ReplaceChild(_, X, _), RemoveChild(_, X)). Otherwise a bookkeeping node of a private kind survives into the parsed tree.")
	// the unlinking function: module function in package parser with a parameter of a type that embeds BaseInline and
	// has Prev/Next fields of its own pointer type, storing to those fields
	var unlinkers []*ssa.Function
	for _, fn := range w.Funcs {
		if w.PkgOf(fn) != modPath+"/parser" || fn.Parent() != nil || len(fn.Params) != 2 {
			continue
		}
		p := fn.Params[1]
		n := namedOf(p.Type())
		if n == nil {
			continue
		}
		st, ok := n.Underlying().(*types.Struct)
		if !ok {
			continue
		}
		hasPrev := false
		for i := 0; i < st.NumFields(); i++ {
			if st.Field(i).Name() == "Prev" && namedOf(st.Field(i).Type()) == n {
				hasPrev = true
			}
		}
		if !hasPrev {
			continue
		}
		// it clears the argument's own links: stores nil into both p.Next and p.Prev
		cleared := map[string]bool{}
		for _, b := range fn.Blocks {
			for _, ins := range b.Instrs {
				if s, ok := ins.(*ssa.Store); ok && isNilConst(s.Val) {
					if fa, ok := s.Addr.(*ssa.FieldAddr); ok && fa.X == ssa.Value(p) {
						if _, f := fieldOfAddr(fa); f != nil {
							cleared[f.Name()] = true
						}
					}
				}
			}
		}
		stores := cleared["Next"] && cleared["Prev"]
		if stores && fn.Signature.Results().Len() == 0 {
			unlinkers = append(unlinkers, fn)
		}
	}
	if len(unlinkers) == 0 {
		r.Unknown("function unlinking a bracket opener from the pending list", "", "not found")
		return
	}
	isUnlinker := func(f *ssa.Function) bool {
		for _, u := range unlinkers {
			if u == f {
				return true
			}
		}
		return false
	}
	n := 0
	for _, fn := range w.Funcs {
		if w.PkgOf(fn) != modPath+"/parser" {
			continue
		}
		for _, b := range fn.Blocks {
			for idx, ins := range b.Instrs {
				c, ok := ins.(*ssa.Call)
				if !ok || !isUnlinker(c.Common().StaticCallee()) {
					continue
				}
				n++
				x := nodeRoot(c.Common().Args[1])
				key := fmt.Sprintf("%s: unlinked opener %s leaves the tree", w.FnKey(fn), stableName(x))
				disposes := func(i ssa.Instruction) bool { return w.disposesNode(i, x, 0) }
				leak := ""
				seen := map[*ssa.BasicBlock]bool{}
				var dfs func(bb *ssa.BasicBlock, from int)
				dfs = func(bb *ssa.BasicBlock, from int) {
					if leak != "" {
						return
					}
					if from == 0 {
						if seen[bb] {
							return
						}
						seen[bb] = true
					}
					for _, i2 := range bb.Instrs[from:] {
						if disposes(i2) {
							return
						}
						if ret, ok := i2.(*ssa.Return); ok {
							leak = w.InstrPos(ret)
							return
						}
					}
					for _, s := range bb.Succs {
						dfs(s, 0)
					}
				}
				dfs(b, idx+1)
				if leak != "" {
					r.Bad(key, w.InstrPos(c), "the function can return ("+leak+") with the opener off the pending list but still in the tree: the end-of-block sweep will not find it")
				} else {
					r.OK(key, w.InstrPos(c), "every path to a return replaces or removes the node")
				}
			}
		}
	}
	r.Expect("calls unlinking a bracket opener", n, 1)
}

// disposesNode: the instruction takes node x out of the tree — directly (x is the node to replace/remove in
// MergeOrReplaceTextSegment / ReplaceChild / RemoveChild) or by handing x to a module function that does so with
// that parameter on every path to its returns (an extracted "give up this opener" helper).
func (w *World) disposesNode(i ssa.Instruction, x ssa.Value, depth int) bool {
	cc, ok := i.(ssa.CallInstruction)
	if !ok || depth > 3 {
		return false
	}
	com := cc.Common()
	var old ssa.Value
	switch callName(cc) {
	case "MergeOrReplaceTextSegment":
		if len(com.Args) >= 2 {
			old = com.Args[1]
		}
	case "ReplaceChild", "RemoveChild":
		args := com.Args
		if !com.IsInvoke() && len(args) > 0 {
			args = args[1:]
		}
		if len(args) >= 2 {
			old = args[1]
		}
	}
	if old != nil && nodeRoot(old) == x {
		return true
	}
	cal := com.StaticCallee()
	if cal == nil || !w.InModule(cal) || cal.Blocks == nil {
		return false
	}
	for ai, a := range com.Args {
		if nodeRoot(a) != x || ai >= len(cal.Params) {
			continue
		}
		p := ssa.Value(cal.Params[ai])
		// every path from the callee's entry to a return passes a disposing instruction on p
		leak := false
		seen := map[*ssa.BasicBlock]bool{}
		var dfs func(b *ssa.BasicBlock)
		dfs = func(b *ssa.BasicBlock) {
			if leak || seen[b] {
				return
			}
			seen[b] = true
			for _, in := range b.Instrs {
				if w.disposesNode(in, p, depth+1) {
					return
				}
				if _, isRet := in.(*ssa.Return); isRet {
					leak = true
					return
				}
			}
			for _, s := range b.Succs {
				dfs(s)
			}
		}
		dfs(cal.Blocks[0])
		if !leak {
			return true
		}
	}
	return false
}
