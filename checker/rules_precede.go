package main

// rules_precede.go — C08-P: the character in front of the cursor is only classified, never compared.

import (
	"fmt"
	"go/token"

	"golang.org/x/tools/go/ssa"
)

func rulePrecedingCharacterClassified(w *World, r *Report) {
	r.Rule("C08-P", "What Reader.PrecendingCharacter() returns flows only into character-class predicates (ScanDelimiter's flanking computation, unicode.IsSpace/IsPunct/IsLetter/IsDigit, util.Is…Rune) and is never compared for equality with a white-space constant ('\\n', '\\r', ' ', '\\t'), neither where it is obtained nor in a module function it is handed to. At the head of a continuation line the preceding character is a line break at the top level but the space of the '> ' marker inside a block quote: both are white space, so classification gives the same answer, while `before == '\\n'` tells them apart and makes the same content parse differently once it is quoted.")
	n := 0
	type item struct {
		fn *ssa.Function
		v  ssa.Value
	}
	var work []item
	for _, fn := range w.Funcs {
		for _, b := range fn.Blocks {
			for _, ins := range b.Instrs {
				if c, ok := ins.(*ssa.Call); ok && c.Common().IsInvoke() && c.Common().Method.Name() == "PrecendingCharacter" {
					if w.PkgOf(fn) == modPath+"/text" {
						continue // the readers' own implementations
					}
					n++
					work = append(work, item{fn, c})
				}
			}
		}
	}
	seen := map[ssa.Value]bool{}
	bad := 0
	for len(work) > 0 {
		it := work[len(work)-1]
		work = work[:len(work)-1]
		if seen[it.v] {
			continue
		}
		seen[it.v] = true
		for _, ref := range referrersOf(it.v) {
			switch x := ref.(type) {
			case *ssa.Convert:
				work = append(work, item{it.fn, x})
			case *ssa.ChangeType:
				work = append(work, item{it.fn, x})
			case *ssa.Phi:
				work = append(work, item{it.fn, x})
			case *ssa.BinOp:
				if x.Op != token.EQL && x.Op != token.NEQ {
					continue
				}
				other := x.X
				if other == it.v {
					other = x.Y
				}
				if cv, isC := constInt(other); isC && (cv == '\n' || cv == '\r' || cv == ' ' || cv == '\t') {
					bad++
					r.Bad(fmt.Sprintf("%s: preceding character compared with %s", w.FnKey(it.fn), shortVal(other)), w.InstrPos(x), "the character in front of the cursor is compared with a white-space constant instead of being classified: at the head of a line it is a line break at the top level and the marker's space inside a block quote")
				}
			case *ssa.Call:
				cal := x.Common().StaticCallee()
				if cal == nil || !w.InModule(cal) || cal.Blocks == nil {
					continue
				}
				for ai, a := range x.Common().Args {
					if a == it.v && ai < len(cal.Params) {
						work = append(work, item{cal, cal.Params[ai]})
					}
				}
			}
		}
	}
	r.Expect("callers of PrecendingCharacter outside package text", n, 2)
	if bad == 0 {
		r.OK("the preceding character is only classified", "", fmt.Sprintf("%d call sites followed through conversions, phis and module callees", n))
	}
}
