package main

// rules_dispatch.go — C20-I (also under C11): a declining inline parser leaves no trace for the next one.

import (
	"fmt"

	"golang.org/x/tools/go/ssa"
)

// ruleDecliningParserRestored: in the inline dispatch loop, between one call of InlineParser.Parse and the next call
// at the same site (the next parser registered for the trigger), the reader is put back with SetPosition.
func ruleDecliningParserRestored(w *World, r *Report) {
	r.Rule("C20-I", "Wherever the module calls InlineParser.Parse in a loop over the parsers registered for a trigger, every way, inside that loop, from the call back to the same call (the next parser in priority order) passes SetPosition on the same reader: a parser that advanced while scanning and then declined must not hand its position to the parser tried next (the lower-priority parser would start in the middle of the construct, and the skipped bytes vanish from the output).")
	ipI := w.Iface("parser", "InlineParser")
	n := 0
	for _, fn := range w.Funcs {
		for _, b := range fn.Blocks {
			for idx, ins := range b.Instrs {
				c, ok := ins.(*ssa.Call)
				if !ok || !c.Common().IsInvoke() || c.Common().Method.Name() != "Parse" || len(c.Common().Args) != 3 {
					continue
				}
				if it, ok := c.Common().Value.Type().Underlying().(interface{ NumMethods() int }); !ok || it == nil {
					continue
				}
				if ipI == nil || typeShort(c.Common().Value.Type()) != "parser.InlineParser" {
					continue
				}
				reader := stripMakeIface(c.Common().Args[1])
				// is the call inside a cycle at all?
				// the innermost loop containing the call: the loop over the parsers of one trigger
				var inner *Loop
				for _, lp := range findLoops(fn) {
					lp := lp
					if lp.Body[b] && (inner == nil || len(lp.Body) < len(inner.Body)) {
						inner = &lp
					}
				}
				if inner == nil {
					continue
				}
				n++
				key := fmt.Sprintf("%s: reader restored between consecutive InlineParser.Parse calls", w.FnKey(fn))
				restores := func(x ssa.Instruction) bool {
					cc, ok := x.(ssa.CallInstruction)
					if !ok {
						return false
					}
					com := cc.Common()
					if com.IsInvoke() && com.Method.Name() == "SetPosition" && sameValue(stripMakeIface(com.Value), reader) {
						return true
					}
					return false
				}
				// forward search from just after the call
				blocked := false
				for _, x := range b.Instrs[idx+1:] {
					if restores(x) {
						blocked = true
					}
				}
				reach := false
				if !blocked {
					seen := map[*ssa.BasicBlock]bool{}
					var dfs func(x *ssa.BasicBlock)
					dfs = func(x *ssa.BasicBlock) {
						if reach || seen[x] || !inner.Body[x] {
							return
						}
						seen[x] = true
						if x == b {
							// arrived at the call's block again: anything before the call in that block?
							for _, y := range x.Instrs[:idx] {
								if restores(y) {
									return
								}
							}
							reach = true
							return
						}
						for _, y := range x.Instrs {
							if restores(y) {
								return
							}
						}
						for _, s := range x.Succs {
							dfs(s)
						}
					}
					for _, s := range b.Succs {
						dfs(s)
					}
				}
				if reach {
					r.Bad(key, w.InstrPos(c), "the next parser for the same trigger can be called without the reader having been restored to the saved position")
				} else {
					r.OK(key, w.InstrPos(c), "every cycle back to the call passes SetPosition on the same reader")
				}
			}
		}
	}
	r.Expect("InlineParser.Parse call sites in a loop", n, 1)
}
