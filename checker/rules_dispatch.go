package main

// rules_dispatch.go — C20-I (also under C11): a declining inline parser leaves no trace for the next one.

import (
	"fmt"

	"golang.org/x/tools/go/ssa"
)

// ruleDecliningParserRestored: in the inline dispatch loop, between one call of InlineParser.Parse and the next call
// at the same site (the next parser registered for the trigger), the reader is put back with SetPosition.
func ruleDecliningParserRestored(w *World, r *Report) {
	r.Rule("C20-I", "Wherever the module calls InlineParser.Parse in a loop over the parsers registered for a trigger, every way, inside that loop, from the call back to the same call (the next parser in priority order) passes SetPosition on the same reader: a parser that advanced while scanning and then declined must not hand its position to the parser tried next (the lower-priority parser would start in the middle of the construct, and the skipped bytes vanish from the output).")
	ipI := w.Iface("parser", "InlineParser")
	n := 0
	for _, fn := range w.Funcs {
		for _, b := range fn.Blocks {
			for idx, ins := range b.Instrs {
				c, ok := ins.(*ssa.Call)
				if !ok || !c.Common().IsInvoke() || c.Common().Method.Name() != "Parse" || len(c.Common().Args) != 3 {
					continue
				}
				if it, ok := c.Common().Value.Type().Underlying().(interface{ NumMethods() int }); !ok || it == nil {
					continue
				}
				if ipI == nil || typeShort(c.Common().Value.Type()) != "parser.InlineParser" {
					continue
				}
				reader := stripMakeIface(c.Common().Args[1])
				// is the call inside a cycle at all?
				// the innermost loop containing the call: the loop over the parsers of one trigger
				var inner *Loop
				for _, lp := range findLoops(fn) {
					lp := lp
					if lp.Body[b] && (inner == nil || len(lp.Body) < len(inner.Body)) {
						inner = &lp
					}
				}
				if inner == nil {
					continue
				}
				n++
				key := fmt.Sprintf("%s: reader restored between consecutive InlineParser.Parse calls", w.FnKey(fn))
				restores := func(x ssa.Instruction) bool {
					cc, ok := x.(ssa.CallInstruction)
					if !ok {
						return false
					}
					com := cc.Common()
					if com.IsInvoke() && com.Method.Name() == "SetPosition" && sameValue(stripMakeIface(com.Value), reader) {
						return true
					}
					return false
				}
				// forward search from just after the call
				blocked := false
				for _, x := range b.Instrs[idx+1:] {
					if restores(x) {
						blocked = true
					}
				}
				reach := false
				if !blocked {
					seen := map[*ssa.BasicBlock]bool{}
					var dfs func(x *ssa.BasicBlock)
					dfs = func(x *ssa.BasicBlock) {
						if reach || seen[x] || !inner.Body[x] {
							return
						}
						seen[x] = true
						if x == b {
							// arrived at the call's block again: anything before the call in that block?
							for _, y := range x.Instrs[:idx] {
								if restores(y) {
									return
								}
							}
							reach = true
							return
						}
						for _, y := range x.Instrs {
							if restores(y) {
								return
							}
						}
						for _, s := range x.Succs {
							dfs(s)
						}
					}
					for _, s := range b.Succs {
						dfs(s)
					}
				}
				if reach {
					r.Bad(key, w.InstrPos(c), "the next parser for the same trigger can be called without the reader having been restored to the saved position")
				} else {
					r.OK(key, w.InstrPos(c), "every cycle back to the call passes SetPosition on the same reader")
				}
			}
		}
	}
	r.Expect("InlineParser.Parse call sites in a loop", n, 1)
}

// ---- C11-S ---------------------------------------------------------------------------------------------------

// reaches: is there a CFG path from block a (its end) to block b (its start)? a == b counts only through a cycle.
func blockReaches(a, b *ssa.BasicBlock) bool {
	seen := map[*ssa.BasicBlock]bool{}
	var dfs func(x *ssa.BasicBlock) bool
	dfs = func(x *ssa.BasicBlock) bool {
		if x == b {
			return true
		}
		if seen[x] {
			return false
		}
		seen[x] = true
		for _, s := range x.Succs {
			if dfs(s) {
				return true
			}
		}
		return false
	}
	for _, s := range a.Succs {
		if dfs(s) {
			return true
		}
	}
	return false
}

// ruleDecliningParserLeavesNoNode: an inline parser that returns nil has not added a node of its own to the parent.
func ruleDecliningParserLeavesNoNode(w *World, r *Report) {
	r.Rule("C11-S", "In every InlineParser.Parse of the module, no path leads from a call that adds a node to the `parent` argument (parent.AppendChild / InsertAfter / InsertBefore) to a return of nil: the dispatcher treats nil as 'this parser does nothing here', restores the reader and lets the text through, so a node appended before declining shows up in addition to the untouched text (a doubled '!' in a document that contains no footnote syntax at all).")
	ipI := w.Iface("parser", "InlineParser")
	n, nAdds := 0, 0
	for _, t := range w.Implementers(ipI) {
		fn := w.MethodOf(t, "Parse")
		if fn == nil || !w.InModule(fn) || len(fn.Params) < 4 {
			continue
		}
		n++
		parent := fn.Params[1]
		// nil-returning exits: (block, pred) pairs
		type exit struct{ blk, pred *ssa.BasicBlock }
		var exits []exit
		for _, b := range fn.Blocks {
			ret, ok := b.Instrs[len(b.Instrs)-1].(*ssa.Return)
			if !ok || len(ret.Results) == 0 {
				continue
			}
			switch x := ret.Results[0].(type) {
			case *ssa.Const:
				if x.IsNil() {
					exits = append(exits, exit{b, nil})
				}
			case *ssa.Phi:
				if x.Block() == b {
					for i, e := range x.Edges {
						for _, leaf := range phiLeaves(e) {
							if isNilConst(leaf) {
								exits = append(exits, exit{b, b.Preds[i]})
							}
						}
					}
				}
			}
		}
		key := typeShort(t) + ".Parse: nothing added to parent before declining"
		bad := ""
		for _, b := range fn.Blocks {
			for _, ins := range b.Instrs {
				c, ok := ins.(ssa.CallInstruction)
				if !ok || !c.Common().IsInvoke() || c.Common().Value != ssa.Value(parent) {
					continue
				}
				switch c.Common().Method.Name() {
				case "AppendChild", "InsertAfter", "InsertBefore":
				default:
					continue
				}
				nAdds++
				for _, e := range exits {
					target := e.blk
					if e.pred != nil {
						target = e.pred
					}
					if target == b || blockReaches(b, target) {
						if e.pred != nil && target == b {
							// the adding block itself jumps to the nil return
							bad = w.InstrPos(ins)
						} else if target != b {
							bad = w.InstrPos(ins)
						}
					}
				}
			}
		}
		if bad != "" {
			r.Bad(key, bad, "a node is added to the parent and the parser can still return nil afterwards")
		} else {
			r.OK(key, w.FnPos(fn), "no nil return is reachable from a call that adds to parent")
		}
	}
	r.Expect("inline parsers", n, 5)
	r.Note("C11-S: %d inline parsers, %d calls adding a node to parent", n, nAdds)
}
