package main

// rules_eofblank.go — C09-N: the end of the input is treated like a blank line.

import (
	"fmt"
	"go/token"

	"golang.org/x/tools/go/ssa"
)

// peekedLine: v is the first result of a PeekLine() call.
func peekedLine(v ssa.Value) bool {
	ex, ok := v.(*ssa.Extract)
	if !ok || ex.Index != 0 {
		return false
	}
	c, ok := ex.Tuple.(*ssa.Call)
	return ok && callName(c) == "PeekLine"
}

func ruleEndOfInputIsBlank(w *World, r *Report) {
	r.Rule("C09-N", "Where code of package parser decides something by testing a peeked line both for nil (end of the block/input) and with util.IsBlank, the nil outcome goes where the blank outcome goes (util.IsBlank(nil) is true as well): for the short-circuit forms `line == nil || IsBlank(line)` / `line != nil && !IsBlank(line)` the nil edge and the blank edge reach the same successor (or the value form yields the same constant). The inverted spelling `line != nil && IsBlank(line)` makes a construct that is the very last thing in the input behave as if other characters followed it — a reference definition whose title ends the document is rejected, while the same definition at the top of the document is accepted.")
	isBlank := w.PkgFunc("util", "IsBlank")
	n := 0
	for _, fn := range w.Funcs {
		if w.PkgOf(fn) != modPath+"/parser" {
			continue
		}
		for _, b1 := range fn.Blocks {
			iff1, ok := b1.Instrs[len(b1.Instrs)-1].(*ssa.If)
			if !ok || len(b1.Succs) != 2 {
				continue
			}
			x, isNil, isT := nilTest(iff1.Cond)
			if !isT || !peekedLine(x) {
				continue
			}
			nilSucc, nonNil := b1.Succs[0], b1.Succs[1]
			if !isNil {
				nilSucc, nonNil = b1.Succs[1], b1.Succs[0]
			}
			// the blank test directly on the non-nil edge
			var call *ssa.Call
			for _, ins := range nonNil.Instrs {
				if c, ok := ins.(*ssa.Call); ok && c.Common().StaticCallee() == isBlank && len(c.Common().Args) == 1 && c.Common().Args[0] == x {
					call = c
				}
			}
			if call == nil || len(nonNil.Preds) != 1 {
				continue
			}
			key := fmt.Sprintf("%s: nil line goes with the blank line", w.FnKey(fn))
			last := nonNil.Instrs[len(nonNil.Instrs)-1]
			switch t := last.(type) {
			case *ssa.If:
				neg := false
				cond := t.Cond
				if u, ok := cond.(*ssa.UnOp); ok && u.Op == token.NOT {
					neg, cond = true, u.X
				}
				if cond != ssa.Value(call) {
					continue
				}
				n++
				blankSucc := nonNil.Succs[0]
				if neg {
					blankSucc = nonNil.Succs[1]
				}
				if blankSucc == nilSucc {
					r.OK(key, w.InstrPos(iff1), "the nil edge and the IsBlank edge reach the same block")
				} else {
					r.Bad(key, w.InstrPos(iff1), "the end of the input (nil line) is sent where a NON-blank line goes, although a blank line goes elsewhere: the construct behaves differently as the last thing in the input")
				}
			case *ssa.Jump:
				// value form: phi [b1: const, nonNil: call or !call]
				for _, ins := range nonNil.Succs[0].Instrs {
					ph, ok := ins.(*ssa.Phi)
					if !ok {
						break
					}
					var cNil ssa.Value
					var vBlank ssa.Value
					for i, p := range nonNil.Succs[0].Preds {
						if p == b1 {
							cNil = ph.Edges[i]
						}
						if p == nonNil {
							vBlank = ph.Edges[i]
						}
					}
					if cNil == nil || vBlank == nil {
						continue
					}
					neg := false
					if u, ok := vBlank.(*ssa.UnOp); ok && u.Op == token.NOT {
						neg, vBlank = true, u.X
					}
					if vBlank != ssa.Value(call) {
						continue
					}
					cb, isC := constBool(cNil)
					if !isC {
						continue
					}
					n++
					if cb != neg {
						r.OK(key, w.InstrPos(iff1), "the nil edge yields the value the blank line yields")
					} else {
						r.Bad(key, w.InstrPos(iff1), "the end of the input (nil line) yields the value a NON-blank line yields")
					}
				}
			}
		}
	}
	r.Expect("combined nil / IsBlank tests on a peeked line", n, 1)
}
