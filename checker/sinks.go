package main

// sinks.go — output-sink model for renderers (DESIGN 2.5): registered render functions, sink
// inventory, data classification by backward SSA walk, and an HTML lexer-state dataflow that
// knows, at every write, whether the output position is text, inside a tag, or inside a
// double-quoted attribute value (and of which attribute).

import (
	"fmt"
	"go/token"
	"go/types"
	"sort"
	"strings"

	"golang.org/x/tools/go/ssa"
)

// ---- registered render functions -----------------------------------------------------

type Registration struct {
	Registrar *ssa.Function // the RegisterFuncs method
	Site      ssa.CallInstruction
	Kind      *ssa.Global   // the node kind global (nil if not a plain global)
	Func      *ssa.Function // the render method (unwrapped from its bound-method closure)
	Recv      *types.Named  // the NodeRenderer type
}

func (w *World) unwrapBound(f *ssa.Function) *ssa.Function {
	if f == nil {
		return nil
	}
	if strings.HasSuffix(f.Name(), "$bound") || strings.HasPrefix(f.Synthetic, "bound method wrapper") {
		if obj, ok := f.Object().(*types.Func); ok {
			if real := w.Prog.FuncValue(obj); real != nil {
				return real
			}
		}
	}
	return f
}

func (w *World) Registrations() []Registration {
	if v, ok := w.memo["registrations"]; ok {
		return v.([]Registration)
	}
	var out []Registration
	it := w.Iface("renderer", "NodeRenderer")
	for _, t := range w.Implementers(it) {
		rf := w.MethodOf(t, "RegisterFuncs")
		if rf == nil || !w.InModule(rf) {
			continue
		}
		for _, b := range rf.Blocks {
			for _, ins := range b.Instrs {
				c, ok := ins.(ssa.CallInstruction)
				if !ok {
					continue
				}
				com := c.Common()
				name := ""
				if com.IsInvoke() {
					name = com.Method.Name()
				} else if cal := com.StaticCallee(); cal != nil {
					name = cal.Name()
				}
				if name != "Register" || len(com.Args) < 2 {
					continue
				}
				args := com.Args
				if !com.IsInvoke() && len(args) == 3 {
					args = args[1:]
				}
				reg := Registration{Registrar: rf, Site: c, Recv: t}
				if u, ok := args[0].(*ssa.UnOp); ok {
					if g, ok := u.X.(*ssa.Global); ok {
						reg.Kind = g
					}
				}
				fv := funcValues(args[1])
				if len(fv) == 1 {
					reg.Func = w.unwrapBound(fv[0])
				}
				out = append(out, reg)
			}
		}
	}
	sort.Slice(out, func(i, j int) bool {
		a, b := out[i], out[j]
		if a.Registrar != b.Registrar {
			return a.Registrar.String() < b.Registrar.String()
		}
		return a.Site.Pos() < b.Site.Pos()
	})
	w.memo["registrations"] = out
	return out
}

// ---- data classes ------------------------------------------------------------------------

type DataKind int

const (
	DConst DataKind = iota
	DInt
	DConfig
	DEscaped
	DTainted
)

func (k DataKind) String() string {
	return [...]string{"Const", "Int", "Config", "Escaped", "Tainted"}[k]
}

type Data struct {
	Kind  DataKind
	Text  string // for DConst with known text
	Known bool   // Text is the exact constant
	Alts  []string
	Why   string
	Tag   string      // "attr-name", "string-value", "node-field:<T.f>"
	Src   []ssa.Value // for Escaped: the values passed to the sanitiser
}

func joinData(a, b Data) Data {
	if b.Kind > a.Kind {
		a.Kind, a.Why, a.Tag = b.Kind, b.Why, b.Tag
	}
	a.Known = false
	a.Text = ""
	a.Src = append(a.Src, b.Src...)
	return a
}

type SinkAnalysis struct {
	env         map[*ssa.Parameter]Data // actual arguments while a module callee is classified inline
	inlining    map[*ssa.Function]bool
	w           *World
	bufWriter   *types.Named
	htmlWriter  *types.Named
	sanitisers  map[*ssa.Function]bool
	constRet    map[*ssa.Function][]string
	constRetSet map[*ssa.Function]bool
	paramBusy   map[*ssa.Parameter]bool // cycle guard of paramFromCallSites
}

func (w *World) Sinks() *SinkAnalysis {
	if v, ok := w.memo["sinks"]; ok {
		return v.(*SinkAnalysis)
	}
	sa := &SinkAnalysis{w: w, sanitisers: map[*ssa.Function]bool{}, constRet: map[*ssa.Function][]string{}, constRetSet: map[*ssa.Function]bool{}}
	sa.bufWriter = w.Named("util", "BufWriter")
	sa.htmlWriter = w.Named("renderer/html", "Writer")
	for _, n := range []string{"EscapeHTML", "EscapeHTMLByte"} {
		if f := w.PkgFunc("util", n); f != nil {
			sa.sanitisers[f] = true
		}
	}
	// functions all of whose returns are string constants
	for _, fn := range w.Funcs {
		res := fn.Signature.Results()
		if res.Len() != 1 || !isString(res.At(0).Type()) {
			continue
		}
		ok := true
		var alts []string
		for _, b := range fn.Blocks {
			ret, isRet := b.Instrs[len(b.Instrs)-1].(*ssa.Return)
			if !isRet {
				continue
			}
			d := sa.Classify(ret.Results[0])
			if d.Kind != DConst {
				ok = false
				break
			}
			if d.Known {
				alts = append(alts, d.Text)
			} else {
				alts = append(alts, d.Alts...)
			}
		}
		if ok {
			sa.constRetSet[fn] = true
			sa.constRet[fn] = alts
		}
	}
	w.memo["sinks"] = sa
	return sa
}

func (sa *SinkAnalysis) isBufWriter(t types.Type) bool {
	return sa.bufWriter != nil && types.Identical(t, sa.bufWriter)
}

func (sa *SinkAnalysis) isHTMLWriter(t types.Type) bool {
	return sa.htmlWriter != nil && types.Identical(t, sa.htmlWriter)
}

// Classify determines where the bytes of v come from.
func (sa *SinkAnalysis) Classify(v ssa.Value) Data {
	return sa.classify(v, map[ssa.Value]bool{}, 0)
}

func (sa *SinkAnalysis) classify(v ssa.Value, seen map[ssa.Value]bool, depth int) Data {
	if depth > 40 {
		return Data{Kind: DTainted, Why: "too deep"}
	}
	if seen[v] {
		return Data{Kind: DConst} // cycle: neutral
	}
	seen[v] = true
	defer delete(seen, v)
	w := sa.w
	// integers and booleans carry no markup
	if isInteger(v.Type()) && !isRuneOrByteConstLike(v) {
		if c, ok := v.(*ssa.Const); ok && c.Value != nil {
			if i, ok := constInt(c); ok {
				return Data{Kind: DConst, Text: string(rune(i)), Known: true}
			}
		}
		return Data{Kind: DInt, Why: "integer"}
	}
	switch x := v.(type) {
	case *ssa.Const:
		if s, ok := constString(x); ok {
			return Data{Kind: DConst, Text: s, Known: true}
		}
		if i, ok := constInt(x); ok {
			return Data{Kind: DConst, Text: string(rune(i)), Known: true}
		}
		return Data{Kind: DConst, Known: x.Value == nil, Text: ""}
	case *ssa.Convert:
		return sa.classify(x.X, seen, depth+1)
	case *ssa.ChangeType:
		return sa.classify(x.X, seen, depth+1)
	case *ssa.MakeInterface:
		return sa.classify(x.X, seen, depth+1)
	case *ssa.ChangeInterface:
		return sa.classify(x.X, seen, depth+1)
	case *ssa.Phi:
		var out Data
		first := true
		var alts []string
		for _, e := range x.Edges {
			d := sa.classify(e, seen, depth+1)
			if d.Kind == DConst {
				if d.Known {
					alts = append(alts, d.Text)
				} else {
					alts = append(alts, d.Alts...)
				}
			}
			if first {
				out, first = d, false
				out.Known = false
			} else {
				out = joinData(out, d)
			}
		}
		if out.Kind == DConst {
			out.Alts = alts
		}
		return out
	case *ssa.Slice:
		if lit, ok := byteLiteral(x); ok && lit != nil {
			return Data{Kind: DConst, Text: string(lit), Known: true} // []byte{'a', 'b'} (also the variadic tail of append)
		}
		d := sa.classify(x.X, seen, depth+1)
		d.Known = false
		return d
	case *ssa.Index:
		d := sa.classify(x.X, seen, depth+1)
		d.Known = false
		return d
	case *ssa.Lookup:
		d := sa.classify(x.X, seen, depth+1)
		d.Known = false
		return d
	case *ssa.BinOp:
		if x.Op == token.ADD {
			a := sa.classify(x.X, seen, depth+1)
			b := sa.classify(x.Y, seen, depth+1)
			if a.Kind == DConst && b.Kind == DConst && a.Known && b.Known {
				return Data{Kind: DConst, Text: a.Text + b.Text, Known: true}
			}
			return joinData(a, b)
		}
		return Data{Kind: DInt}
	case *ssa.Extract:
		if c, ok := x.Tuple.(*ssa.Call); ok {
			return sa.classifyCall(c, seen, depth)
		}
		if ta, ok := x.Tuple.(*ssa.TypeAssert); ok {
			return sa.classify(ta.X, seen, depth+1)
		}
		if lk, ok := x.Tuple.(*ssa.Lookup); ok {
			return sa.classify(lk.X, seen, depth+1)
		}
		return Data{Kind: DTainted, Why: fmt.Sprintf("extract from %T", x.Tuple)}
	case *ssa.TypeAssert:
		return sa.classify(x.X, seen, depth+1)
	case *ssa.Call:
		return sa.classifyCall(x, seen, depth)
	case *ssa.Field:
		t, f := fieldOfField(x)
		d := sa.classify(x.X, seen, depth+1)
		if f != nil && isAttributeType(t) && f.Name() == "Name" && d.Kind == DTainted {
			d.Tag = "attr-name"
		}
		return d
	case *ssa.UnOp:
		if x.Op != token.MUL {
			return sa.classify(x.X, seen, depth+1)
		}
		return sa.classifyLoad(x, seen, depth)
	case *ssa.Parameter:
		if d, ok := sa.env[x]; ok {
			return d
		}
		// a parameter of an unexported helper that is only ever called directly: the join of what its call sites pass
		if d, ok := sa.paramFromCallSites(x, seen, depth); ok {
			return d
		}
		return Data{Kind: DTainted, Why: "parameter " + x.Name()}
	case *ssa.FreeVar:
		return Data{Kind: DTainted, Why: "captured " + x.Name()}
	case *ssa.Global:
		return Data{Kind: DConfig, Why: "global " + x.Name()}
	case *ssa.MakeSlice, *ssa.Alloc:
		// a buffer built locally: the bytes appended to it decide; handled through append chains
		return Data{Kind: DTainted, Why: "locally built buffer"}
	}
	_ = w
	return Data{Kind: DTainted, Why: fmt.Sprintf("%T", v)}
}

func isRuneOrByteConstLike(v ssa.Value) bool {
	// byte/rune typed values are characters, not numbers: a byte taken from tainted data is tainted
	b, ok := v.Type().Underlying().(*types.Basic)
	if !ok {
		return false
	}
	return b.Kind() == types.Uint8 || b.Kind() == types.Int32 || b.Kind() == types.UntypedRune
}

func (sa *SinkAnalysis) classifyLoad(x *ssa.UnOp, seen map[ssa.Value]bool, depth int) Data {
	w := sa.w
	// local variable cell: join of stored values
	if a, ok := x.X.(*ssa.Alloc); ok && cellOnlyLoadStore(a) {
		var out Data
		first := true
		for _, ref := range referrersOf(a) {
			if st, ok := ref.(*ssa.Store); ok {
				d := sa.classify(st.Val, seen, depth+1)
				if first {
					out, first = d, false
				} else {
					out = joinData(out, d)
				}
			}
		}
		if first {
			return Data{Kind: DConst, Why: "zero value"}
		}
		out.Known = false
		return out
	}
	// element of a constant string / array global
	if ia, ok := x.X.(*ssa.IndexAddr); ok {
		d := sa.classify(ia.X, seen, depth+1)
		d.Known = false
		return d
	}
	if fa, ok := x.X.(*ssa.FieldAddr); ok {
		t, f := fieldOfAddr(fa)
		info := w.ClassifyRef(fa)
		if f != nil && isAttributeType(t) && f.Name() == "Name" {
			return Data{Kind: DTainted, Why: "attribute name", Tag: "attr-name"}
		}
		switch info.Class {
		case MemShared:
			return Data{Kind: DConfig, Why: "configuration field " + typeShort(t) + "." + f.Name()}
		case MemNode:
			return Data{Kind: DTainted, Why: "node field " + typeShort(t) + "." + f.Name(), Tag: "node-field:" + typeShort(t) + "." + f.Name()}
		case MemLocal:
			// field of a local struct: find the stores to the same field
			var out Data
			first := true
			if a, ok := fa.X.(*ssa.Alloc); ok {
				for _, ref := range referrersOf(a) {
					if f2, ok := ref.(*ssa.FieldAddr); ok && f2.Field == fa.Field {
						for _, r2 := range referrersOf(f2) {
							if st, ok := r2.(*ssa.Store); ok {
								d := sa.classify(st.Val, seen, depth+1)
								if first {
									out, first = d, false
								} else {
									out = joinData(out, d)
								}
							}
						}
					}
					if st, ok := ref.(*ssa.Store); ok && st.Addr == ssa.Value(a) {
						d := sa.classify(st.Val, seen, depth+1)
						if first {
							out, first = d, false
						} else {
							out = joinData(out, d)
						}
					}
				}
			}
			if !first {
				out.Known = false
				return out
			}
		}
		return Data{Kind: DTainted, Why: "field " + typeShort(t) + "." + f.Name()}
	}
	if g, ok := x.X.(*ssa.Global); ok {
		return Data{Kind: DConfig, Why: "global " + g.Name()}
	}
	info := w.ClassifyRef(x.X)
	if info.Class == MemShared {
		return Data{Kind: DConfig, Why: "shared " + info.Why}
	}
	return Data{Kind: DTainted, Why: "load of " + describeAddr(x.X)}
}

// taint-preserving foreign functions: result has the class of the first byte/string argument
var taintPreserving = map[string]bool{
	"bytes.ToLower": true, "bytes.ToUpper": true, "bytes.TrimSpace": true, "bytes.Trim": true, "bytes.TrimLeft": true, "bytes.TrimRight": true,
	"bytes.Replace": true, "bytes.ReplaceAll": true, "bytes.Repeat": true, "bytes.Join": true, "bytes.TrimPrefix": true, "bytes.TrimSuffix": true,
	"strings.ToLower": true, "strings.ToUpper": true, "strings.TrimSpace": true, "strings.Repeat": true, "strings.Replace": true, "strings.ReplaceAll": true,
}

func (sa *SinkAnalysis) classifyCall(c *ssa.Call, seen map[ssa.Value]bool, depth int) Data {
	com := c.Common()
	if name := builtinName(com); name != "" {
		switch name {
		case "append":
			out := sa.classify(com.Args[0], seen, depth+1)
			for _, a := range com.Args[1:] {
				out = joinData(out, sa.classify(a, seen, depth+1))
			}
			return out
		case "len", "cap", "min", "max":
			return Data{Kind: DInt}
		}
		return Data{Kind: DTainted, Why: "builtin " + name}
	}
	cal := com.StaticCallee()
	if cal == nil {
		// call of a function value: configuration hooks (IDPrefixFunction) are trusted configuration
		if !com.IsInvoke() {
			if d := sa.classify(com.Value, seen, depth+1); d.Kind == DConfig {
				return Data{Kind: DConfig, Why: "result of a configuration function"}
			}
		}
		if com.IsInvoke() {
			return Data{Kind: DTainted, Why: "result of " + com.Method.Name()}
		}
		return Data{Kind: DTainted, Why: "result of dynamic call"}
	}
	if sa.sanitisers[cal] {
		return Data{Kind: DEscaped, Why: cal.Name(), Src: []ssa.Value{com.Args[0]}}
	}
	if sa.constRetSet[cal] {
		return Data{Kind: DConst, Alts: sa.constRet[cal], Why: "constant-returning " + cal.Name()}
	}
	name := cal.String()
	switch name {
	case "strconv.Itoa", "strconv.FormatInt", "strconv.FormatUint":
		return Data{Kind: DInt}
	case "strconv.AppendInt", "strconv.AppendUint":
		// digits appended to a prefix: the class of the prefix joined with Int
		out := joinData(sa.classify(com.Args[0], seen, depth+1), Data{Kind: DInt})
		out.Known = false
		return out
	case "fmt.Sprintf", "fmt.Sprint":
		ops := sa.variadicOperands(com.Args[len(com.Args)-1])
		var out Data
		if name == "fmt.Sprintf" {
			out = sa.classify(com.Args[0], seen, depth+1)
		}
		out.Known = false
		for _, o := range ops {
			out = joinData(out, sa.classify(o, seen, depth+1))
		}
		return out
	}
	if taintPreserving[name] && len(com.Args) > 0 {
		d := sa.classify(com.Args[0], seen, depth+1)
		d.Known = false
		return d
	}
	if sa.w.InModule(cal) {
		// zero-copy conversions keep the class of their argument
		if cal.Name() == "StringToReadOnlyBytes" || cal.Name() == "BytesToReadOnlyString" {
			return sa.classify(com.Args[0], seen, depth+1)
		}
		// small module helpers: classify their return values with the actual arguments bound
		if d, ok := sa.inlineResult(cal, com.Args, seen, depth); ok {
			return d
		}
	}
	return Data{Kind: DTainted, Why: "result of " + sa.w.FnKey(cal)}
}

// inlineResult classifies the (single) result of a module function under the actual arguments.
func (sa *SinkAnalysis) inlineResult(cal *ssa.Function, args []ssa.Value, seen map[ssa.Value]bool, depth int) (Data, bool) {
	if cal.Blocks == nil || cal.Signature.Results().Len() != 1 || sa.inlining[cal] || len(sa.inlining) >= 3 || len(cal.Blocks) > 40 {
		return Data{}, false
	}
	if sa.inlining == nil {
		sa.inlining = map[*ssa.Function]bool{}
	}
	if sa.env == nil {
		sa.env = map[*ssa.Parameter]Data{}
	}
	var bound []*ssa.Parameter
	for i, p := range cal.Params {
		if i < len(args) {
			if _, exists := sa.env[p]; !exists {
				sa.env[p] = sa.classify(args[i], seen, depth+1)
				bound = append(bound, p)
			}
		}
	}
	sa.inlining[cal] = true
	defer func() {
		delete(sa.inlining, cal)
		for _, p := range bound {
			delete(sa.env, p)
		}
	}()
	var out Data
	first := true
	for _, b := range cal.Blocks {
		ret, ok := b.Instrs[len(b.Instrs)-1].(*ssa.Return)
		if !ok {
			continue
		}
		d := sa.classify(ret.Results[0], map[ssa.Value]bool{}, depth+1)
		if first {
			out, first = d, false
			out.Known = false
		} else {
			out = joinData(out, d)
		}
	}
	if first {
		return Data{}, false
	}
	if out.Why == "" {
		out.Why = "result of " + cal.Name()
	} else {
		out.Why = cal.Name() + ": " + out.Why
	}
	return out, true
}

// variadicOperands recovers the operands packed into a ...interface{} argument.
func (sa *SinkAnalysis) variadicOperands(v ssa.Value) []ssa.Value {
	sl, ok := v.(*ssa.Slice)
	if !ok {
		return nil
	}
	al, ok := sl.X.(*ssa.Alloc)
	if !ok {
		return nil
	}
	type pair struct {
		idx int64
		val ssa.Value
	}
	var ps []pair
	for _, ref := range referrersOf(al) {
		ia, ok := ref.(*ssa.IndexAddr)
		if !ok {
			continue
		}
		idx, _ := constInt(ia.Index)
		for _, r2 := range referrersOf(ia) {
			if st, ok := r2.(*ssa.Store); ok {
				ps = append(ps, pair{idx, st.Val})
			}
		}
	}
	sort.Slice(ps, func(i, j int) bool { return ps[i].idx < ps[j].idx })
	var out []ssa.Value
	for _, p := range ps {
		out = append(out, p.val)
	}
	return out
}

// ---- sinks ---------------------------------------------------------------------------------

type SinkKind int

const (
	SinkRaw     SinkKind = iota // BufWriter.Write/WriteString/WriteByte/WriteRune, fmt.Fprint*
	SinkEscaped                 // html.Writer.Write / RawWrite: escapes what it is given
	SinkSecure                  // html.Writer.SecureWrite: passes bytes through (NUL replaced)
)

type Piece struct {
	Const bool
	Text  string // constant text when Const && Known
	Data  Data
}

type Sink struct {
	Fn     *ssa.Function
	Instr  ssa.CallInstruction
	Kind   SinkKind
	Writer ssa.Value
	Method string
	Pieces []Piece // in output order (Fprintf yields several)
}

// sinkAt recognises a sink instruction.
func (sa *SinkAnalysis) sinkAt(fn *ssa.Function, ins ssa.Instruction) *Sink {
	c, ok := ins.(ssa.CallInstruction)
	if !ok {
		return nil
	}
	com := c.Common()
	if com.IsInvoke() {
		m := com.Method.Name()
		if sa.isBufWriter(com.Value.Type()) || isIOWriter(com.Value.Type()) {
			switch m {
			case "Write", "WriteString", "WriteByte", "WriteRune":
				d := sa.Classify(com.Args[0])
				return &Sink{Fn: fn, Instr: c, Kind: SinkRaw, Writer: com.Value, Method: m, Pieces: []Piece{pieceOf(d)}}
			}
			return nil
		}
		if sa.isHTMLWriter(com.Value.Type()) && len(com.Args) == 2 {
			switch m {
			case "Write", "RawWrite":
				return &Sink{Fn: fn, Instr: c, Kind: SinkEscaped, Writer: com.Args[0], Method: "Writer." + m,
					Pieces: []Piece{{Data: Data{Kind: DEscaped, Why: "html.Writer." + m, Src: []ssa.Value{com.Args[1]}}}}}
			case "SecureWrite":
				d := sa.Classify(com.Args[1])
				return &Sink{Fn: fn, Instr: c, Kind: SinkSecure, Writer: com.Args[0], Method: "Writer.SecureWrite", Pieces: []Piece{pieceOf(d)}}
			}
		}
		return nil
	}
	cal := com.StaticCallee()
	if cal == nil {
		return nil
	}
	switch cal.String() {
	case "fmt.Fprintf", "fmt.Fprint", "fmt.Fprintln":
		wv := stripMakeIface(com.Args[0])
		s := &Sink{Fn: fn, Instr: c, Kind: SinkRaw, Writer: wv, Method: cal.Name()}
		if cal.Name() == "Fprintf" {
			format, ok := constString(com.Args[1])
			ops := sa.variadicOperands(com.Args[2])
			if !ok {
				s.Pieces = []Piece{{Data: Data{Kind: DTainted, Why: "non-constant format"}}}
				return s
			}
			s.Pieces = sa.formatPieces(format, ops)
		} else {
			for _, o := range sa.variadicOperands(com.Args[1]) {
				s.Pieces = append(s.Pieces, pieceOf(sa.Classify(o)))
			}
		}
		return s
	case "io.WriteString":
		d := sa.Classify(com.Args[1])
		return &Sink{Fn: fn, Instr: c, Kind: SinkRaw, Writer: stripMakeIface(com.Args[0]), Method: "io.WriteString", Pieces: []Piece{pieceOf(d)}}
	}
	return nil
}

func isIOWriter(t types.Type) bool {
	n, ok := t.(*types.Named)
	return ok && n.Obj().Pkg() != nil && n.Obj().Pkg().Path() == "io" && n.Obj().Name() == "Writer"
}

func pieceOf(d Data) Piece {
	if d.Kind == DConst && d.Known {
		return Piece{Const: true, Text: d.Text, Data: d}
	}
	return Piece{Data: d}
}

func (sa *SinkAnalysis) formatPieces(format string, ops []ssa.Value) []Piece {
	var out []Piece
	cur := ""
	oi := 0
	for i := 0; i < len(format); i++ {
		c := format[i]
		if c != '%' {
			cur += string(c)
			continue
		}
		if i+1 < len(format) && format[i+1] == '%' {
			cur += "%"
			i++
			continue
		}
		// skip flags/width
		j := i + 1
		for j < len(format) && strings.ContainsRune("+-# 0123456789.", rune(format[j])) {
			j++
		}
		if cur != "" {
			out = append(out, Piece{Const: true, Text: cur, Data: Data{Kind: DConst, Text: cur, Known: true}})
			cur = ""
		}
		if oi < len(ops) {
			out = append(out, pieceOf(sa.Classify(ops[oi])))
			oi++
		} else {
			out = append(out, Piece{Data: Data{Kind: DTainted, Why: "missing format operand"}})
		}
		i = j
	}
	if cur != "" {
		out = append(out, Piece{Const: true, Text: cur, Data: Data{Kind: DConst, Text: cur, Known: true}})
	}
	return out
}

// ---- HTML lexer state ---------------------------------------------------------------------------

type LexMode int

const (
	LexText LexMode = iota
	LexTag
	LexAttr
	LexConflict
)

type LexState struct {
	Mode LexMode
	Attr string // in LexAttr: attribute name ("<dynamic>" if not constant)
	Cand string // in LexTag: identifier seen since the last space (candidate attribute/tag name)
	Eq   bool   // in LexTag: '=' seen after Cand
}

func (s LexState) String() string {
	switch s.Mode {
	case LexText:
		return "text"
	case LexTag:
		return "in-tag"
	case LexAttr:
		return "attribute-value(" + s.Attr + ")"
	}
	return "conflict"
}

func isIdentChar(c byte) bool {
	return c == '-' || c == '_' || c == ':' || c == '!' || c == '/' || (c >= '0' && c <= '9') || (c >= 'a' && c <= 'z') || (c >= 'A' && c <= 'Z')
}

// feed advances the lexer over constant text.
func (s LexState) feed(text string) LexState {
	for i := 0; i < len(text); i++ {
		c := text[i]
		switch s.Mode {
		case LexText:
			if c == '<' {
				s = LexState{Mode: LexTag}
			}
		case LexTag:
			switch {
			case c == '>':
				s = LexState{Mode: LexText}
			case c == '"':
				a := s.Cand
				if a == "" || !s.Eq {
					a = "<unknown>"
				}
				s = LexState{Mode: LexAttr, Attr: a}
			case c == '=':
				s.Eq = true
			case isIdentChar(c):
				if s.Eq {
					s.Cand, s.Eq = "", false
				}
				s.Cand += string(c)
			default:
				s.Cand, s.Eq = "", false
			}
		case LexAttr:
			if c == '"' {
				s = LexState{Mode: LexTag}
			}
		}
	}
	return s
}

// ltInAttr reports whether feeding text meets a '<' while inside an attribute value.
func (s LexState) ltInAttr(text string) bool {
	for i := 0; i < len(text); i++ {
		if s.Mode == LexAttr && text[i] == '<' {
			return true
		}
		s = s.feed(text[i : i+1])
	}
	return false
}

// attrNames lists the attribute names of an attribute-value state (a join may carry several).
func (s LexState) attrNames() []string {
	if s.Mode != LexAttr {
		return nil
	}
	return strings.Split(s.Attr, "|")
}

// opaque advances over a non-constant token.
func (s LexState) opaque() LexState {
	if s.Mode == LexTag {
		if s.Eq {
			s.Cand, s.Eq = "", false
		}
		if !strings.HasSuffix(s.Cand, "<dynamic>") {
			s.Cand += "<dynamic>"
		}
	}
	return s
}

func joinLex(a, b LexState) LexState {
	if a == b {
		return a
	}
	if a.Mode == LexTag && b.Mode == LexTag {
		return LexState{Mode: LexTag, Cand: "<dynamic>"}
	}
	if a.Mode == LexAttr && b.Mode == LexAttr {
		set := map[string]bool{}
		for _, n := range strings.Split(a.Attr+"|"+b.Attr, "|") {
			set[n] = true
		}
		return LexState{Mode: LexAttr, Attr: strings.Join(sortedKeys(set), "|")}
	}
	return LexState{Mode: LexConflict}
}

// ---- per-function lexer dataflow with one level of calling context ---------------------------------

type SinkEvent struct {
	Sink  *Sink
	Piece int
	State LexState // state before this piece
	Ctx   LexState // entry state of the enclosing function in this context
	Chain []string // call chain from the registered render function
}

type ctxKey struct {
	fn    *ssa.Function
	entry LexState
}

type LexRun struct {
	sa     *SinkAnalysis
	exit   map[ctxKey]LexState
	active map[ctxKey]bool
	Events []SinkEvent
	evSeen map[string]bool
	Calls  int
}

// hasWriterParam reports whether fn takes a util.BufWriter (a function that can write output).
func (sa *SinkAnalysis) writerParam(fn *ssa.Function) *ssa.Parameter {
	for _, p := range fn.Params {
		if sa.isBufWriter(p.Type()) {
			return p
		}
	}
	return nil
}

func (sa *SinkAnalysis) NewLexRun() *LexRun {
	return &LexRun{sa: sa, exit: map[ctxKey]LexState{}, active: map[ctxKey]bool{}, evSeen: map[string]bool{}}
}

// Analyze runs fn from the given entry state and returns the join of the states at its returns.
func (lr *LexRun) Analyze(fn *ssa.Function, entry LexState, chain []string) LexState {
	key := ctxKey{fn, entry}
	if st, ok := lr.exit[key]; ok {
		return st
	}
	if lr.active[key] {
		return entry // recursion: assume balanced; verified when the outer activation completes
	}
	lr.active[key] = true
	defer delete(lr.active, key)
	sa := lr.sa
	chain = append(append([]string{}, chain...), sa.w.FnKey(fn))
	in := map[*ssa.BasicBlock]LexState{}
	out := map[*ssa.BasicBlock]LexState{}
	have := map[*ssa.BasicBlock]bool{}
	if len(fn.Blocks) == 0 {
		return entry
	}
	in[fn.Blocks[0]] = entry
	have[fn.Blocks[0]] = true
	var exitState LexState
	haveExit := false
	for iter := 0; iter < 64; iter++ {
		changed := false
		haveExit = false
		for _, b := range fn.Blocks {
			if b != fn.Blocks[0] {
				var st LexState
				first := true
				for _, p := range b.Preds {
					if _, ok := out[p]; !ok {
						continue
					}
					if first {
						st, first = out[p], false
					} else {
						st = joinLex(st, out[p])
					}
				}
				if first {
					continue // unreachable so far
				}
				if !have[b] || in[b] != st {
					in[b], have[b] = st, true
					changed = true
				}
			}
			st := in[b]
			for _, ins := range b.Instrs {
				st = lr.step(fn, ins, st, entry, chain)
			}
			if o, ok := out[b]; !ok || o != st {
				out[b] = st
				changed = true
			}
			if _, ok := b.Instrs[len(b.Instrs)-1].(*ssa.Return); ok {
				if !haveExit {
					exitState, haveExit = st, true
				} else {
					exitState = joinLex(exitState, st)
				}
			}
		}
		if !changed {
			break
		}
	}
	if !haveExit {
		exitState = entry
	}
	lr.exit[key] = exitState
	return exitState
}

func (lr *LexRun) step(fn *ssa.Function, ins ssa.Instruction, st LexState, ctx LexState, chain []string) LexState {
	sa := lr.sa
	if s := sa.sinkAt(fn, ins); s != nil {
		for i, p := range s.Pieces {
			k := fmt.Sprintf("%p/%d/%v/%v", ins, i, st, ctx)
			if !lr.evSeen[k] {
				lr.evSeen[k] = true
				lr.Events = append(lr.Events, SinkEvent{Sink: s, Piece: i, State: st, Ctx: ctx, Chain: chain})
			}
			if p.Const {
				st = st.feed(p.Text)
			} else if p.Data.Kind == DConst && len(p.Data.Alts) > 0 {
				// a choice among known constants: all alternatives must lead to the same state
				var res LexState
				for j, a := range p.Data.Alts {
					r := st.feed(a)
					if j == 0 {
						res = r
					} else {
						res = joinLex(res, r)
					}
				}
				st = res
			} else {
				st = st.opaque()
			}
		}
		return st
	}
	c, ok := ins.(ssa.CallInstruction)
	if !ok {
		return st
	}
	com := c.Common()
	// does the call hand a BufWriter to a module function?
	passes := false
	for _, a := range com.Args {
		if sa.isBufWriter(a.Type()) {
			passes = true
		}
	}
	if !passes {
		return st
	}
	var callees []*ssa.Function
	if cal := com.StaticCallee(); cal != nil {
		if sa.w.InModule(cal) {
			callees = append(callees, cal)
		}
	} else {
		for _, e := range sa.w.CG().Out[fn] {
			if e.Kind == EdgeCall && e.Site == ins && sa.w.InModule(e.To) {
				callees = append(callees, sa.w.unwrapBound(e.To))
			}
		}
	}
	if len(callees) == 0 {
		return st
	}
	lr.Calls++
	var res LexState
	for i, cal := range callees {
		r := lr.Analyze(cal, st, chain)
		if i == 0 {
			res = r
		} else {
			res = joinLex(res, r)
		}
	}
	return res
}

func isAttributeType(t types.Type) bool {
	s := typeShort(t)
	return s == "ast.Attribute" || s == "parser.Attribute"
}

// paramFromCallSites classifies a parameter of an unexported module function (or method) by its arguments at every
// static call site in the module; not applicable when the function is exported, used as a value (address taken), or
// has no call site.
func (sa *SinkAnalysis) paramFromCallSites(p *ssa.Parameter, seen map[ssa.Value]bool, depth int) (Data, bool) {
	fn := p.Parent()
	if fn == nil || depth > 12 || !sa.w.InModule(fn) || fn.Parent() != nil {
		return Data{}, false
	}
	if obj := fn.Object(); obj == nil || obj.Exported() {
		return Data{}, false
	}
	if sa.paramBusy == nil {
		sa.paramBusy = map[*ssa.Parameter]bool{}
	}
	if sa.paramBusy[p] {
		return Data{}, false
	}
	sa.paramBusy[p] = true
	defer delete(sa.paramBusy, p)
	idx := paramIndex(fn, p)
	var out Data
	n := 0
	for _, caller := range sa.w.CG().In[fn] {
		if !sa.w.InModule(caller) {
			return Data{}, false
		}
		for _, b := range caller.Blocks {
			for _, ins := range b.Instrs {
				switch x := ins.(type) {
				case ssa.CallInstruction:
					if x.Common().StaticCallee() != fn {
						// the function used as a value somewhere in this caller?
						for _, a := range x.Common().Args {
							for _, f := range funcValues(a) {
								if f == fn {
									return Data{}, false
								}
							}
						}
						continue
					}
					if idx >= len(x.Common().Args) {
						return Data{}, false
					}
					d := sa.classify(x.Common().Args[idx], map[ssa.Value]bool{}, depth+1)
					if n == 0 {
						out = d
					} else {
						out = joinData(out, d)
					}
					n++
				case *ssa.MakeClosure:
					if x.Fn == ssa.Value(fn) {
						return Data{}, false
					}
				}
			}
		}
	}
	if n == 0 {
		return Data{}, false
	}
	return out, true
}
