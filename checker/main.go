package main

// gmcheck — static-analysis checks of yuin/goldmark against the given properties.
//
//	gmcheck <ID|all> [--tier quick|thorough] [--repo DIR] [--only RULE] [--no-evidence]
//
// Every run loads and type-checks the current source under --repo (default /repo),
// builds SSA and the call graph, and evaluates the rules registered for the property.

import (
	"encoding/json"
	"flag"
	"fmt"
	"os"
	"path/filepath"
	"runtime/debug"
	"sort"
	"strconv"
	"strings"
	"time"
)

type Property struct {
	ID      string
	Level   string // "proof" or "other"
	Explain string
	Trusted []string
	Assumes []string
	Rules   []func(*World, *Report)
}

var registry = map[string]*Property{}

func register(p *Property) { registry[p.ID] = p }

func main() {
	if len(os.Args) < 2 {
		fmt.Fprintln(os.Stderr, "usage: gmcheck <ID|all|list> [--tier quick|thorough] [--repo DIR] [--only RULE] [--no-evidence]")
		os.Exit(2)
	}
	augmentExplain()
	id := os.Args[1]
	fs := flag.NewFlagSet("gmcheck", flag.ExitOnError)
	tier := fs.String("tier", "", "quick or thorough (default: $VERIF_TIER or quick)")
	repo := fs.String("repo", "/repo", "tree to analyse")
	only := fs.String("only", "", "run only rules whose id has this prefix")
	noEv := fs.Bool("no-evidence", false, "do not write evidence files")
	evDir := fs.String("evidence-dir", "", "where to write evidence (default <verif>/evidence when --repo=/repo)")
	tags := fs.String("tags", "", "build tags")
	goarch := fs.String("goarch", "", "GOARCH")
	mutant := fs.String("mutant", "", "internal: apply the named in-memory mutant (self-validation subprocess)")
	jsonOut := fs.Bool("json", false, "internal: print obligations as JSON")
	variant := fs.Bool("variant", false, "internal: build-variant subprocess (no extras)")
	verbose := fs.Bool("v", false, "print every obligation")
	replay := fs.String("replay", "", "replay file: re-run the rule it names")
	_ = fs.Parse(os.Args[2:])

	if id == "describe" {
		type d struct {
			ID, Level, Explain string
			Trusted, Assumes   []string
			Rules              int
		}
		var out []d
		for _, p := range registry {
			out = append(out, d{p.ID, p.Level, p.Explain, p.Trusted, p.Assumes, len(p.Rules)})
		}
		sort.Slice(out, func(i, j int) bool { return out[i].ID < out[j].ID })
		b, _ := json.MarshalIndent(out, "", " ")
		fmt.Println(string(b))
		return
	}
	if id == "list" {
		var ids []string
		for k := range registry {
			ids = append(ids, k)
		}
		sort.Strings(ids)
		fmt.Println(strings.Join(ids, " "))
		return
	}
	if *tier == "" {
		*tier = os.Getenv("VERIF_TIER")
	}
	if *tier != "thorough" {
		*tier = "quick"
	}
	seed, _ := strconv.Atoi(os.Getenv("VERIF_SEED"))
	exe, _ := os.Executable()
	verifDir := filepath.Dir(filepath.Dir(exe))
	if _, err := os.Stat(filepath.Join(verifDir, "known_findings.txt")); err != nil {
		verifDir = "/verif"
	}
	loadSeedMutants(verifDir)
	if id == "seedtable" {
		seedTable(exe, *repo)
		return
	}
	if *replay != "" {
		b, err := os.ReadFile(*replay)
		if err == nil {
			var rp struct{ Rule string }
			if json.Unmarshal(b, &rp) == nil && rp.Rule != "" {
				*only = rp.Rule
			}
		}
	}
	m := runMeta{Tier: *tier, Seed: seed, Repo: *repo, VerifDir: verifDir, Started: time.Now(), CheckerCmd: exe}
	m.WriteEv = !*noEv && *mutant == "" && *only == "" && !*variant
	if *evDir != "" {
		m.EvDir = *evDir
	} else if filepath.Clean(*repo) == "/repo" {
		m.EvDir = filepath.Join(verifDir, "evidence")
	} else {
		m.WriteEv = false
		m.EvDir = filepath.Join(os.TempDir(), "gmverif-evidence")
	}

	var ids []string
	if id == "all" {
		for k := range registry {
			ids = append(ids, k)
		}
		sort.Strings(ids)
	} else {
		if registry[id] == nil {
			fmt.Printf("no check registered for %s\n", id)
			os.Exit(2)
		}
		ids = []string{id}
	}

	known, err := loadKnown(filepath.Join(verifDir, "known_findings.txt"))
	if err != nil {
		fmt.Println("ERROR reading known findings:", err)
		os.Exit(1)
	}

	opts := LoadOpts{Dir: *repo, Tags: *tags, GOARCH: *goarch}
	if *mutant != "" {
		ov, err := mutantOverlay(*repo, *mutant)
		if err != nil {
			fmt.Printf("MUTANT-SKIPPED %s: %v\n", *mutant, err)
			os.Exit(3)
		}
		opts.Overlay = ov
	}
	world, err := Load(opts)
	if err != nil {
		// a tree that does not load is never a pass
		for _, pid := range ids {
			fmt.Printf("ERROR property=%s cannot analyse %s: %v\n", pid, *repo, err)
			fmt.Printf("VIOLATION property=%s replay=%s\n", pid, "load-error")
		}
		os.Exit(1)
	}

	exit := 0
	for _, pid := range ids {
		p := registry[pid]
		rep := runProperty(world, p, *only)
		if *variant {
			// subprocess for a build variant: rules only
		} else if *tier == "thorough" && *mutant == "" && *only == "" {
			thoroughExtras(world, p, rep, m)
		} else if *mutant == "" && *only == "" {
			quickExtras(world, p, rep, m)
		}
		if *verbose {
			for _, o := range rep.Obls {
				fmt.Printf("   [%s] %s | %s | %s | %s\n", o.Status, o.Rule, o.Construct, o.Pos, o.Detail)
			}
		}
		if *jsonOut {
			b, _ := json.Marshal(rep.Obls)
			fmt.Printf("OBLIGATIONS-JSON %s %s\n", pid, b)
		}
		m.Started = time.Now().Add(-time.Since(m.Started)) // keep
		if c := rep.Finish(m, world, known); c != 0 {
			exit = 1
		}
	}
	os.Exit(exit)
}

func runProperty(world *World, p *Property, only string) *Report {
	rep := &Report{Property: p.ID, Level: p.Level, Explain: p.Explain, Trusted: p.Trusted, Assumes: p.Assumes}
	v := "default build (GOARCH=" + orDefault(world.GOARCH, "amd64") + ", tags=" + orDefault(world.Tags, "none") + ")"
	rep.Variants = append(rep.Variants, v)
	rep.Note("analysed %d packages, %d module functions with bodies in %s", len(world.Pkgs), len(world.Funcs), world.Dir)
	for _, rule := range p.Rules {
		func() {
			defer func() {
				if e := recover(); e != nil {
					rep.Rule("checker-panic", "a panic inside the checker is a failed check")
					rep.Unknown(fmt.Sprint(e), "", string(debug.Stack()))
				}
			}()
			before := len(rep.Obls)
			rule(world, rep)
			if only != "" {
				// keep only obligations of the requested rule
				kept := rep.Obls[:before]
				for _, o := range rep.Obls[before:] {
					if strings.HasPrefix(o.Rule, only) {
						kept = append(kept, o)
					}
				}
				rep.Obls = kept
			}
		}()
	}
	return rep
}

func orDefault(s, d string) string {
	if s == "" {
		return d
	}
	return s
}
