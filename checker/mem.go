package main

// mem.go — type-directed memory classes (DESIGN 2.3) and store classification.

import (
	"go/types"
	"sort"
	"strings"

	"golang.org/x/tools/go/ssa"
)

type MemClass int

const (
	MemLocal   MemClass = iota // roots in an Alloc of this activation
	MemPerCall                 // anything else: per-call objects (context, readers, buffers…)
	MemNode                    // AST node memory
	MemShared                  // configuration graph shared between calls, or a global
)

func (c MemClass) String() string {
	return [...]string{"local", "per-call", "node", "shared"}[c]
}

// the interfaces whose module implementations form the shared configuration graph.
var sharedIfaces = [][2]string{
	{"", "Markdown"}, {"", "Extender"},
	{"parser", "Parser"}, {"parser", "BlockParser"}, {"parser", "InlineParser"},
	{"parser", "ParagraphTransformer"}, {"parser", "ASTTransformer"}, {"parser", "CloseBlocker"},
	{"parser", "DelimiterProcessor"}, {"parser", "SetOptioner"}, {"parser", "Option"},
	{"renderer", "Renderer"}, {"renderer", "NodeRenderer"}, {"renderer", "SetOptioner"}, {"renderer", "Option"},
	{"renderer/html", "Writer"},
}

// closeOverFields adds every module named struct type reachable through
// struct/array/slice/map/pointer fields (stopping at interfaces and foreign types).
func (w *World) closeOverFields(set map[*types.Named]string) {
	var work []*types.Named
	for t := range set {
		work = append(work, t)
	}
	var visit func(t types.Type, why string)
	visit = func(t types.Type, why string) {
		switch x := t.(type) {
		case *types.Named:
			if x.Obj().Pkg() == nil {
				return
			}
			if _, ok := w.Pkgs[x.Obj().Pkg().Path()]; !ok {
				return
			}
			if _, isI := x.Underlying().(*types.Interface); isI {
				return
			}
			if _, ok := set[x]; ok {
				return
			}
			set[x] = why
			work = append(work, x)
		case *types.Pointer:
			visit(x.Elem(), why)
		case *types.Slice:
			visit(x.Elem(), why)
		case *types.Array:
			visit(x.Elem(), why)
		case *types.Map:
			visit(x.Key(), why)
			visit(x.Elem(), why)
		case *types.Struct:
			for i := 0; i < x.NumFields(); i++ {
				visit(x.Field(i).Type(), why)
			}
		}
	}
	for len(work) > 0 {
		t := work[len(work)-1]
		work = work[:len(work)-1]
		why := "field of " + typeShort(t)
		switch u := t.Underlying().(type) {
		case *types.Struct:
			for i := 0; i < u.NumFields(); i++ {
				visit(u.Field(i).Type(), why)
			}
		case *types.Slice:
			visit(u.Elem(), why)
		case *types.Array:
			visit(u.Elem(), why)
		case *types.Map:
			visit(u.Elem(), why)
		case *types.Pointer:
			visit(u.Elem(), why)
		}
	}
}

// SharedTypes: named types of the shared configuration graph, with the reason each is in it.
func (w *World) SharedTypes() map[*types.Named]string {
	if v, ok := w.memo["shared"]; ok {
		return v.(map[*types.Named]string)
	}
	set := map[*types.Named]string{}
	for _, pi := range sharedIfaces {
		it := w.Iface(pi[0], pi[1])
		if it == nil {
			continue
		}
		name := pi[1]
		if pi[0] != "" {
			name = pi[0] + "." + pi[1]
		}
		for _, t := range w.Implementers(it) {
			if _, ok := set[t]; !ok {
				set[t] = "implements " + name
			}
		}
	}
	// objects held by package-level variables are shared by every call in the process: a variable of a module
	// struct type (or pointer to one) contributes that type, a variable of a module interface type contributes the
	// module struct types implementing it (e.g. the attribute filters behind util.BytesFilter).
	nodes := w.NodeTypes()
	var paths []string
	for p := range w.SPkgs {
		paths = append(paths, p)
	}
	sort.Strings(paths)
	for _, p := range paths {
		var names []string
		for name := range w.SPkgs[p].Members {
			names = append(names, name)
		}
		sort.Strings(names)
		for _, name := range names {
			g, ok := w.SPkgs[p].Members[name].(*ssa.Global)
			if !ok {
				continue
			}
			n := namedOf(deref(g.Type()))
			if n == nil {
				n = namedOf(deref(deref(g.Type())))
			}
			if n == nil || n.Obj().Pkg() == nil {
				continue
			}
			if _, inMod := w.Pkgs[n.Obj().Pkg().Path()]; !inMod {
				continue
			}
			add := func(t *types.Named, why string) {
				if _, isS := t.Underlying().(*types.Struct); !isS {
					return
				}
				if _, isNode := nodes[t]; isNode {
					return
				}
				if _, has := set[t]; !has {
					set[t] = why
				}
			}
			if it, isI := n.Underlying().(*types.Interface); isI {
				for _, t := range w.Implementers(it) {
					add(t, "may be held by package-level variable "+g.Name()+" ("+typeShort(n)+")")
				}
			} else {
				add(n, "held by package-level variable "+g.Name())
			}
		}
	}
	w.closeOverFields(set)
	// node types are never configuration, even if an option type embeds one (none today)
	for t := range w.NodeTypes() {
		delete(set, t)
	}
	w.memo["shared"] = set
	return set
}

// NodeTypes: types whose pointer method set implements ast.Node, plus the storage behind them.
func (w *World) NodeTypes() map[*types.Named]string {
	if v, ok := w.memo["nodes"]; ok {
		return v.(map[*types.Named]string)
	}
	set := map[*types.Named]string{}
	it := w.Iface("ast", "Node")
	for _, t := range w.Implementers(it) {
		set[t] = "implements ast.Node"
	}
	for _, n := range [][2]string{{"ast", "Attribute"}, {"text", "Segments"}, {"ast", "BaseNode"}, {"ast", "BaseBlock"}, {"ast", "BaseInline"}} {
		if t := w.Named(n[0], n[1]); t != nil {
			if _, ok := set[t]; !ok {
				set[t] = "node storage"
			}
		}
	}
	w.closeOverFields(set)
	w.memo["nodes"] = set
	return set
}

// AddrInfo is the result of classifying an address (or a reference value such as a slice/map).
type AddrInfo struct {
	Class MemClass
	Why   string      // the type or global that decided the class
	Roots []ssa.Value // where the chain ends
	Field string      // innermost field name, if the address is a field
}

func (w *World) typeClass(t types.Type) (MemClass, string) {
	n := namedOf(t)
	if n == nil {
		return MemPerCall, ""
	}
	if why, ok := w.SharedTypes()[n]; ok {
		return MemShared, typeShort(n) + " (" + why + ")"
	}
	if _, ok := w.NodeTypes()[n]; ok {
		return MemNode, typeShort(n)
	}
	return MemPerCall, ""
}

// ClassifyRef classifies the memory a reference value (address, slice, map, pointer) points into,
// by walking to its roots and taking the static type at each step. Memory allocated by this
// activation (Alloc, make, composite literals) and reached without passing through a loaded
// pointer is local whatever its type.
func (w *World) ClassifyRef(v ssa.Value) AddrInfo {
	info := AddrInfo{Class: MemLocal}
	seen := map[ssa.Value]bool{}
	allLocal := true
	var tClass MemClass = MemLocal
	tWhy := ""
	bump := func(c MemClass, why string) {
		if c > tClass {
			tClass, tWhy = c, why
		}
	}
	var walk func(v ssa.Value)
	walk = func(v ssa.Value) {
		if seen[v] {
			return
		}
		seen[v] = true
		if c, why := w.typeClass(v.Type()); c > MemPerCall {
			bump(c, why)
		}
		switch x := v.(type) {
		case *ssa.FieldAddr:
			if info.Field == "" {
				if _, f := fieldOfAddr(x); f != nil {
					info.Field = f.Name()
				}
			}
			walk(x.X)
		case *ssa.Field:
			walk(x.X)
		case *ssa.IndexAddr:
			walk(x.X)
		case *ssa.Index:
			walk(x.X)
		case *ssa.Lookup:
			walk(x.X)
		case *ssa.UnOp:
			// a load: the pointee is whatever was stored in the cell. For a local variable cell
			// follow the values stored into it; otherwise the pointee is not local.
			if a, ok := x.X.(*ssa.Alloc); ok && cellOnlyLoadStore(a) {
				for _, ref := range referrersOf(a) {
					if st, ok := ref.(*ssa.Store); ok && st.Addr == ssa.Value(a) {
						walk(st.Val)
					}
				}
				return
			}
			allLocal = false
			walk(x.X)
		case *ssa.Slice:
			walk(x.X)
		case *ssa.ChangeType:
			walk(x.X)
		case *ssa.Convert:
			walk(x.X)
		case *ssa.ChangeInterface:
			walk(x.X)
		case *ssa.MakeInterface:
			walk(x.X)
		case *ssa.TypeAssert:
			walk(x.X)
		case *ssa.Extract:
			walk(x.Tuple)
		case *ssa.Phi:
			for _, e := range x.Edges {
				walk(e)
			}
		case *ssa.Global:
			allLocal = false
			bump(MemShared, "global "+x.String())
			info.Roots = append(info.Roots, x)
		case *ssa.Alloc:
			info.Roots = append(info.Roots, x)
		case *ssa.MakeSlice, *ssa.MakeMap, *ssa.MakeChan, *ssa.MakeClosure, *ssa.Const:
			info.Roots = append(info.Roots, v)
		case *ssa.Call:
			// append(x, ...) continues into x; other calls end the chain
			if bi, ok := x.Call.Value.(*ssa.Builtin); ok && bi.Name() == "append" {
				walk(x.Call.Args[0])
				return
			}
			allLocal = false
			info.Roots = append(info.Roots, v)
		default:
			allLocal = false
			info.Roots = append(info.Roots, v)
		}
	}
	walk(v)
	if allLocal {
		info.Class = MemLocal
		return info
	}
	info.Class, info.Why = tClass, tWhy
	if info.Class == MemLocal {
		info.Class = MemPerCall
	}
	return info
}

// cellOnlyLoadStore: the Alloc is a plain variable cell — only loaded from and stored to directly
// (its address does not escape into calls, fields or closures).
func cellOnlyLoadStore(a *ssa.Alloc) bool {
	for _, ref := range referrersOf(a) {
		switch x := ref.(type) {
		case *ssa.Store:
			if x.Addr != ssa.Value(a) {
				return false // the address itself is stored somewhere
			}
		case *ssa.UnOp, *ssa.DebugRef:
		default:
			return false
		}
	}
	return true
}

// Write is a memory write found in a function.
type Write struct {
	Fn    *ssa.Function
	Instr ssa.Instruction
	Addr  ssa.Value // address (Store), map (MapUpdate) or destination slice (append/copy)
	Kind  string    // "store", "mapupdate", "append", "copy", "delete", "clear"
	Val   ssa.Value // stored value where applicable
}

// WritesOf lists every memory write of fn (stores to non-escaping locals included; filter by class).
func WritesOf(fn *ssa.Function) []Write {
	var out []Write
	for _, b := range fn.Blocks {
		for _, ins := range b.Instrs {
			switch v := ins.(type) {
			case *ssa.Store:
				out = append(out, Write{fn, ins, v.Addr, "store", v.Val})
			case *ssa.MapUpdate:
				out = append(out, Write{fn, ins, v.Map, "mapupdate", v.Value})
			case ssa.CallInstruction:
				if bi, ok := v.Common().Value.(*ssa.Builtin); ok {
					switch bi.Name() {
					case "append", "copy", "delete", "clear":
						if len(v.Common().Args) > 0 {
							out = append(out, Write{fn, ins, v.Common().Args[0], bi.Name(), nil})
						}
					}
				}
			}
		}
	}
	return out
}

func (w *World) describeTypes(set map[*types.Named]string) []string {
	var out []string
	for t, why := range set {
		out = append(out, typeShort(t)+" — "+why)
	}
	sort.Strings(out)
	return out
}

func shortVal(v ssa.Value) string {
	s := v.String()
	s = strings.ReplaceAll(s, modPath+"/", "")
	if len(s) > 120 {
		s = s[:120] + "…"
	}
	return s
}
