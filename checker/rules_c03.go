package main

// rules_c03.go — C03 (safe mode emits only inert markup), built on the sink model.

import (
	"fmt"
	"go/ast"
	"go/constant"
	"go/token"
	"go/types"
	"regexp"
	"sort"
	"strings"

	"golang.org/x/tools/go/ssa"
)

func init() {
	register(&Property{
		ID:      "C03",
		Level:   "other",
		Explain: "Decides, for every registered render function of the module (core and extensions) and every helper that receives the output writer, in the safe configuration: (S) every byte reaching the writer is a constant, an integer, renderer configuration, or has passed util.EscapeHTML/EscapeHTMLByte or html.Writer.Write/RawWrite — with two reviewed, separately checked exceptions (attribute names, code-flagged String nodes); (U) raw node bytes are written only under the Unsafe flag; (C) by a character-level HTML lexer run over the constant writes along every CFG path: inside a double-quoted attribute value only escaped/integer/config data or constants free of '<' and '\"' are written, inside a tag only constants/integers/attribute names, every render function starts and ends in text state; (V) the tag vocabulary is closed, the only comment is the placeholder, no bare '&'; (T) the escape table is exactly \" & < >; (E) the sanitisers examine every byte (their scanning loops step by exactly one) and the text writer emits only through the sanitiser; (N) attribute names produced by the parser are restricted to a safe alphabet (predicates evaluated for all 256 bytes). Does NOT decide proper nesting/closing of elements across different nodes of an arbitrary tree, nor XML well-formedness of character data.",
		Trusted: []string{"bodies of util.EscapeHTML/EscapeHTMLByte and defaultWriter.RawWrite beyond the shape rules C03-E/T", "bufio.Writer"},
		Assumes: []string{"renderer configuration (options, hook functions, typographer substitutions) is trusted", "user-supplied renderers/extensions out of scope"},
		Rules:   []func(*World, *Report){ruleSinkDiscipline, ruleVocabulary, ruleEscapeTable, ruleSanitiserLoops, ruleResolvingWriter, ruleAttrNameProducers, ruleStringProducers, ruleOptionValueStored, ruleMembershipByBytes, ruleRewritersReturnBuffer},
	})
}

// LexAll runs the lexer dataflow from every registered render function (entry state: text) and
// returns all sink events. Memoised per World.
func (w *World) LexAll() *LexRun {
	if v, ok := w.memo["lexall"]; ok {
		return v.(*LexRun)
	}
	sa := w.Sinks()
	lr := sa.NewLexRun()
	for _, reg := range w.Registrations() {
		if reg.Func != nil {
			lr.Analyze(reg.Func, LexState{Mode: LexText}, nil)
		}
	}
	// exported helpers that write attributes start inside a tag
	w.memo["lexall"] = lr
	return lr
}

// unsafeGated: the instruction is dominated by the true edge of a load of html.Config.Unsafe.
func (w *World) unsafeGated(ins ssa.Instruction) bool {
	for _, cf := range dominatingConds(ins.Block()) {
		for _, a := range condAtoms(cf.If.Cond, cf.Truth) {
			if a.Truth && w.isConfigFlagLoad(a.V, "Unsafe") {
				return true
			}
		}
	}
	return false
}

// isConfigFlagLoad: v is a load of field `name` of renderer/html.Config.
func (w *World) isConfigFlagLoad(v ssa.Value, name string) bool {
	u, ok := v.(*ssa.UnOp)
	if !ok || u.Op != token.MUL {
		return false
	}
	fa, ok := u.X.(*ssa.FieldAddr)
	if !ok {
		return false
	}
	t, f := fieldOfAddr(fa)
	return f != nil && f.Name() == name && typeShort(t) == "renderer/html.Config"
}

func sinkKey(w *World, ev SinkEvent) string {
	p := ev.Sink.Pieces[ev.Piece]
	what := p.Data.Kind.String()
	if p.Const {
		what = fmt.Sprintf("const %q", truncate(p.Text, 30))
	} else if p.Data.Why != "" {
		what += "(" + p.Data.Why + ")"
	}
	return fmt.Sprintf("%s: %s %s in %s", w.FnKey(ev.Sink.Fn), ev.Sink.Method, what, ev.State)
}

func truncate(s string, n int) string {
	if len(s) > n {
		return s[:n] + "…"
	}
	return s
}

func ruleSinkDiscipline(w *World, r *Report) {
	sa := w.Sinks()
	regs := w.Registrations()
	r.Rule("C03-S", "Every sink's data is Const, Int, Config or Escaped (util.EscapeHTML*, html.Writer.Write/RawWrite). Tainted data is accepted only as (1) the Name of an ast.Attribute (checked by C03-N and the filter test) or (2) the Value of an ast.String under IsCode() (checked by C03-P), or when the sink is dominated by Config.Unsafe == true (C03-U).")
	nreg := 0
	kinds := map[string]int{}
	for _, reg := range regs {
		if reg.Func == nil {
			r.Unknown(w.FnKey(reg.Registrar)+": Register call", w.InstrPos(reg.Site), "cannot resolve the registered function value")
			continue
		}
		nreg++
	}
	r.Expect("registered render functions", nreg, 16)
	lr := w.LexAll()
	r.Expect("sink writes analysed (pieces, per lexer context)", len(lr.Events), 100)

	r.Rule("C03-C", "Lexer state over the constant writes along every CFG path: every registered render function starts in text state and returns in text state; in attribute-value state every write is Escaped, Int, Config, or a constant without '<' (a '\"' closes the value); in tag state every non-constant write is Int, a choice of constants, or an attribute name; a join of different states is undecided.")
	r.Rule("C03-U", "Raw node bytes (html.Writer.SecureWrite, BufWriter.Write of node/source data) are written only where Config.Unsafe == true dominates the write.")
	nAttr, nTag, nGated, nEsc := 0, 0, 0, 0
	for _, ev := range lr.Events {
		p := ev.Sink.Pieces[ev.Piece]
		key := sinkKey(w, ev)
		pos := w.InstrPos(ev.Sink.Instr)
		kinds[p.Data.Kind.String()]++
		gated := w.unsafeGated(ev.Sink.Instr)
		if ev.State.Mode == LexConflict {
			r.curRule = "C03-C"
			r.Unknown(key, pos, "write reached with different lexer states on different paths; chain "+strings.Join(ev.Chain, " > "))
			continue
		}
		// --- S / U
		switch {
		case p.Data.Kind <= DConfig || p.Data.Kind == DEscaped:
			if p.Data.Kind == DEscaped {
				nEsc++
			}
		case gated:
			nGated++
			r.curRule = "C03-U"
			r.OK(key, pos, "raw write is dominated by Config.Unsafe == true")
			continue
		case p.Data.Tag == "attr-name":
			r.curRule = "C03-S"
			if ok, why := w.attrNameFiltered(ev.Sink); ok {
				r.OK(key, pos, "exception 1: attribute name ("+why+"); alphabet by C03-N")
			} else {
				r.Bad(key, pos, "attribute name written without the filter test: "+why, ev.Chain...)
			}
			if ev.State.Mode != LexTag {
				r.curRule = "C03-C"
				r.Bad(key+" (position)", pos, "attribute name written outside a tag: state "+ev.State.String(), ev.Chain...)
			}
			continue
		case w.isCodeStringValue(ev.Sink, p):
			r.curRule = "C03-S"
			r.OK(key, pos, "exception 2: String.Value under IsCode(); producers checked by C03-P")
			continue
		default:
			r.curRule = "C03-S"
			r.Bad(key, pos, fmt.Sprintf("unescaped %s data reaches the output in safe mode (%s)", p.Data.Kind, p.Data.Why), ev.Chain...)
			continue
		}
		// --- C
		switch ev.State.Mode {
		case LexAttr:
			nAttr++
			r.curRule = "C03-C"
			if p.Const {
				if ev.State.ltInAttr(p.Text) {
					r.Bad(key, pos, fmt.Sprintf("constant %q containing '<' is written inside %s", p.Text, ev.State), ev.Chain...)
				} else {
					r.OK(key, pos, "constant without '<' inside "+ev.State.String())
				}
			} else if p.Data.Kind == DConst {
				bad := false
				for _, a := range p.Data.Alts {
					if strings.ContainsAny(a, "<\"") {
						bad = true
					}
				}
				if bad {
					r.Bad(key, pos, "constant alternative containing '<' or '\"' inside "+ev.State.String(), ev.Chain...)
				} else {
					r.OK(key, pos, "choice of harmless constants inside "+ev.State.String())
				}
			} else {
				r.OK(key, pos, p.Data.Kind.String()+" data inside "+ev.State.String())
			}
		case LexTag:
			nTag++
			r.curRule = "C03-C"
			if p.Const || p.Data.Kind == DConst || p.Data.Kind == DInt {
				r.OK(key, pos, "constant/integer inside a tag")
			} else {
				r.Bad(key, pos, fmt.Sprintf("%s data written inside a tag but outside a quoted value: escaping does not neutralise spaces there", p.Data.Kind), ev.Chain...)
			}
		}
	}
	r.curRule = "C03-S"
	r.OK("all sinks classified", "", fmt.Sprintf("%d sink writes: %v", len(lr.Events), kinds))
	r.curRule = "C03-C"
	r.Expect("writes inside attribute values", nAttr, 15)
	r.Expect("writes inside tags", nTag, 20)
	r.curRule = "C03-U"
	r.Expect("unsafe-gated raw writes", nGated, 1)
	// every registered function returns in text state
	r.curRule = "C03-C"
	for _, reg := range regs {
		if reg.Func == nil {
			continue
		}
		ex := lr.exit[ctxKey{reg.Func, LexState{Mode: LexText}}]
		key := w.FnKey(reg.Func) + ": balanced"
		if ex.Mode == LexText {
			r.OK(key, w.FnPos(reg.Func), "starts and ends in text state on every path")
		} else {
			r.Bad(key, w.FnPos(reg.Func), "a path returns in state "+ex.String()+": a tag or attribute value is left open across nodes")
		}
	}
	// SecureWrite/raw placeholder: the false edge writes constants only — implied by S (no tainted write ungated)
	_ = sa
	_ = nEsc
}

// attrNameFiltered: the attribute-name write is, when the function has a filter parameter,
// dominated by filter == nil || filter.Contains(name) || HasPrefix(name, "data-").
func (w *World) attrNameFiltered(s *Sink) (bool, string) {
	fn := s.Fn
	var filter *ssa.Parameter
	bf := w.Named("util", "BytesFilter")
	for _, p := range fn.Params {
		if bf != nil && types.Identical(p.Type(), bf) {
			filter = p
		}
	}
	if filter == nil {
		return false, "no BytesFilter parameter in " + w.FnKey(fn)
	}
	// Look for an `If` on filter.Contains(...) / bytes.HasPrefix / filter != nil among the conditions
	// that control reaching the write from the loop header: the write's block must not be reachable
	// when Contains is false and HasPrefix is false and filter != nil.
	blk := s.Instr.Block()
	reach := w.reachableAvoiding(fn, blk, w.filterAllowedEdge(filter, 0))
	if reach {
		return false, "the write is reachable on a path where the filter rejected the name"
	}
	return true, "every path to the write passes filter==nil, filter.Contains(name) or HasPrefix(name,\"data-\")"
}

// filterAllowedEdge: the edges that justify writing an attribute name for the given filter value: filter == nil,
// filter.Contains(name) true, HasPrefix(name, "data-") true, or the true edge of a module predicate that receives the
// filter and answers true only through such edges (the test extracted into a helper).
func (w *World) filterAllowedEdge(filter ssa.Value, depth int) func(from *ssa.BasicBlock, succIdx int) bool {
	return func(from *ssa.BasicBlock, succIdx int) bool {
		iff, ok := from.Instrs[len(from.Instrs)-1].(*ssa.If)
		if !ok {
			return false
		}
		for _, a := range condAtoms(iff.Cond, succIdx == 0) {
			if w.filterAtomAllows(a.V, a.Truth, filter, depth) {
				return true
			}
		}
		return false
	}
}

func (w *World) filterAtomAllows(v ssa.Value, truth bool, filter ssa.Value, depth int) bool {
	if c, ok := v.(*ssa.Call); ok {
		com := c.Common()
		if com.IsInvoke() && com.Method.Name() == "Contains" && com.Value == filter && truth {
			return true
		}
		if cal := com.StaticCallee(); cal != nil && cal.String() == "bytes.HasPrefix" && truth {
			if k, ok := w.constBytes(com.Args[1]); ok && k == "data-" {
				return true
			}
		}
		if cal := com.StaticCallee(); cal != nil && truth && depth < 2 && w.InModule(cal) && cal.Blocks != nil {
			for ai, arg := range com.Args {
				if arg == filter && ai < len(cal.Params) && w.filterPredicateOK(cal, cal.Params[ai], depth+1) {
					return true
				}
			}
		}
	}
	if x, isNil, ok := nilTest(v); ok && x == filter && isNil == truth {
		return true // filter == nil: render everything (documented)
	}
	return false
}

// filterPredicateOK: every way the bool function can answer true goes through an allowed edge (or is the allowed test
// itself, returned as a value).
func (w *World) filterPredicateOK(fn *ssa.Function, filter ssa.Value, depth int) bool {
	if fn.Signature.Results().Len() != 1 || !isBool(fn.Signature.Results().At(0).Type()) {
		return false
	}
	allowed := w.filterAllowedEdge(filter, depth)
	for _, b := range fn.Blocks {
		ret, ok := b.Instrs[len(b.Instrs)-1].(*ssa.Return)
		if !ok {
			continue
		}
		type src struct {
			v    ssa.Value
			from *ssa.BasicBlock
		}
		var srcs []src
		if ph, ok := ret.Results[0].(*ssa.Phi); ok && ph.Block() == b {
			for i, e := range ph.Edges {
				srcs = append(srcs, src{e, b.Preds[i]})
			}
		} else {
			srcs = []src{{ret.Results[0], b}}
		}
		for _, sc := range srcs {
			if cb, isC := constBool(sc.v); isC {
				if !cb {
					continue
				}
				// the constant arrives along the edge sc.from -> b: fine if that very edge is an allowed one (the
				// short-circuit "test was true" edge), otherwise the block it comes from must be guarded
				edgeOK := false
				if sc.from != b {
					for si, sx := range sc.from.Succs {
						if sx == b && len(sc.from.Succs) == 2 && allowed(sc.from, si) {
							edgeOK = true
						}
					}
				}
				if !edgeOK && w.reachableAvoiding(fn, sc.from, allowed) {
					return false
				}
				continue
			}
			if !w.filterAtomAllows(sc.v, true, filter, depth) {
				return false
			}
		}
	}
	return true
}

// reachableAvoiding: is target reachable from the entry block using no "allowed" edge?
// (If the target can only be reached through allowed edges, the guard holds.)
func (w *World) reachableAvoiding(fn *ssa.Function, target *ssa.BasicBlock, allowed func(from *ssa.BasicBlock, succIdx int) bool) bool {
	seen := map[*ssa.BasicBlock]bool{}
	var stack []*ssa.BasicBlock
	stack = append(stack, fn.Blocks[0])
	seen[fn.Blocks[0]] = true
	for len(stack) > 0 {
		b := stack[len(stack)-1]
		stack = stack[:len(stack)-1]
		if b == target {
			return true
		}
		for i, s := range b.Succs {
			if allowed(b, i) {
				continue
			}
			if !seen[s] {
				seen[s] = true
				stack = append(stack, s)
			}
		}
	}
	return false
}

// reachableAvoidingCond: like reachableAvoiding, but conditions that were computed as values are resolved first: when
// the branch tests a phi (possibly negated) that sits in the branching block, the phi is replaced by the operand of the
// edge the search arrived through — a constant operand prunes the infeasible successor, any other operand becomes the
// condition `blocked` is asked about. `blocked(cond, truth)` says that taking the edge on which cond == truth is one
// of the guarded ways (the search does not continue through it).
func (w *World) reachableAvoidingCond(fn *ssa.Function, target *ssa.BasicBlock, blocked func(cond ssa.Value, truth bool) bool) bool {
	type state struct{ b, pred *ssa.BasicBlock }
	seen := map[state]bool{}
	stack := []state{{fn.Blocks[0], nil}}
	for len(stack) > 0 {
		st := stack[len(stack)-1]
		stack = stack[:len(stack)-1]
		if seen[st] {
			continue
		}
		seen[st] = true
		b := st.b
		if b == target {
			return true
		}
		iff, isIf := b.Instrs[len(b.Instrs)-1].(*ssa.If)
		for i, s := range b.Succs {
			if isIf && len(b.Succs) == 2 {
				cond := iff.Cond
				truth := i == 0
				for depth := 0; depth < 4; depth++ {
					if u, ok := cond.(*ssa.UnOp); ok && u.Op == token.NOT {
						cond, truth = u.X, !truth
						continue
					}
					if ph, ok := cond.(*ssa.Phi); ok && ph.Block() == b && st.pred != nil {
						for pi, p := range b.Preds {
							if p == st.pred {
								cond = ph.Edges[pi]
							}
						}
						if _, still := cond.(*ssa.Phi); still {
							break
						}
						continue
					}
					break
				}
				if cb, isC := constBool(cond); isC {
					if cb != truth {
						continue // infeasible successor on this way in
					}
				} else if blocked(cond, truth) {
					continue
				}
			}
			stack = append(stack, state{s, b})
		}
	}
	return false
}

// constBytes: v is a []byte whose content is a known constant: []byte("lit") or a package-level
// variable initialised with such a literal and never reassigned.
func (w *World) constBytes(v ssa.Value) (string, bool) {
	switch x := v.(type) {
	case *ssa.Convert:
		return constString(x.X)
	case *ssa.Slice:
		return w.constBytes(x.X)
	case *ssa.UnOp:
		if g, ok := x.X.(*ssa.Global); ok {
			return w.globalBytesLiteral(g)
		}
	case *ssa.Const:
		return constString(x)
	}
	return "", false
}

// globalBytesLiteral finds `var g = []byte("lit")` in the syntax and checks g is assigned nowhere else.
func (w *World) globalBytesLiteral(g *ssa.Global) (string, bool) {
	obj, ok := g.Object().(*types.Var)
	if !ok {
		return "", false
	}
	pkg := w.Pkgs[obj.Pkg().Path()]
	if pkg == nil {
		return "", false
	}
	// writes other than the initialiser?
	for _, fn := range w.Funcs {
		if fn.Name() == "init" {
			continue
		}
		for _, b := range fn.Blocks {
			for _, ins := range b.Instrs {
				if st, ok := ins.(*ssa.Store); ok && st.Addr == ssa.Value(g) {
					return "", false
				}
			}
		}
	}
	for _, f := range pkg.Syntax {
		for _, d := range f.Decls {
			gd, ok := d.(*ast.GenDecl)
			if !ok || gd.Tok != token.VAR {
				continue
			}
			for _, sp := range gd.Specs {
				vs := sp.(*ast.ValueSpec)
				for i, n := range vs.Names {
					if pkg.TypesInfo.Defs[n] != obj || i >= len(vs.Values) {
						continue
					}
					call, ok := vs.Values[i].(*ast.CallExpr)
					if !ok || len(call.Args) != 1 {
						return "", false
					}
					tv, ok := pkg.TypesInfo.Types[call.Args[0]]
					if !ok || tv.Value == nil || tv.Value.Kind() != constant.String {
						return "", false
					}
					if !isByteSlice(pkg.TypesInfo.TypeOf(call)) {
						return "", false
					}
					return constant.StringVal(tv.Value), true
				}
			}
		}
	}
	return "", false
}

// isCodeStringValue: the data is field Value of an ast.String and the sink is dominated by IsCode() == true.
func (w *World) isCodeStringValue(s *Sink, p Piece) bool {
	if p.Data.Tag != "node-field:ast.String.Value" {
		return false
	}
	for _, cf := range dominatingConds(s.Instr.Block()) {
		for _, a := range condAtoms(cf.If.Cond, cf.Truth) {
			if c, ok := a.V.(*ssa.Call); ok && a.Truth {
				if cal := c.Common().StaticCallee(); cal != nil && cal.Name() == "IsCode" {
					return true
				}
			}
		}
	}
	return false
}

// ---- C03-V vocabulary ---------------------------------------------------------------------------

var tagRe = regexp.MustCompile(`</?([A-Za-z][A-Za-z0-9]*)`)
var ampRe = regexp.MustCompile(`&(#[0-9]+;|#[xX][0-9a-fA-F]+;|[A-Za-z][A-Za-z0-9]*;)?`)

func ruleVocabulary(w *World, r *Report) {
	r.Rule("C03-V", "All constant sink strings are extracted: every tag name opened or closed in text state comes from constants only (the closed vocabulary is printed in the evidence); a constant containing '<!--' is exactly the placeholder '<!-- raw HTML omitted -->' (+ optional newline); no constant contains a bare '&' outside a well-formed character reference.")
	lr := w.LexAll()
	vocab := map[string]bool{}
	n := 0
	consts := map[string]bool{}
	for _, ev := range lr.Events {
		p := ev.Sink.Pieces[ev.Piece]
		var texts []string
		if p.Const {
			texts = []string{p.Text}
		} else if p.Data.Kind == DConst {
			texts = p.Data.Alts
		} else {
			continue
		}
		for _, t := range texts {
			n++
			consts[t] = true
			key := fmt.Sprintf("%s: const %q", w.FnKey(ev.Sink.Fn), truncate(t, 40))
			pos := w.InstrPos(ev.Sink.Instr)
			if strings.Contains(t, "<!--") {
				if strings.TrimSuffix(t, "\n") != "<!-- raw HTML omitted -->" {
					r.Bad(key, pos, "a comment other than the fixed placeholder is emitted")
				} else {
					r.OK(key, pos, "the fixed placeholder comment")
				}
			}
			for _, m := range ampRe.FindAllStringSubmatch(t, -1) {
				if m[1] == "" {
					r.Bad(key, pos, "constant contains a bare '&'")
				}
			}
			if ev.State.Mode == LexText {
				for _, m := range tagRe.FindAllStringSubmatch(t, -1) {
					vocab[strings.ToLower(m[1])] = true
				}
			}
			if ev.State.Mode == LexTag && ev.State.Cand == "" && !ev.State.Eq {
				// continuation of a tag name written separately (e.g. '<' then "ul")
				if regexp.MustCompile(`^[A-Za-z][A-Za-z0-9]*$`).MatchString(t) {
					vocab[strings.ToLower(t)] = true
				}
			}
		}
	}
	r.Expect("constant sink strings", n, 81)
	names := sortedKeys(vocab)
	r.OK("tag vocabulary (closed set from constants)", "", strings.Join(names, " "))
	r.Quiet("C03-V constants: %d distinct", len(consts))
	// a reviewed ceiling: elements that can execute script or load resources must not be in the vocabulary
	for _, bad := range []string{"script", "iframe", "object", "embed", "style", "link", "meta", "base", "form", "svg", "math"} {
		if vocab[bad] {
			r.Bad("vocabulary contains <"+bad+">", "", "an active element is emitted from a constant")
		}
	}
	if len(names) < 20 {
		r.Unknown("tag vocabulary size", "", fmt.Sprintf("only %d tag names recovered from constants", len(names)))
	}
}

// ---- C03-T escape table -----------------------------------------------------------------------------

func ruleEscapeTable(w *World, r *Report) {
	r.Rule("C03-T", "util.htmlEscapeTable is a constant composite literal with exactly the entries '\"'->&quot;, '&'->&amp;, '<'->&lt;, '>'->&gt; and 252 nils (evaluated from the syntax tree; the referenced variables are []byte literals assigned nowhere else).")
	tbl, ok := w.evalEscapeTable()
	if !ok {
		r.Unknown("util.htmlEscapeTable", "", "table not found or not a constant literal")
		return
	}
	want := map[int]string{'"': "&quot;", '&': "&amp;", '<': "&lt;", '>': "&gt;"}
	bad := 0
	for i := 0; i < 256; i++ {
		if tbl[i] != want[i] {
			bad++
			r.Bad(fmt.Sprintf("util.htmlEscapeTable[%d]", i), "", fmt.Sprintf("entry is %q, expected %q", tbl[i], want[i]))
		}
	}
	if bad == 0 {
		r.OK("util.htmlEscapeTable", "", "256 entries evaluated: \" & < > escaped, all others nil")
	}
	// the table must not be written anywhere
	if g := w.findEscapeTableGlobal(); g != nil {
		for _, fn := range w.Funcs {
			if fn.Name() == "init" {
				continue
			}
			for _, wr := range WritesOf(fn) {
				for _, root := range w.ClassifyRef(wr.Addr).Roots {
					if root == ssa.Value(g) {
						r.Bad("util.htmlEscapeTable written in "+w.FnKey(fn), w.InstrPos(wr.Instr), "the escape table is modified at run time")
					}
				}
			}
		}
	}
}

func (w *World) findEscapeTableGlobal() *ssa.Global {
	f := w.PkgFunc("util", "EscapeHTMLByte")
	if f == nil {
		return nil
	}
	for _, b := range f.Blocks {
		for _, ins := range b.Instrs {
			if ia, ok := ins.(*ssa.IndexAddr); ok {
				if g, ok := ia.X.(*ssa.Global); ok {
					return g
				}
			}
		}
	}
	return nil
}

// evalEscapeTable evaluates the [256]*[]byte literal behind EscapeHTMLByte.
func (w *World) evalEscapeTable() ([256]string, bool) {
	var out [256]string
	g := w.findEscapeTableGlobal()
	if g == nil {
		return out, false
	}
	obj := g.Object()
	pkg := w.Pkgs[obj.Pkg().Path()]
	for _, f := range pkg.Syntax {
		for _, d := range f.Decls {
			gd, ok := d.(*ast.GenDecl)
			if !ok || gd.Tok != token.VAR {
				continue
			}
			for _, sp := range gd.Specs {
				vs := sp.(*ast.ValueSpec)
				for i, n := range vs.Names {
					if pkg.TypesInfo.Defs[n] != obj || i >= len(vs.Values) {
						continue
					}
					cl, ok := vs.Values[i].(*ast.CompositeLit)
					if !ok {
						return out, false
					}
					idx := 0
					for _, el := range cl.Elts {
						val := el
						if kv, ok := el.(*ast.KeyValueExpr); ok {
							tv := pkg.TypesInfo.Types[kv.Key]
							if tv.Value == nil {
								return out, false
							}
							k, _ := constant.Int64Val(tv.Value)
							idx = int(k)
							val = kv.Value
						}
						if idx > 255 {
							return out, false
						}
						switch x := val.(type) {
						case *ast.Ident:
							if x.Name != "nil" {
								return out, false
							}
						case *ast.UnaryExpr:
							id, ok := x.X.(*ast.Ident)
							if !ok || x.Op != token.AND {
								return out, false
							}
							vobj, ok := pkg.TypesInfo.Uses[id].(*types.Var)
							if !ok {
								return out, false
							}
							sg, _ := w.SPkgs[obj.Pkg().Path()].Members[vobj.Name()].(*ssa.Global)
							if sg == nil {
								return out, false
							}
							s, ok := w.globalBytesLiteral(sg)
							if !ok {
								return out, false
							}
							out[idx] = s
						default:
							return out, false
						}
						idx++
					}
					return out, true
				}
			}
		}
	}
	return out, false
}

// ---- C03-E sanitiser loops -------------------------------------------------------------------------

func ruleSanitiserLoops(w *World, r *Report) {
	r.Rule("C03-E", "The sanitisers examine every byte: in util.EscapeHTML and in every html.Writer implementation's RawWrite, the scanning loop's index advances by exactly 1 on every cycle and the escape table is consulted with the byte at that index in the loop body; and the module's html.Writer.Write emits only through RawWrite/escapeRune-style helpers whose own writes are Escaped/Const (no raw BufWriter write of its input).")
	var fns []*ssa.Function
	if f := w.PkgFunc("util", "EscapeHTML"); f != nil {
		fns = append(fns, f)
	}
	hw := w.Iface("renderer/html", "Writer")
	impls := w.Implementers(hw)
	for _, t := range impls {
		if f := w.MethodOf(t, "RawWrite"); f != nil && w.InModule(f) {
			fns = append(fns, f)
		}
	}
	r.Expect("sanitiser scanning functions", len(fns), 1)
	tblG := w.findEscapeTableGlobal()
	escByte := w.PkgFunc("util", "EscapeHTMLByte")
	for _, fn := range fns {
		key := w.FnKey(fn)
		loops := findLoops(fn)
		src := fn.Params[len(fn.Params)-1]
		w.escFuncParam = nil
		if len(loops) == 0 && escByte != nil {
			// the scanning loop shared with a sibling through a helper that receives the lookup as a function value:
			// helper(writer, source, util.EscapeHTMLByte) — the helper's loop is examined with that parameter standing
			// for the lookup
			for _, b := range fn.Blocks {
				for _, ins := range b.Instrs {
					c, ok := ins.(*ssa.Call)
					if !ok {
						continue
					}
					cal := c.Common().StaticCallee()
					if cal == nil || !w.InModule(cal) || cal.Blocks == nil {
						continue
					}
					var sp, fp *ssa.Parameter
					for ai, a := range c.Common().Args {
						if ai >= len(cal.Params) {
							continue
						}
						if a == ssa.Value(src) {
							sp = cal.Params[ai]
						}
						for _, f := range funcValues(a) {
							if f == escByte {
								fp = cal.Params[ai]
							}
						}
					}
					if sp != nil && fp != nil && len(findLoops(cal)) == 1 {
						fn, src, loops = cal, sp, findLoops(cal)
						w.escFuncParam = fp
						key = w.FnKey(fn) + " (for " + key + ")"
					}
				}
			}
		}
		if len(loops) != 1 {
			r.Unknown(key+": scanning loop", w.FnPos(fn), fmt.Sprintf("expected exactly one loop, found %d", len(loops)))
			continue
		}
		lp := loops[0]
		// index phis: integer phis at the header used as an index into the []byte parameter
		// the scanning index: either the classic form (header phi i, used as source[i], back edges carry i+1) or the
		// range form go/ssa produces for `for i, c := range source` (header phi r starting at -1, i = r+1 computed in the
		// header and used as source[i], back edges carry that same i)
		var idxPhi *ssa.Phi
		var idx ssa.Value
		rangeForm := false
		for _, ins := range lp.Header.Instrs {
			ph, ok := ins.(*ssa.Phi)
			if !ok {
				break
			}
			for _, ref := range referrersOf(ph) {
				if ia, ok := ref.(*ssa.IndexAddr); ok && ia.X == ssa.Value(src) && ia.Index == ssa.Value(ph) {
					idxPhi, idx = ph, ph
				}
				if bo, ok := ref.(*ssa.BinOp); ok && bo.Op == token.ADD && bo.X == ssa.Value(ph) && bo.Block() == lp.Header {
					if c, isC := constInt(bo.Y); isC && c == 1 {
						for _, r2 := range referrersOf(bo) {
							if ia, ok := r2.(*ssa.IndexAddr); ok && ia.X == ssa.Value(src) && ia.Index == ssa.Value(bo) {
								idxPhi, idx, rangeForm = ph, bo, true
							}
						}
					}
				}
			}
		}
		if idx == nil {
			r.Unknown(key+": scanning loop", w.FnPos(fn), "no loop index used as source[i] found")
			continue
		}
		ok := true
		for i, p := range lp.Header.Preds {
			if !lp.Body[p] {
				continue
			}
			e := idxPhi.Edges[i]
			if rangeForm {
				if e != idx {
					ok = false
				}
				continue
			}
			b, isB := e.(*ssa.BinOp)
			if !isB || b.Op != token.ADD || b.X != ssa.Value(idxPhi) {
				ok = false
				continue
			}
			if c, isC := constInt(b.Y); !isC || c != 1 {
				ok = false
			}
		}
		if ok {
			r.OK(key+": index steps by 1", w.FnPos(fn), "every back edge carries i+1")
		} else {
			r.Bad(key+": index steps by 1", w.FnPos(fn), "the scanning index can advance by something other than 1: bytes are copied without being tested against the escape table")
		}
		// the table (or EscapeHTMLByte) is consulted with source[i] in the loop body, on every cycle:
		// the consulting instruction's block must dominate every latch.
		consult := false
		for b := range lp.Body {
			for _, ins := range b.Instrs {
				var arg ssa.Value
				switch x := ins.(type) {
				case *ssa.IndexAddr:
					if tblG != nil && x.X == ssa.Value(tblG) {
						arg = x.Index
					}
				case *ssa.Call:
					if w.isEscLookupCall(x, escByte) {
						arg = x.Common().Args[0]
					}
				}
				if arg == nil {
					continue
				}
				// arg must be source[idx]
				u, isU := stripConv(arg).(*ssa.UnOp)
				if !isU {
					continue
				}
				ia, isIA := u.X.(*ssa.IndexAddr)
				if !isIA || ia.X != ssa.Value(src) || ia.Index != idx {
					continue
				}
				domAll := true
				for _, p := range lp.Header.Preds {
					if lp.Body[p] && !b.Dominates(p) {
						domAll = false
					}
				}
				if domAll {
					consult = true
				}
			}
		}
		if consult {
			r.OK(key+": table consulted for every index", w.FnPos(fn), "escape lookup of source[i] dominates every back edge")
		} else {
			r.Bad(key+": table consulted for every index", w.FnPos(fn), "some cycle of the loop does not look source[i] up in the escape table")
		}
		w.checkEscapeAlwaysWritten(r, fn, lp, src, idx, tblG, escByte)
	}
	// html.Writer.Write: no raw BufWriter sink with tainted data
	sa := w.Sinks()
	nW := 0
	for _, t := range impls {
		for _, m := range []string{"Write", "RawWrite"} {
			f := w.MethodOf(t, m)
			if f == nil || !w.InModule(f) {
				continue
			}
			nW++
			src := f.Params[len(f.Params)-1]
			for _, b := range f.Blocks {
				for _, ins := range b.Instrs {
					s := sa.sinkAt(f, ins)
					if s == nil {
						continue
					}
					for _, p := range s.Pieces {
						key := fmt.Sprintf("%s: %s %s", w.FnKey(f), s.Method, p.Data.Kind)
						if p.Data.Kind != DTainted {
							r.OK(key, w.InstrPos(ins), "escaped/constant write")
							continue
						}
						if m == "RawWrite" && w.isExaminedRange(f, s, src) {
							r.OK(key+" (examined range)", w.InstrPos(ins), "RawWrite copies a range of its source counted by the run-length counter of bytes found not to need escaping")
							continue
						}
						r.Bad(key, w.InstrPos(ins), "the text writer passes its input to the output without going through the escaping path ("+p.Data.Why+")")
					}
				}
			}
		}
	}
	r.Expect("html.Writer Write/RawWrite implementations", nW, 1)
}

// isEscLookupCall: a call of util.EscapeHTMLByte, or of the function parameter that stands for it while a shared
// scanning helper is examined.
func (w *World) isEscLookupCall(x *ssa.Call, escByte *ssa.Function) bool {
	if escByte != nil && x.Common().StaticCallee() == escByte {
		return true
	}
	return w.escFuncParam != nil && !x.Common().IsInvoke() && x.Common().Value == w.escFuncParam
}

// checkEscapeAlwaysWritten (C03-E, third clause): once the lookup of source[i] has returned an escape, the cycle cannot
// get back to the loop header (or leave the loop) without having handed that escape to a call — a "do not escape
// twice" shortcut that skips the replacement when the following bytes look like a character reference lets
// source-controlled '&'-sequences through verbatim.
func (w *World) checkEscapeAlwaysWritten(r *Report, fn *ssa.Function, lp Loop, src *ssa.Parameter, idx ssa.Value, tblG *ssa.Global, escByte *ssa.Function) {
	key := w.FnKey(fn) + ": a found escape is always written"
	// lookup values in the loop
	var lookups []ssa.Value
	for b := range lp.Body {
		for _, ins := range b.Instrs {
			switch x := ins.(type) {
			case *ssa.UnOp:
				if ia, ok := x.X.(*ssa.IndexAddr); ok && x.Op == token.MUL && tblG != nil && ia.X == ssa.Value(tblG) {
					lookups = append(lookups, x)
				}
			case *ssa.Call:
				if w.isEscLookupCall(x, escByte) {
					lookups = append(lookups, x)
				}
			}
		}
	}
	isLookup := func(v ssa.Value) bool {
		for _, l := range lookups {
			if l == v {
				return true
			}
		}
		return false
	}
	usesLookup := func(v ssa.Value) bool {
		found := false
		operandsClosure(v, func(x ssa.Value) bool {
			if isLookup(x) {
				found = true
			}
			return !found
		})
		return found
	}
	n := 0
	for b := range lp.Body {
		iff, ok := b.Instrs[len(b.Instrs)-1].(*ssa.If)
		if !ok {
			continue
		}
		x, isNil, isT := nilTest(iff.Cond)
		if !isT || !isLookup(x) {
			continue
		}
		n++
		start := b.Succs[0] // non-nil edge
		if isNil {
			start = b.Succs[1]
		}
		// search for a way from the non-nil edge back to the header or out of the loop that passes no call taking the escape
		seen := map[*ssa.BasicBlock]bool{}
		var leak *ssa.BasicBlock
		var dfs func(c *ssa.BasicBlock)
		dfs = func(c *ssa.BasicBlock) {
			if leak != nil || seen[c] {
				return
			}
			seen[c] = true
			if c == lp.Header || !lp.Body[c] {
				leak = c
				return
			}
			for _, ins := range c.Instrs {
				if call, ok := ins.(ssa.CallInstruction); ok {
					for _, a := range call.Common().Args {
						if usesLookup(a) {
							return // the escape is written on this way
						}
					}
				}
			}
			for _, s := range c.Succs {
				dfs(s)
			}
		}
		dfs(start)
		if leak != nil {
			r.Bad(key, w.InstrPos(iff), "after the escape table returned a replacement for source[i] the loop can continue without writing it (some other condition decides): the byte stays in the pending range and is copied verbatim")
		} else {
			r.OK(key, w.InstrPos(iff), "every way from the non-nil lookup to the next cycle passes a call that receives the replacement")
		}
	}
	if n == 0 {
		r.Unknown(key, w.FnPos(fn), "no nil test of the lookup result found in the loop")
	}
}

// isExaminedRange: in RawWrite, writer.Write(source[i-n:i]) / source[l-n:] where n is a header phi that
// is reset to 0 on the escape path and incremented by 1 on the plain path (the run of examined bytes).
// isExaminedRangeFromStart recognises the other spelling of the same idiom: the pending range is source[start:i] (and
// source[start:] after the loop) where `start` is a loop-carried offset that is either kept or set to i+1. It is safe
// iff `start` is kept only on cycles on which the byte at i was looked up and found to need no escaping: every place
// where the carried value flows back unchanged is dominated by the "lookup returned nil" edge.
func (w *World) isExaminedRangeFromStart(fn *ssa.Function, sl *ssa.Slice, src *ssa.Parameter) bool {
	start, ok := sl.Low.(*ssa.Phi)
	if !ok {
		return false
	}
	loops := findLoops(fn)
	if len(loops) != 1 || start.Block() != loops[0].Header {
		return false
	}
	lp := loops[0]
	escByte := w.PkgFunc("util", "EscapeHTMLByte")
	tblG := w.findEscapeTableGlobal()
	// the lookup results in the loop
	var lookups []ssa.Value
	for b := range lp.Body {
		for _, ins := range b.Instrs {
			switch x := ins.(type) {
			case *ssa.Call:
				if w.isEscLookupCall(x, escByte) {
					lookups = append(lookups, x)
				}
			case *ssa.UnOp:
				if ia, ok := x.X.(*ssa.IndexAddr); ok && tblG != nil && ia.X == ssa.Value(tblG) {
					lookups = append(lookups, x)
				}
			}
		}
	}
	if len(lookups) == 0 {
		return false
	}
	notEscaping := func(b *ssa.BasicBlock) bool { // b runs only when a lookup returned nil
		for _, cf := range dominatingConds(b) {
			for _, a := range condAtoms(cf.If.Cond, cf.Truth) {
				if x, isNil, isT := nilTest(a.V); isT && isNil == a.Truth {
					for _, l := range lookups {
						if x == l {
							return true
						}
					}
				}
			}
		}
		return false
	}
	// nilEdge: the edge from -> to is the "lookup returned nil" outcome of a test that ends block from
	nilEdge := func(from, to *ssa.BasicBlock) bool {
		iff, ok := from.Instrs[len(from.Instrs)-1].(*ssa.If)
		if !ok || len(from.Succs) != 2 || from.Succs[0] == from.Succs[1] {
			return false
		}
		for idx, succ := range from.Succs {
			if succ != to {
				continue
			}
			for _, a := range condAtoms(iff.Cond, idx == 0) {
				if x, isNil, isT := nilTest(a.V); isT && isNil == a.Truth {
					for _, l := range lookups {
						if x == l {
							return true
						}
					}
				}
			}
		}
		return false
	}
	seen := map[*ssa.Phi]bool{}
	var okEdges func(phi *ssa.Phi) bool
	okEdges = func(phi *ssa.Phi) bool {
		if seen[phi] {
			return true
		}
		seen[phi] = true
		for i, e := range phi.Edges {
			pred := phi.Block().Preds[i]
			if phi == start && !lp.Body[pred] {
				if c, isC := constInt(e); !isC || c != 0 {
					return false
				}
				continue
			}
			switch x := e.(type) {
			case *ssa.Phi:
				if x == start {
					// kept: only on the not-escaping route (the edge's source block, or the join it comes through)
					if !notEscaping(pred) && !nilEdge(pred, phi.Block()) {
						return false
					}
					continue
				}
				if !okEdges(x) {
					return false
				}
			case *ssa.BinOp:
				c, isC := constInt(x.Y)
				if x.Op != token.ADD || !isC || c != 1 {
					return false
				}
			default:
				return false
			}
		}
		return true
	}
	return okEdges(start)
}

func (w *World) isExaminedRange(fn *ssa.Function, s *Sink, src *ssa.Parameter) bool {
	arg := s.Instr.Common().Args[0]
	sl, ok := arg.(*ssa.Slice)
	if !ok || sl.X != ssa.Value(src) || sl.Low == nil {
		return false
	}
	if w.isExaminedRangeFromStart(fn, sl, src) {
		return true
	}
	// low = X - n where n is a counter phi
	b, ok := sl.Low.(*ssa.BinOp)
	if !ok || b.Op != token.SUB {
		return false
	}
	n, ok := b.Y.(*ssa.Phi)
	if !ok {
		return false
	}
	// high (if present) must be the minuend: [i-n : i]
	if sl.High != nil && sl.High != b.X {
		return false
	}
	// n's edges: 0 (init), 0 (reset), n+1
	for _, e := range n.Edges {
		if c, ok := constInt(e); ok && c == 0 {
			continue
		}
		if bo, ok := e.(*ssa.BinOp); ok && bo.Op == token.ADD && bo.X == ssa.Value(n) {
			if c, ok := constInt(bo.Y); ok && c == 1 {
				continue
			}
		}
		if ph, ok := e.(*ssa.Phi); ok {
			_ = ph
			continue
		}
		return false
	}
	return true
}

// ---- loops ---------------------------------------------------------------------------------------------

type Loop struct {
	Header *ssa.BasicBlock
	Body   map[*ssa.BasicBlock]bool
}

func findLoops(fn *ssa.Function) []Loop {
	var out []Loop
	for _, h := range fn.Blocks {
		var latches []*ssa.BasicBlock
		for _, p := range h.Preds {
			if h.Dominates(p) {
				latches = append(latches, p)
			}
		}
		if len(latches) == 0 {
			continue
		}
		body := map[*ssa.BasicBlock]bool{h: true}
		var stack []*ssa.BasicBlock
		for _, l := range latches {
			if !body[l] {
				body[l] = true
				stack = append(stack, l)
			}
		}
		for len(stack) > 0 {
			b := stack[len(stack)-1]
			stack = stack[:len(stack)-1]
			for _, p := range b.Preds {
				if !body[p] {
					body[p] = true
					stack = append(stack, p)
				}
			}
		}
		out = append(out, Loop{h, body})
	}
	return out
}

// ---- C03-N attribute name producers ------------------------------------------------------------------

func ruleAttrNameProducers(w *World, r *Report) {
	r.Rule("C03-N", "Attribute names come only from constants passed to SetAttribute/SetAttributeString or from parser.parseAttribute, whose scanning predicates — pure boolean expressions over one byte — are evaluated for all 256 byte values: accepted bytes ⊆ [A-Za-z0-9_:.-], first byte ⊆ [A-Za-z_:].")
	// 1. SetAttribute* call sites: name argument constant or attr.Name copied from parsed attributes
	n := 0
	for _, fn := range w.Funcs {
		for _, b := range fn.Blocks {
			for _, ins := range b.Instrs {
				c, ok := ins.(ssa.CallInstruction)
				if !ok {
					continue
				}
				com := c.Common()
				name := ""
				var arg ssa.Value
				if com.IsInvoke() {
					name = com.Method.Name()
					if len(com.Args) > 0 {
						arg = com.Args[0]
					}
				} else if cal := com.StaticCallee(); cal != nil && w.InModule(cal) && cal.Signature.Recv() != nil {
					name = cal.Name()
					if len(com.Args) > 1 {
						arg = com.Args[1]
					}
				}
				if name != "SetAttribute" && name != "SetAttributeString" || arg == nil {
					continue
				}
				if strings.HasSuffix(w.FnKey(fn), ".SetAttributeString") || fn.Synthetic != "" {
					continue // forwards its own parameter / promoted-method wrapper
				}
				n++
				key := fmt.Sprintf("%s: %s(name)", w.FnKey(fn), name)
				if s, ok := constString(arg); ok {
					if safeAttrName(s) {
						r.OK(key+" "+s, w.InstrPos(ins), "constant name")
					} else {
						r.Bad(key+" "+s, w.InstrPos(ins), "constant attribute name outside the safe alphabet")
					}
					continue
				}
				if s, ok := w.constBytes(arg); ok {
					if safeAttrName(s) {
						r.OK(key+" "+s, w.InstrPos(ins), "constant name")
					} else {
						r.Bad(key+" "+s, w.InstrPos(ins), "constant attribute name outside the safe alphabet")
					}
					continue
				}
				d := w.Sinks().Classify(arg)
				if d.Tag == "attr-name" {
					r.OK(key, w.InstrPos(ins), "copies the Name of an attribute produced by the attribute parser")
					continue
				}
				r.Bad(key, w.InstrPos(ins), "attribute name is neither a constant nor a parsed attribute's name: "+d.Why)
			}
		}
	}
	r.Expect("SetAttribute call sites", n, 1)
	// 2. parseAttribute's predicates
	w.checkAttrNamePredicates(r)
}

var safeAttrRe = regexp.MustCompile(`^[A-Za-z_:][A-Za-z0-9_:.\-]*$`)

func safeAttrName(s string) bool { return safeAttrRe.MatchString(s) }

// checkAttrNamePredicates finds every store to the Name field of an Attribute (ast.Attribute or
// parser.Attribute) in package parser and decides where the stored name comes from.
func (w *World) checkAttrNamePredicates(r *Report) {
	found := 0
	for _, fn := range w.Funcs {
		if w.PkgOf(fn) != modPath+"/parser" {
			continue
		}
		for _, b := range fn.Blocks {
			for _, ins := range b.Instrs {
				st, ok := ins.(*ssa.Store)
				if !ok {
					continue
				}
				fa, ok := st.Addr.(*ssa.FieldAddr)
				if !ok {
					continue
				}
				t, f := fieldOfAddr(fa)
				if f == nil || !isAttributeType(t) || f.Name() != "Name" {
					continue
				}
				found++
				// possible values (through phis)
				var leaves []ssa.Value
				seen := map[ssa.Value]bool{}
				var collect func(v ssa.Value)
				collect = func(v ssa.Value) {
					if seen[v] {
						return
					}
					seen[v] = true
					if ph, ok := v.(*ssa.Phi); ok {
						for _, e := range ph.Edges {
							collect(e)
						}
						return
					}
					leaves = append(leaves, v)
				}
				collect(st.Val)
				for _, leaf := range leaves {
					key := w.FnKey(fn) + ": Attribute.Name = " + dstDesc(leaf)
					if s, ok := w.constBytes(leaf); ok {
						if safeAttrName(s) {
							r.OK(key+" ("+s+")", w.InstrPos(ins), "constant name")
						} else {
							r.Bad(key+" ("+s+")", w.InstrPos(ins), "constant name outside the safe alphabet")
						}
						continue
					}
					if d := w.Sinks().Classify(leaf); d.Tag == "attr-name" {
						r.OK(key, w.InstrPos(ins), "copies the name of an already parsed attribute")
						continue
					}
					if c, ok := leaf.(*ssa.Const); ok && c.IsNil() {
						r.OK(key+" (nil)", w.InstrPos(ins), "zero value")
						continue
					}
					ok2, why := w.scannedNameIsSafe(fn, leaf)
					if ok2 {
						r.OK(key, w.InstrPos(ins), why)
					} else {
						r.Bad(key, w.InstrPos(ins), why)
					}
				}
			}
		}
	}
	r.Expect("attribute-name producers in package parser", found, 1)
}

// scannedNameIsSafe: name = line[lo:i] where the bytes in [lo,i) were accepted by byte predicates.
func (w *World) scannedNameIsSafe(fn *ssa.Function, v ssa.Value) (bool, string) {
	sl, ok := v.(*ssa.Slice)
	if !ok {
		return false, "attribute name is not a constant and not a slice of the scanned line: " + dstDesc(v)
	}
	accFirst, accRest, err := w.evalScanPredicates(fn, sl)
	if err != "" {
		return false, "cannot evaluate the scanning predicates: " + err
	}
	var badFirst, badRest []string
	for c := 0; c < 256; c++ {
		ch := byte(c)
		if accFirst[c] && !(ch == '_' || ch == ':' || (ch >= 'a' && ch <= 'z') || (ch >= 'A' && ch <= 'Z')) {
			badFirst = append(badFirst, fmt.Sprintf("%q", ch))
		}
		if accRest[c] && !(ch == '_' || ch == ':' || ch == '.' || ch == '-' || (ch >= '0' && ch <= '9') || (ch >= 'a' && ch <= 'z') || (ch >= 'A' && ch <= 'Z')) {
			badRest = append(badRest, fmt.Sprintf("%q", ch))
		}
	}
	if len(badFirst)+len(badRest) > 0 {
		return false, fmt.Sprintf("name predicate accepts unsafe bytes: first=%v rest=%v", badFirst, badRest)
	}
	nf, nr := 0, 0
	for c := 0; c < 256; c++ {
		if accFirst[c] {
			nf++
		}
		if accRest[c] {
			nr++
		}
	}
	if nf == 0 || nr == 0 {
		return false, "scanning predicates accept nothing: wrong construct matched"
	}
	return true, fmt.Sprintf("name predicates evaluated for all 256 bytes: first byte accepts %d values, following bytes %d values, all within the safe alphabet", nf, nr)
}

// evalScanPredicates locates, in the syntax of fn, the statement `name := X[..:i]` that produced the
// slice, the nearest preceding `for` loop (the scan of the following bytes) and the nearest `if … {return}`
// before that loop whose condition tests a byte (the guard on the first byte), and evaluates both
// predicates for all 256 byte values with a small interpreter over go/ast.
//
//	loop forms accepted:  for ; … && P(b); i++ {}      and      for … { b = X[i]; if !P(b) { break } }
func (w *World) evalScanPredicates(fn *ssa.Function, sl *ssa.Slice) (first, rest [256]bool, err string) {
	fd, ok := fn.Syntax().(*ast.FuncDecl)
	if !ok {
		return first, rest, "no syntax"
	}
	info := w.InfoFor(fn)
	// find the innermost block statement list containing the slice expression's position
	var list []ast.Stmt
	idx := -1
	ast.Inspect(fd.Body, func(n ast.Node) bool {
		blk, ok := n.(*ast.BlockStmt)
		if !ok {
			return true
		}
		for i, st := range blk.List {
			if st.Pos() <= sl.Pos() && sl.Pos() < st.End() {
				if _, isBlk := st.(*ast.BlockStmt); !isBlk {
					list, idx = blk.List, i
				}
			}
		}
		return true
	})
	if idx < 0 {
		return first, rest, "statement producing the name not found"
	}
	var loop *ast.ForStmt
	var guard *ast.IfStmt
	for i := idx - 1; i >= 0; i-- {
		switch x := list[i].(type) {
		case *ast.ForStmt:
			if loop == nil {
				loop = x
			}
		case *ast.IfStmt:
			if loop != nil && guard == nil && endsInReturn(x.Body) && (mentionsByteClass(x.Cond) || w.mentionsBytePredicateCall(info, x.Cond)) {
				guard = x
			}
		}
	}
	// the guard may call a one-byte predicate of the module instead of spelling the class out
	if guard == nil {
		for i := idx - 1; i >= 0; i-- {
			if x, ok := list[i].(*ast.IfStmt); ok && endsInReturn(x.Body) && w.mentionsBytePredicateCall(info, x.Cond) {
				guard = x
			}
		}
	}
	ev := &byteEval{w: w, info: info}
	var restExpr ast.Expr
	negate := false
	var loopBody *ast.BlockStmt
	var loopCond ast.Expr
	if loop != nil {
		loopBody, loopCond = loop.Body, loop.Cond
	} else {
		// the scan extracted into a helper of the same package: `i := scanLength(line)`; the helper's loop decides
		for i := idx - 1; i >= 0 && loopBody == nil; i-- {
			as, ok := list[i].(*ast.AssignStmt)
			if !ok || len(as.Rhs) != 1 {
				continue
			}
			call, ok := as.Rhs[0].(*ast.CallExpr)
			if !ok {
				continue
			}
			id, ok := call.Fun.(*ast.Ident)
			if !ok {
				continue
			}
			fo, ok := info.Uses[id].(*types.Func)
			if !ok {
				continue
			}
			hf := w.Prog.FuncValue(fo)
			if hf == nil || !w.InModule(hf) {
				continue
			}
			hd, ok := hf.Syntax().(*ast.FuncDecl)
			if !ok || hd.Body == nil {
				continue
			}
			for _, st := range hd.Body.List {
				switch l := st.(type) {
				case *ast.ForStmt:
					loopBody, loopCond = l.Body, l.Cond
				case *ast.RangeStmt:
					loopBody = l.Body
				}
			}
		}
	}
	if loopBody == nil || guard == nil {
		return first, rest, "scanning idiom (guard on the first byte, then a loop over the following bytes) not found before the name is sliced"
	}
	isByteTest := func(e ast.Expr) bool { return mentionsByteClass(e) || w.mentionsBytePredicateCall(info, e) }
	if loopCond != nil && isByteTest(loopCond) {
		restExpr = loopCond
	} else {
		for _, st := range loopBody.List {
			if ifs, ok := st.(*ast.IfStmt); ok && isByteTest(ifs.Cond) && len(ifs.Body.List) == 1 {
				switch br := ifs.Body.List[0].(type) {
				case *ast.BranchStmt:
					if br.Tok == token.BREAK {
						restExpr, negate = ifs.Cond, true
					}
				case *ast.ReturnStmt:
					restExpr, negate = ifs.Cond, true // `if !P(c) { return i }` in a scanning helper
				}
				break
			}
			if _, ok := st.(*ast.AssignStmt); !ok {
				break
			}
		}
	}
	if restExpr == nil {
		return first, rest, "the loop's byte predicate was not found (neither in the loop condition nor as a leading `if … { break }`)"
	}
	for c := 0; c < 256; c++ {
		g, e := ev.eval(guard.Cond, c)
		if e != "" {
			return first, rest, e
		}
		first[c] = !g
		l, e := ev.eval(restExpr, c)
		if e != "" {
			return first, rest, e
		}
		if negate {
			l = !l
		}
		rest[c] = l
	}
	return first, rest, ""
}

// mentionsBytePredicateCall: the expression calls a module function of signature func(byte) bool (a named character
// class such as isAttributeNameStart).
func (w *World) mentionsBytePredicateCall(info *types.Info, e ast.Expr) bool {
	found := false
	ast.Inspect(e, func(n ast.Node) bool {
		c, ok := n.(*ast.CallExpr)
		if !ok || len(c.Args) != 1 {
			return true
		}
		var obj types.Object
		switch f := c.Fun.(type) {
		case *ast.SelectorExpr:
			obj = info.Uses[f.Sel]
		case *ast.Ident:
			obj = info.Uses[f]
		}
		fo, ok := obj.(*types.Func)
		if !ok || fo.Pkg() == nil {
			return true
		}
		if _, inMod := w.Pkgs[fo.Pkg().Path()]; !inMod {
			return true
		}
		sig := fo.Type().(*types.Signature)
		if sig.Params().Len() == 1 && sig.Results().Len() == 1 && isBool(sig.Results().At(0).Type()) {
			if b, ok := sig.Params().At(0).Type().Underlying().(*types.Basic); ok && b.Kind() == types.Uint8 {
				found = true
			}
		}
		return true
	})
	return found
}

func endsInReturn(b *ast.BlockStmt) bool {
	if len(b.List) == 0 {
		return false
	}
	_, ok := b.List[len(b.List)-1].(*ast.ReturnStmt)
	return ok
}

func mentionsByteClass(e ast.Expr) bool {
	found := false
	ast.Inspect(e, func(n ast.Node) bool {
		if c, ok := n.(*ast.CallExpr); ok {
			if s, ok := c.Fun.(*ast.SelectorExpr); ok && (s.Sel.Name == "IsAlphaNumeric" || s.Sel.Name == "IsAlphabet" || s.Sel.Name == "IsNumeric") {
				found = true
			}
		}
		if b, ok := n.(*ast.BasicLit); ok && b.Kind == token.CHAR {
			found = true
		}
		return true
	})
	return found
}

// byteEval interprets a boolean expression over one byte variable; calls to util predicates of one
// byte are evaluated by interpreting their bodies (table lookups are resolved from the table literal).
type byteEval struct {
	w    *World
	info *types.Info
	v    types.Object // when set: the parameter of a predicate function; otherwise any byte atom
}

// isByteAtom: an expression standing for "the byte under test": the bound variable, or (when no
// variable is bound) any variable of byte/rune type or an index expression into a []byte.
func (ev *byteEval) isByteAtom(e ast.Expr) bool {
	switch x := e.(type) {
	case *ast.ParenExpr:
		return ev.isByteAtom(x.X)
	case *ast.Ident:
		o := ev.info.Uses[x]
		if ev.v != nil {
			return o == ev.v
		}
		if v, ok := o.(*types.Var); ok && !v.IsField() {
			if b, ok := v.Type().Underlying().(*types.Basic); ok && (b.Kind() == types.Uint8 || b.Kind() == types.Int32) {
				return true
			}
		}
	case *ast.IndexExpr:
		if ev.v == nil {
			if t := ev.info.TypeOf(x.X); t != nil && isByteSlice(t) {
				return true
			}
		}
	}
	return false
}

func (ev *byteEval) mentions(e ast.Expr) bool {
	m := false
	ast.Inspect(e, func(n ast.Node) bool {
		if x, ok := n.(ast.Expr); ok && ev.isByteAtom(x) {
			m = true
		}
		return true
	})
	return m
}

func (ev *byteEval) eval(e ast.Expr, c int) (bool, string) {
	switch x := e.(type) {
	case *ast.ParenExpr:
		return ev.eval(x.X, c)
	case *ast.UnaryExpr:
		if x.Op == token.NOT {
			v, err := ev.eval(x.X, c)
			return !v, err
		}
	case *ast.BinaryExpr:
		switch x.Op {
		case token.LAND:
			if !ev.mentions(x.X) {
				return ev.eval(x.Y, c)
			}
			if !ev.mentions(x.Y) {
				return ev.eval(x.X, c)
			}
			a, err := ev.eval(x.X, c)
			if err != "" {
				return false, err
			}
			b, err := ev.eval(x.Y, c)
			return a && b, err
		case token.LOR:
			if !ev.mentions(x.X) {
				// e.g. `c == -1 ||`: handled below through mentions==true; a disjunct not about c is false
				return ev.eval(x.Y, c)
			}
			if !ev.mentions(x.Y) {
				return ev.eval(x.X, c)
			}
			a, err := ev.eval(x.X, c)
			if err != "" {
				return false, err
			}
			b, err := ev.eval(x.Y, c)
			return a || b, err
		case token.EQL, token.NEQ, token.LSS, token.LEQ, token.GTR, token.GEQ:
			l, ok1 := ev.num(x.X, c)
			rr, ok2 := ev.num(x.Y, c)
			if !ok1 || !ok2 {
				return false, "comparison with a non-constant operand: " + types.ExprString(e)
			}
			switch x.Op {
			case token.EQL:
				return l == rr, ""
			case token.NEQ:
				return l != rr, ""
			case token.LSS:
				return l < rr, ""
			case token.LEQ:
				return l <= rr, ""
			case token.GTR:
				return l > rr, ""
			case token.GEQ:
				return l >= rr, ""
			}
		}
	case *ast.CallExpr:
		// util.IsAlphaNumeric(c) etc.
		if len(x.Args) == 1 {
			if _, ok := ev.num(x.Args[0], c); ok {
				var obj types.Object
				switch f := x.Fun.(type) {
				case *ast.SelectorExpr:
					obj = ev.info.Uses[f.Sel]
				case *ast.Ident:
					obj = ev.info.Uses[f]
				}
				if fo, ok := obj.(*types.Func); ok {
					return ev.w.evalBytePredicateFunc(fo, c)
				}
			}
		}
	}
	return false, "unsupported expression in byte predicate: " + types.ExprString(e)
}

func (ev *byteEval) num(e ast.Expr, c int) (int64, bool) {
	switch x := e.(type) {
	case *ast.ParenExpr:
		return ev.num(x.X, c)
	case *ast.Ident, *ast.IndexExpr:
		if ev.isByteAtom(x) {
			return int64(c), true
		}
	case *ast.CallExpr:
		// conversion byte(c)
		if len(x.Args) == 1 {
			if tv, ok := ev.info.Types[x.Fun]; ok && tv.IsType() {
				return ev.num(x.Args[0], c)
			}
		}
	}
	if tv, ok := ev.info.Types[e]; ok && tv.Value != nil {
		if i, ok := constant.Int64Val(constant.ToInt(tv.Value)); ok {
			return i, true
		}
	}
	return 0, false
}

// evalBytePredicateFunc evaluates a module function `func(c byte) bool` whose body is a single return
// of a boolean expression over c, constants and lookups in constant tables.
func (w *World) evalBytePredicateFunc(fo *types.Func, c int) (bool, string) {
	fn := w.Prog.FuncValue(fo)
	if fn == nil || !w.InModule(fn) {
		return false, "predicate " + fo.FullName() + " is not a module function"
	}
	fd, ok := fn.Syntax().(*ast.FuncDecl)
	if !ok || fd.Body == nil || len(fd.Body.List) != 1 {
		return false, "predicate " + fo.Name() + " is not a single return"
	}
	ret, ok := fd.Body.List[0].(*ast.ReturnStmt)
	if !ok || len(ret.Results) != 1 {
		return false, "predicate " + fo.Name() + " is not a single return"
	}
	info := w.InfoFor(fn)
	if fd.Type.Params == nil || len(fd.Type.Params.List) != 1 || len(fd.Type.Params.List[0].Names) != 1 {
		return false, "predicate " + fo.Name() + " does not take one byte"
	}
	pv := info.Defs[fd.Type.Params.List[0].Names[0]]
	ev := &byteEval{w: w, info: info, v: pv}
	return ev.evalWithTables(ret.Results[0], c)
}

// evalWithTables extends eval with `table[c]&mask != 0` style lookups in constant array literals.
func (ev *byteEval) evalWithTables(e ast.Expr, c int) (bool, string) {
	switch x := e.(type) {
	case *ast.ParenExpr:
		return ev.evalWithTables(x.X, c)
	case *ast.BinaryExpr:
		switch x.Op {
		case token.LAND:
			a, err := ev.evalWithTables(x.X, c)
			if err != "" {
				return false, err
			}
			b, err := ev.evalWithTables(x.Y, c)
			return a && b, err
		case token.LOR:
			a, err := ev.evalWithTables(x.X, c)
			if err != "" {
				return false, err
			}
			b, err := ev.evalWithTables(x.Y, c)
			return a || b, err
		case token.EQL, token.NEQ, token.LSS, token.LEQ, token.GTR, token.GEQ:
			l, ok1 := ev.numT(x.X, c)
			rr, ok2 := ev.numT(x.Y, c)
			if !ok1 || !ok2 {
				return false, "comparison with a non-constant operand: " + types.ExprString(e)
			}
			switch x.Op {
			case token.EQL:
				return l == rr, ""
			case token.NEQ:
				return l != rr, ""
			case token.LSS:
				return l < rr, ""
			case token.LEQ:
				return l <= rr, ""
			case token.GTR:
				return l > rr, ""
			case token.GEQ:
				return l >= rr, ""
			}
		}
	case *ast.UnaryExpr:
		if x.Op == token.NOT {
			v, err := ev.evalWithTables(x.X, c)
			return !v, err
		}
	case *ast.CallExpr:
		return ev.eval(e, c)
	}
	return false, "unsupported expression in predicate body: " + types.ExprString(e)
}

func (ev *byteEval) numT(e ast.Expr, c int) (int64, bool) {
	if v, ok := ev.num(e, c); ok {
		return v, true
	}
	switch x := e.(type) {
	case *ast.ParenExpr:
		return ev.numT(x.X, c)
	case *ast.BinaryExpr:
		l, ok1 := ev.numT(x.X, c)
		r, ok2 := ev.numT(x.Y, c)
		if !ok1 || !ok2 {
			return 0, false
		}
		switch x.Op {
		case token.AND:
			return l & r, true
		case token.OR:
			return l | r, true
		case token.ADD:
			return l + r, true
		case token.SUB:
			return l - r, true
		}
	case *ast.IndexExpr:
		idx, ok := ev.numT(x.Index, c)
		if !ok {
			return 0, false
		}
		id, ok := x.X.(*ast.Ident)
		if !ok {
			return 0, false
		}
		tbl, ok := ev.w.constIntTable(ev.info.Uses[id])
		if !ok || idx < 0 || int(idx) >= len(tbl) {
			return 0, false
		}
		return tbl[idx], true
	}
	return 0, false
}

// constIntTable evaluates `var t = [N]T{…}` with constant integer elements, never written elsewhere.
func (w *World) constIntTable(obj types.Object) ([]int64, bool) {
	v, ok := obj.(*types.Var)
	if !ok || v.Pkg() == nil {
		return nil, false
	}
	key := "inttable:" + v.Pkg().Path() + "." + v.Name()
	if c, ok := w.memo[key]; ok {
		if c == nil {
			return nil, false
		}
		return c.([]int64), true
	}
	w.memo[key] = nil
	pkg := w.Pkgs[v.Pkg().Path()]
	if pkg == nil {
		return nil, false
	}
	if g, _ := w.SPkgs[v.Pkg().Path()].Members[v.Name()].(*ssa.Global); g != nil {
		for _, fn := range w.Funcs {
			if fn.Name() == "init" {
				continue
			}
			for _, wr := range WritesOf(fn) {
				for _, root := range w.ClassifyRef(wr.Addr).Roots {
					if root == ssa.Value(g) {
						return nil, false
					}
				}
			}
		}
	}
	for _, f := range pkg.Syntax {
		for _, d := range f.Decls {
			gd, ok := d.(*ast.GenDecl)
			if !ok || gd.Tok != token.VAR {
				continue
			}
			for _, sp := range gd.Specs {
				vs := sp.(*ast.ValueSpec)
				for i, n := range vs.Names {
					if pkg.TypesInfo.Defs[n] != obj || i >= len(vs.Values) {
						continue
					}
					cl, ok := vs.Values[i].(*ast.CompositeLit)
					if !ok {
						return nil, false
					}
					at, ok := pkg.TypesInfo.TypeOf(cl).Underlying().(*types.Array)
					if !ok {
						return nil, false
					}
					out := make([]int64, at.Len())
					idx := 0
					for _, el := range cl.Elts {
						val := el
						if kv, ok := el.(*ast.KeyValueExpr); ok {
							tv := pkg.TypesInfo.Types[kv.Key]
							if tv.Value == nil {
								return nil, false
							}
							k, _ := constant.Int64Val(tv.Value)
							idx = int(k)
							val = kv.Value
						}
						tv := pkg.TypesInfo.Types[val]
						if tv.Value == nil || idx >= len(out) {
							return nil, false
						}
						x, ok := constant.Int64Val(constant.ToInt(tv.Value))
						if !ok {
							return nil, false
						}
						out[idx] = x
						idx++
					}
					w.memo[key] = out
					return out, true
				}
			}
		}
	}
	return nil, false
}

// ---- C03-P String producers ----------------------------------------------------------------------------

func ruleStringProducers(w *World, r *Report) {
	r.Rule("C03-P", "Every ast.NewString call in the module passes configuration data (typographer substitutions) or constants, and SetCode(true) is applied only to such nodes: a code-flagged String never carries source bytes.")
	newString := w.PkgFunc("ast", "NewString")
	if newString == nil {
		r.Unknown("ast.NewString", "", "not found")
		return
	}
	sa := w.Sinks()
	n := 0
	for _, fn := range w.Funcs {
		if fn == newString {
			continue
		}
		for _, b := range fn.Blocks {
			for _, ins := range b.Instrs {
				c, ok := ins.(*ssa.Call)
				if !ok || c.Common().StaticCallee() != newString {
					continue
				}
				n++
				d := sa.Classify(c.Common().Args[0])
				key := w.FnKey(fn) + ": ast.NewString(" + d.Kind.String() + ")"
				if d.Kind <= DConfig {
					r.OK(key, w.InstrPos(ins), "value is "+d.Kind.String()+" ("+d.Why+")")
				} else {
					// allowed only if SetCode(true) is never called on this node
					codeSet := false
					for _, ref := range referrersOf(c) {
						if rc, ok := ref.(ssa.CallInstruction); ok {
							if cal := rc.Common().StaticCallee(); cal != nil && cal.Name() == "SetCode" {
								codeSet = true
							}
						}
					}
					if codeSet {
						r.Bad(key, w.InstrPos(ins), "a String node holding "+d.Kind.String()+" data ("+d.Why+") is flagged as code and would be written unescaped")
					} else {
						r.OK(key, w.InstrPos(ins), "not flagged as code at creation; rendered through the escaping writer")
					}
				}
			}
		}
	}
	r.Expect("ast.NewString call sites", n, 1)
	// SetCode callers outside package ast
	for _, fn := range w.Funcs {
		for _, b := range fn.Blocks {
			for _, ins := range b.Instrs {
				c, ok := ins.(ssa.CallInstruction)
				if !ok {
					continue
				}
				if cal := c.Common().StaticCallee(); cal != nil && cal.Name() == "SetCode" && w.InModule(cal) {
					recv := c.Common().Args[0]
					key := w.FnKey(fn) + ": SetCode"
					if call, ok := recv.(*ssa.Call); ok && call.Common().StaticCallee() == newString {
						d := sa.Classify(call.Common().Args[0])
						if d.Kind <= DConfig {
							r.OK(key, w.InstrPos(ins), "applied to a String created from "+d.Kind.String()+" data")
							continue
						}
					}
					r.Bad(key, w.InstrPos(ins), "SetCode applied to a String whose value is not provably configuration/constant")
				}
			}
		}
	}
}

var _ = sort.Strings

// ---- C03-W: the resolving writer's own body -----------------------------------------------------------

// ruleResolvingWriter opens the part of the trusted base that decodes references: html.Writer.Write resolves
// character references and backslash escapes, so what it writes is NOT the bytes it was given. Everything it
// emits must therefore go through the escaping sink (RawWrite) or through a rune helper that escapes.
func ruleResolvingWriter(w *World, r *Report) {
	r.Rule("C03-W", "In every module implementation of html.Writer.Write (the writer that resolves character references and backslash escapes): the output writer is used only by (a) calls of the same type's RawWrite (the escaping sink, C03-E), (b) module rune helpers in which every direct write is either the non-nil result of util.EscapeHTMLByte or a WriteRune reached only on paths where the rune is >= 256 or EscapeHTMLByte(byte(r)) returned nil, and the rune written passes util.ToValidRune. A decoded code point or entity written directly would re-introduce <, >, & or \" that the source spelled as a reference.")
	hw := w.Iface("renderer/html", "Writer")
	sa := w.Sinks()
	escByte := w.PkgFunc("util", "EscapeHTMLByte")
	valid := w.PkgFunc("util", "ToValidRune")
	n := 0
	helperChecked := map[*ssa.Function]bool{}
	var curRaw *ssa.Function // the escaping sink of the writer type under examination
	inProgress := map[*ssa.Function]bool{}
	var checkHelper func(fn *ssa.Function) (bool, string, ssa.Instruction)
	checkHelper = func(fn *ssa.Function) (bool, string, ssa.Instruction) {
		if inProgress[fn] || len(inProgress) > 4 {
			return false, "hands the writer on through more than four levels of helpers", nil
		}
		inProgress[fn] = true
		defer delete(inProgress, fn)
		var wp *ssa.Parameter
		for _, p := range fn.Params {
			if sa.isBufWriter(p.Type()) {
				wp = p
			}
		}
		if wp == nil {
			return false, "helper has no BufWriter parameter", nil
		}
		for _, b := range fn.Blocks {
			for _, ins := range b.Instrs {
				c, ok := ins.(ssa.CallInstruction)
				if !ok {
					continue
				}
				com := c.Common()
				if !com.IsInvoke() || com.Value != ssa.Value(wp) {
					for _, a := range com.Args {
						if a != ssa.Value(wp) {
							continue
						}
						// a part of the resolving writer split off into a function of its own obeys the same rules
						cal := com.StaticCallee()
						if cal != nil && cal == curRaw {
							break
						}
						if cal != nil && w.InModule(cal) && cal.Blocks != nil {
							ok, why, at := checkHelper(cal)
							if !ok {
								if at == nil {
									at = ins
								}
								return false, "hands the writer to " + w.FnKey(cal) + ", which " + why, at
							}
							break
						}
						return false, "hands the writer to a function that cannot be resolved", ins
					}
					continue
				}
				switch com.Method.Name() {
				case "Write", "WriteString":
					if d := sa.Classify(com.Args[0]); d.Kind == DConst {
						continue
					}
					// the result of util.EscapeHTMLByte, possibly kept in a variable that is nil otherwise
					okArg := escByte != nil && com.Method.Name() == "Write"
					for _, leaf := range phiLeaves(com.Args[0]) {
						if isNilConst(leaf) {
							continue
						}
						cc, ok := leaf.(*ssa.Call)
						if !ok || cc.Common().StaticCallee() != escByte {
							okArg = false
						}
					}
					if !okArg {
						return false, "writes bytes that are not the result of util.EscapeHTMLByte", ins
					}
				case "WriteRune":
					arg := stripConv(com.Args[0])
					vc, ok := arg.(*ssa.Call)
					if !ok || vc.Common().StaticCallee() != valid || valid == nil {
						return false, "writes a rune that has not passed util.ToValidRune", ins
					}
					// every path to this block: rune >= 256 or EscapeHTMLByte(...) == nil
					okAll := true
					complete := EnumPaths(fn.Blocks[0], map[string]bool{}, func(x *ssa.BasicBlock) bool { return x == b }, func(p Path) {
						if p.Blocks[len(p.Blocks)-1] != b {
							return
						}
						okPath := false
						for i := 0; i+1 < len(p.Blocks); i++ {
							iff, isIf := p.Blocks[i].Instrs[len(p.Blocks[i].Instrs)-1].(*ssa.If)
							if !isIf {
								continue
							}
							// conditions computed from values are resolved along the path (a lookup result kept in a
							// variable that stays nil for runes >= 256)
							cond := resolveAlong(iff.Cond, p.Blocks[:i+1])
							for _, a := range condAtoms(cond, p.Edges[i] == 0) {
								if bo, ok := a.V.(*ssa.BinOp); ok {
									if cst, ok := constInt(bo.Y); ok && ((bo.Op == token.LSS && cst <= 256 && !a.Truth) || (bo.Op == token.GEQ && cst >= 128 && cst <= 256 && a.Truth)) {
										okPath = true
									}
									// the same with the constant on the left: 256 > r false, 256 <= r true
									if cst, ok := constInt(bo.X); ok && ((bo.Op == token.GTR && cst <= 256 && !a.Truth) || (bo.Op == token.LEQ && cst >= 128 && cst <= 256 && a.Truth)) {
										okPath = true
									}
									// nil test of a phi resolved along the path
									if bo.Op == token.EQL || bo.Op == token.NEQ {
										for _, pr := range [][2]ssa.Value{{bo.X, bo.Y}, {bo.Y, bo.X}} {
											if isNilConst(pr[1]) {
												x := resolveAlong(pr[0], p.Blocks[:i+1])
												if ec, ok := x.(*ssa.Call); ok && ec.Common().StaticCallee() == escByte && (bo.Op == token.EQL) == a.Truth {
													okPath = true
												}
											}
										}
									}
								}
								if x, isNil, ok := nilTest(a.V); ok && isNil == a.Truth {
									if ec, ok := x.(*ssa.Call); ok && ec.Common().StaticCallee() == escByte {
										okPath = true
									}
								}
							}
						}
						if !okPath {
							okAll = false
						}
					})
					if !complete || !okAll {
						return false, "WriteRune is reachable for a rune < 256 whose escape-table entry was not consulted (or is non-nil)", ins
					}
				default:
					return false, "uses writer method " + com.Method.Name() + " directly", ins
				}
			}
		}
		return true, "", nil
	}
	for _, t := range w.Implementers(hw) {
		fn := w.MethodOf(t, "Write")
		raw := w.MethodOf(t, "RawWrite")
		if fn == nil || !w.InModule(fn) || fn.Blocks == nil {
			continue
		}
		n++
		var wp *ssa.Parameter
		for _, p := range fn.Params {
			if sa.isBufWriter(p.Type()) {
				wp = p
			}
		}
		key := w.FnKey(fn)
		curRaw = raw
		if wp == nil {
			r.Unknown(key, w.FnPos(fn), "no BufWriter parameter")
			continue
		}
		uses := 0
		for _, b := range fn.Blocks {
			for _, ins := range b.Instrs {
				c, ok := ins.(ssa.CallInstruction)
				if !ok {
					continue
				}
				com := c.Common()
				if com.IsInvoke() && com.Value == ssa.Value(wp) {
					uses++
					// direct sink in the resolving writer: only constants
					if len(com.Args) > 0 {
						if d := sa.Classify(com.Args[0]); d.Kind == DConst {
							r.OK(fmt.Sprintf("%s: direct constant write #%d", key, uses), w.InstrPos(ins), "constant")
							continue
						}
					}
					r.Bad(fmt.Sprintf("%s: direct write #%d", key, uses), w.InstrPos(ins), "the resolving writer writes non-constant data directly to the output instead of through RawWrite or an escaping rune helper: a character reference such as &#60; is emitted as a raw '<'")
					continue
				}
				passes := false
				for _, a := range com.Args {
					if a == ssa.Value(wp) {
						passes = true
					}
				}
				if !passes {
					continue
				}
				uses++
				cal := com.StaticCallee()
				ukey := fmt.Sprintf("%s: output #%d", key, uses)
				switch {
				case cal != nil && cal == raw:
					r.OK(ukey, w.InstrPos(ins), "through RawWrite (escaping sink)")
				case cal != nil && w.InModule(cal) && cal.Blocks != nil:
					ok, why, at := checkHelper(cal)
					helperChecked[cal] = true
					if ok {
						r.OK(ukey, w.InstrPos(ins), "through "+w.FnKey(cal)+", which escapes or writes only runes without an escape-table entry")
					} else {
						pos := w.InstrPos(ins)
						if at != nil {
							pos = w.InstrPos(at)
						}
						r.Bad(ukey, pos, "through "+w.FnKey(cal)+", which "+why)
					}
				default:
					r.Unknown(ukey, w.InstrPos(ins), "the writer is handed to a callee that cannot be resolved")
				}
			}
		}
		r.Expect("uses of the output writer in "+key, uses, 5)
	}
	r.Expect("html.Writer implementations with a resolving Write", n, 1)
}
