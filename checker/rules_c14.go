package main

// rules_c14.go — C14 (writer failures surface, output is a prefix) and the shared error-plumbing
// rules used by C01-E.

import (
	"fmt"
	"go/token"
	"go/types"
	"strings"

	"golang.org/x/tools/go/ssa"
)

func init() {
	register(&Property{
		ID:      "C14",
		Level:   "other",
		Explain: "Decides the plumbing that makes a writer failure visible and the output a prefix: (F) Render returns either the error of the walk (under err != nil) or the value of Flush() on the very BufWriter every render function wrote to — never a constant nil — and Convert returns Render's result unchanged; ast.Walk returns only errors produced by the walker; (1) every sink in every render function and helper writes to the BufWriter handed down from Render (no second writer, no deferred replay, no goroutine), so with bufio.Writer's sticky error bytes reach the destination in program order and nothing is written after the first failure; (N) no render function looks at a write result or returns a non-nil error, so no control flow (and no panic) depends on the failure. Does NOT decide the behaviour of a caller-supplied non-sticky BufWriter.",
		Trusted: []string{"bufio.Writer: sticky error, Flush reports it, writes are ordered"},
		Assumes: []string{"a caller-supplied util.BufWriter behaves like bufio.Writer"},
		Rules:   []func(*World, *Report){ruleRenderReturnsFlush, ruleWalkErrors, ruleRenderFuncsNilError, ruleSingleChannel, ruleNoWriteResultUse, ruleConvertShape, ruleConvertWrappersPassThrough},
	})
}

func isErrorType(t types.Type) bool {
	n, ok := t.(*types.Named)
	return ok && n.Obj().Pkg() == nil && n.Obj().Name() == "error"
}

// ---- C14-F ------------------------------------------------------------------------------

func ruleRenderReturnsFlush(w *World, r *Report) {
	r.Rule("C14-F", "Each Render implementation returns, on every path, either the error result of ast.Walk on a path where it was found non-nil, or the result of Flush() invoked on the BufWriter that the walker closure hands to the render functions; no Return of a constant nil; when the caller's writer already is a BufWriter it is that value which is used and flushed.")
	e := w.Entries()
	sa := w.Sinks()
	r.Expect("Render implementations", len(e.Render), 1)
	walk := w.PkgFunc("ast", "Walk")
	for _, fn := range e.Render {
		key := w.FnKey(fn)
		// the BufWriter captured by the walker closure
		var captured ssa.Value
		var walkCall *ssa.Call
		for _, b := range fn.Blocks {
			for _, ins := range b.Instrs {
				c, ok := ins.(*ssa.Call)
				if !ok || c.Common().StaticCallee() != walk || walk == nil {
					continue
				}
				walkCall = c
				for _, a := range c.Common().Args {
					mc, ok := a.(*ssa.MakeClosure)
					if !ok {
						if ct, ok2 := a.(*ssa.ChangeType); ok2 {
							mc, ok = ct.X.(*ssa.MakeClosure)
						}
						if !ok {
							continue
						}
					}
					// a method value of a per-call object (pass.visit): the writer is a field of that object
					if cf, isF := mc.Fn.(*ssa.Function); isF && w.unwrapBound(cf) != cf && len(mc.Bindings) == 1 {
						if obj, isAl := mc.Bindings[0].(*ssa.Alloc); isAl {
							for _, ref := range referrersOf(obj) {
								fa, ok := ref.(*ssa.FieldAddr)
								if !ok {
									continue
								}
								for _, r2 := range referrersOf(fa) {
									if st, ok := r2.(*ssa.Store); ok && st.Addr == ssa.Value(fa) && sa.isBufWriter(st.Val.Type()) {
										captured = st.Val
									}
								}
							}
						}
					}
					for _, bnd := range mc.Bindings {
						v := bnd
						// captured by reference: binding is the Alloc cell; find what is stored
						if al, ok := v.(*ssa.Alloc); ok {
							for _, ref := range referrersOf(al) {
								if st, ok := ref.(*ssa.Store); ok && st.Addr == ssa.Value(al) && sa.isBufWriter(st.Val.Type()) {
									captured = al
								}
							}
						} else if sa.isBufWriter(v.Type()) {
							captured = v
						}
					}
				}
			}
		}
		if walkCall == nil || captured == nil {
			r.Unknown(key+": walk with BufWriter", w.FnPos(fn), "could not find the ast.Walk call whose closure captures the BufWriter")
			continue
		}
		r.OK(key+": walk with BufWriter", w.InstrPos(walkCall), "ast.Walk's closure captures the BufWriter")
		nret := 0
		for _, b := range fn.Blocks {
			ret, ok := b.Instrs[len(b.Instrs)-1].(*ssa.Return)
			if !ok || len(ret.Results) != 1 {
				continue
			}
			nret++
			v := ret.Results[0]
			rkey := fmt.Sprintf("%s: return #%d", key, nret)
			switch x := v.(type) {
			case *ssa.Phi:
				// `err := Walk(…); if err == nil { err = Flush() }; return err`: each operand is judged on its own edge
				okAll := x.Block() == b
				var whyBad string
				for i, e := range x.Edges {
					if !okAll {
						break
					}
					pred := b.Preds[i]
					if c, isCall := e.(*ssa.Call); isCall && c == walkCall {
						// the edge pred -> b must be the "walk error is non-nil" edge
						nonNil := false
						if iff, isIf := pred.Instrs[len(pred.Instrs)-1].(*ssa.If); isIf && len(pred.Succs) == 2 {
							if y, isNil, isTest := nilTest(iff.Cond); isTest && y == ssa.Value(walkCall) {
								for si, sx := range pred.Succs {
									if sx == b && (si == 0) != isNil {
										nonNil = true
									}
								}
							}
						}
						if !nonNil {
							okAll, whyBad = false, "the walk's error reaches the return on an edge where it was not found non-nil"
						}
						continue
					}
					if c, isCall := e.(*ssa.Call); isCall {
						com := c.Common()
						if com.IsInvoke() && com.Method.Name() == "Flush" && sa.isBufWriter(com.Value.Type()) && sameWriter(com.Value, captured) {
							continue
						}
					}
					okAll, whyBad = false, "an operand is neither the walk's error nor Flush() of the render functions' writer: "+shortVal(e)
				}
				if okAll {
					r.OK(rkey+" (walk error or Flush)", w.InstrPos(ret), "returns the walk's error where it is non-nil, Flush() of the render functions' writer otherwise")
				} else {
					r.Bad(rkey, w.InstrPos(ret), "returns "+shortVal(v)+": "+whyBad)
				}
				continue
			case *ssa.Call:
				if x == walkCall {
					// must be on the err != nil path
					ok := false
					for _, cf := range dominatingConds(b) {
						for _, a := range condAtoms(cf.If.Cond, cf.Truth) {
							if y, isNil, isTest := nilTest(a.V); isTest && y == ssa.Value(walkCall) && isNil != a.Truth {
								ok = true
							}
						}
					}
					if ok {
						r.OK(rkey+" (walk error)", w.InstrPos(ret), "returns the walk's error where it is non-nil")
					} else {
						r.Bad(rkey+" (walk error)", w.InstrPos(ret), "returns the walk's error without testing it, skipping Flush on success")
					}
					continue
				}
				com := x.Common()
				if com.IsInvoke() && com.Method.Name() == "Flush" && sa.isBufWriter(com.Value.Type()) {
					if sameWriter(com.Value, captured) {
						r.OK(rkey+" (Flush)", w.InstrPos(ret), "returns Flush() of the BufWriter the render functions wrote to")
					} else {
						r.Bad(rkey+" (Flush)", w.InstrPos(ret), "Flush is called on a different writer than the one handed to the render functions")
					}
					continue
				}
				r.Bad(rkey, w.InstrPos(ret), "returns "+shortVal(v)+": neither the walk's error nor Flush()")
			default:
				if isNilConst(v) {
					r.Bad(rkey+" (nil)", w.InstrPos(ret), "returns a constant nil: a failed writer is reported as success on this path")
				} else {
					r.Bad(rkey, w.InstrPos(ret), "returns "+shortVal(v)+": neither the walk's error nor Flush()")
				}
			}
		}
		r.Expect("returns of "+key, nret, 1)
		// the BufWriter is the caller's writer when it already is one, else bufio.NewWriter(w)
		ok := false
		for _, b := range fn.Blocks {
			for _, ins := range b.Instrs {
				if ta, isTA := ins.(*ssa.TypeAssert); isTA && ta.CommaOk && sa.isBufWriter(ta.AssertedType) && ta.X == ssa.Value(fn.Params[1]) {
					ok = true
				}
			}
		}
		// C14-B: what the render functions write to is the caller's own BufWriter or a bufio.Writer around the caller's writer
		{
			save := r.curRule
			r.Rule("C14-B", "The BufWriter that Render hands to the render functions and flushes is, on every path, either the caller's own writer (the comma-ok assertion w.(util.BufWriter) of Render's writer parameter) or the *bufio.Writer returned by bufio.NewWriter / NewWriterSize applied to that parameter. bufio.Writer's sticky error is what makes the accepted bytes a prefix and makes Flush report a failure that happened in the middle; an adapter of the library's own (unbuffered pass-through, a pooled buffer replayed later) has neither guarantee.")
			var vals []ssa.Value
			if al, isAl := captured.(*ssa.Alloc); isAl {
				for _, ref := range referrersOf(al) {
					if st, isSt := ref.(*ssa.Store); isSt && st.Addr == ssa.Value(al) {
						vals = append(vals, st.Val)
					}
				}
			} else {
				vals = []ssa.Value{captured}
			}
			var leaves []ssa.Value
			seenV := map[ssa.Value]bool{}
			var walkV func(v ssa.Value)
			walkV = func(v ssa.Value) {
				if seenV[v] {
					return
				}
				seenV[v] = true
				switch x := v.(type) {
				case *ssa.Phi:
					for _, e := range x.Edges {
						walkV(e)
					}
				case *ssa.MakeInterface:
					walkV(x.X)
				case *ssa.ChangeInterface:
					walkV(x.X)
				case *ssa.UnOp:
					if al2, isAl := x.X.(*ssa.Alloc); isAl && x.Op == token.MUL && types.IsInterface(deref(al2.Type())) {
						for _, ref := range referrersOf(al2) {
							if st, isSt := ref.(*ssa.Store); isSt && st.Addr == ssa.Value(al2) {
								walkV(st.Val)
							}
						}
						return
					}
					leaves = append(leaves, v)
				default:
					leaves = append(leaves, v)
				}
			}
			for _, v := range vals {
				walkV(v)
			}
			bkey := key + ": origin of the BufWriter"
			var badOrigin []string
			for _, lf := range leaves {
				okLeaf := false
				if ex, isEx := lf.(*ssa.Extract); isEx && ex.Index == 0 {
					if ta, isTA := ex.Tuple.(*ssa.TypeAssert); isTA && ta.CommaOk && sa.isBufWriter(ta.AssertedType) && ta.X == ssa.Value(fn.Params[1]) {
						okLeaf = true
					}
				}
				if c, isC := lf.(*ssa.Call); isC {
					if cal := c.Common().StaticCallee(); cal != nil && (cal.String() == "bufio.NewWriter" || cal.String() == "bufio.NewWriterSize") && c.Common().Args[0] == ssa.Value(fn.Params[1]) {
						okLeaf = true
					}
				}
				if !okLeaf {
					badOrigin = append(badOrigin, shortVal(lf))
				}
			}
			if len(leaves) == 0 {
				r.Unknown(bkey, w.FnPos(fn), "no origin of the captured writer found")
			} else if len(badOrigin) == 0 {
				r.OK(bkey, w.FnPos(fn), fmt.Sprintf("%d origin(s): the caller's BufWriter or bufio.NewWriter(w)", len(leaves)))
			} else {
				r.Bad(bkey, w.FnPos(fn), "the writer handed to the render functions can be "+strings.Join(badOrigin, ", ")+": not the caller's BufWriter and not a bufio.Writer around the caller's writer, so neither the sticky error nor Flush's report of an earlier failure is guaranteed")
			}
			r.curRule = save
		}
		if ok {
			r.OK(key+": reuse of caller's BufWriter", w.FnPos(fn), "w.(util.BufWriter) is tried first")
		} else {
			r.Bad(key+": reuse of caller's BufWriter", w.FnPos(fn), "the caller's writer is not type-asserted to util.BufWriter")
		}
	}
}

// sameWriter: v is the captured writer: the same value, or a load of the captured cell.
func sameWriter(v, captured ssa.Value) bool {
	if v == captured {
		return true
	}
	if u, ok := v.(*ssa.UnOp); ok && u.X == captured {
		return true
	}
	// captured may be a cell whose stored values include v
	if al, ok := captured.(*ssa.Alloc); ok {
		for _, ref := range referrersOf(al) {
			if st, ok := ref.(*ssa.Store); ok && st.Val == v {
				return true
			}
		}
	}
	if ph, ok := v.(*ssa.Phi); ok {
		_ = ph
	}
	return false
}

// ---- walk errors ----------------------------------------------------------------------------

func ruleWalkErrors(w *World, r *Report) {
	r.Rule("C14-W", "ast.Walk and its helper return only errors obtained from the walker argument (or from the recursive call); a nil error is returned only where every preceding walker result on the path was tested and found nil.")
	walk := w.PkgFunc("ast", "Walk")
	if walk == nil {
		r.Unknown("ast.Walk", "", "not found")
		return
	}
	// Walk and the functions it delegates to (transitively, static calls that hand on a function-typed argument): the
	// traversal may be split over several mutually recursive helpers
	helpers := map[*ssa.Function]bool{walk: true}
	work := []*ssa.Function{walk}
	for len(work) > 0 {
		f := work[len(work)-1]
		work = work[:len(work)-1]
		for _, b := range f.Blocks {
			for _, ins := range b.Instrs {
				c, ok := ins.(ssa.CallInstruction)
				if !ok {
					continue
				}
				cal := c.Common().StaticCallee()
				if cal == nil || !w.InModule(cal) || helpers[cal] || cal.Blocks == nil {
					continue
				}
				passesFunc := false
				for _, a := range c.Common().Args {
					if _, ok := a.Type().Underlying().(*types.Signature); ok {
						passesFunc = true
					}
				}
				if passesFunc {
					helpers[cal] = true
					work = append(work, cal)
				}
			}
		}
	}
	n := 0
	for fn := range helpers {
		var walker *ssa.Parameter
		for _, p := range fn.Params {
			if _, ok := p.Type().Underlying().(*types.Signature); ok {
				walker = p
			}
		}
		for _, b := range fn.Blocks {
			ret, ok := b.Instrs[len(b.Instrs)-1].(*ssa.Return)
			if !ok {
				continue
			}
			var ev ssa.Value
			for _, res := range ret.Results {
				if isErrorType(res.Type()) {
					ev = res
				}
			}
			if ev == nil {
				continue
			}
			n++
			key := fmt.Sprintf("%s: return error %s", w.FnKey(fn), dstDesc(ev))
			ok2, why := walkErrSource(ev, walker, helpers, b, map[ssa.Value]bool{})
			if ok2 {
				r.OK(key, w.InstrPos(ret), why)
			} else {
				r.Bad(key, w.InstrPos(ret), why)
			}
		}
	}
	r.Expect("error returns in Walk and its helper", n, 2)
}

func walkErrSource(ev ssa.Value, walker *ssa.Parameter, helpers map[*ssa.Function]bool, blk *ssa.BasicBlock, seen map[ssa.Value]bool) (bool, string) {
	if seen[ev] {
		return true, ""
	}
	seen[ev] = true
	switch x := ev.(type) {
	case *ssa.Extract:
		if c, ok := x.Tuple.(*ssa.Call); ok {
			if c.Common().Value == ssa.Value(walker) && walker != nil {
				return true, "error produced by the walker"
			}
			if cal := c.Common().StaticCallee(); cal != nil && helpers[cal] {
				return true, "error of the recursive walk"
			}
		}
	case *ssa.Phi:
		for _, e := range x.Edges {
			if ok, why := walkErrSource(e, walker, helpers, blk, seen); !ok {
				return false, why
			}
		}
		return true, "all alternatives are walker errors"
	case *ssa.Const:
		if x.IsNil() {
			// every walker call dominating this return must have been tested
			for d := blk; d != nil; d = d.Idom() {
				for _, ins := range d.Instrs {
					c, ok := ins.(*ssa.Call)
					if !ok || walker == nil || c.Common().Value != ssa.Value(walker) {
						continue
					}
					tested := false
					for _, cf := range dominatingConds(blk) {
						for _, a := range condAtoms(cf.If.Cond, cf.Truth) {
							if y, isNil, isTest := nilTest(a.V); isTest && isNil == a.Truth {
								if ex, ok := y.(*ssa.Extract); ok && ex.Tuple == ssa.Value(c) {
									tested = true
								}
							}
						}
					}
					if !tested {
						return false, "returns nil although a walker error on this path was not tested"
					}
				}
			}
			return true, "nil after every walker error on the path was found nil"
		}
	case *ssa.Call:
		if cal := x.Common().StaticCallee(); cal != nil && helpers[cal] {
			return true, "result of the helper"
		}
	}
	return false, "error value " + shortVal(ev) + " does not come from the walker"
}

// ---- C01-E(a) / C14-N -------------------------------------------------------------------------

func ruleRenderFuncsNilError(w *World, r *Report) {
	r.Rule("C14-E", "Every registered render function has the constant nil as the error operand of every Return: a render function never fails on its own, so the only error Render can return is the writer's.")
	n := 0
	seen := map[*ssa.Function]bool{}
	for _, reg := range w.Registrations() {
		fn := reg.Func
		if fn == nil || seen[fn] {
			continue
		}
		seen[fn] = true
		n++
		key := w.FnKey(fn)
		bad := false
		for _, b := range fn.Blocks {
			ret, ok := b.Instrs[len(b.Instrs)-1].(*ssa.Return)
			if !ok || len(ret.Results) != 2 {
				continue
			}
			if !isNilConst(ret.Results[1]) {
				bad = true
				r.Bad(key+": error result", w.InstrPos(ret), "returns a non-constant error "+shortVal(ret.Results[1])+": Convert can fail (or hide the writer's error) for some document")
			}
		}
		if !bad {
			r.OK(key+": error result", w.FnPos(fn), "nil on every return")
		}
	}
	r.Expect("registered render functions", n, 16)
}

// writerFunctions: module functions that take a util.BufWriter.
func (w *World) writerFunctions() []*ssa.Function {
	sa := w.Sinks()
	var out []*ssa.Function
	for _, fn := range w.Funcs {
		if sa.writerParam(fn) != nil {
			out = append(out, fn)
		}
	}
	return out
}

func ruleSingleChannel(w *World, r *Report) {
	r.Rule("C14-1", "Every sink in every module function that receives a util.BufWriter writes to that parameter (or passes it on); such functions create no other writer (bufio.NewWriter, bytes.Buffer, strings.Builder used as an output channel), never call Flush, start no goroutine and defer nothing: output reaches the destination in program order through one channel.")
	sa := w.Sinks()
	nS := 0
	fns := w.writerFunctions()
	r.Expect("functions receiving the output writer", len(fns), 35)
	for _, fn := range fns {
		wp := sa.writerParam(fn)
		for _, b := range fn.Blocks {
			for _, ins := range b.Instrs {
				key := w.FnKey(fn)
				switch x := ins.(type) {
				case *ssa.Go:
					r.Bad(key+": go statement", w.InstrPos(ins), "a render function starts a goroutine")
				case *ssa.Defer:
					r.Bad(key+": defer", w.InstrPos(ins), "a render function defers work (output could be replayed out of order)")
				case ssa.CallInstruction:
					if s := sa.sinkAt(fn, ins); s != nil {
						nS++
						if s.Writer != ssa.Value(wp) {
							r.Bad(fmt.Sprintf("%s: %s to another writer", key, s.Method), w.InstrPos(ins), "sink writes to "+shortVal(s.Writer)+" instead of the BufWriter parameter")
						}
						continue
					}
					com := x.Common()
					if com.IsInvoke() && com.Method.Name() == "Flush" {
						r.Bad(key+": Flush", w.InstrPos(ins), "a render function flushes the writer itself")
					}
					if cal := com.StaticCallee(); cal != nil && !w.InModule(cal) {
						switch cal.String() {
						case "bufio.NewWriter", "bufio.NewWriterSize", "bytes.NewBuffer", "bytes.NewBufferString", "(*bytes.Buffer).WriteTo", "(*strings.Builder).String", "(*bytes.Buffer).Bytes", "(*bytes.Buffer).String":
							r.Bad(key+": "+cal.String(), w.InstrPos(ins), "a second output buffer is used inside a render function")
						}
					}
				}
			}
		}
	}
	r.Expect("sink instructions", nS, 99)
	r.OK("all sinks write to the handed-down BufWriter", "", fmt.Sprintf("%d sink instructions in %d functions", nS, len(fns)))
}

func ruleNoWriteResultUse(w *World, r *Report) {
	r.Rule("C14-N", "No function that receives the output writer uses the result of a write: every (n, err) of a sink call is discarded, so no branch, return value or panic depends on a write failure.")
	sa := w.Sinks()
	n, used := 0, 0
	for _, fn := range w.writerFunctions() {
		for _, b := range fn.Blocks {
			for _, ins := range b.Instrs {
				s := sa.sinkAt(fn, ins)
				if s == nil {
					continue
				}
				n++
				v, ok := ins.(ssa.Value)
				if !ok {
					continue
				}
				for _, ref := range referrersOf(v) {
					if _, isDbg := ref.(*ssa.DebugRef); isDbg {
						continue
					}
					// extracting a component that is itself unused is still a discard
					if ex, ok := ref.(*ssa.Extract); ok && len(liveRefs(ex)) == 0 {
						continue
					}
					used++
					r.Bad(fmt.Sprintf("%s: result of %s used", w.FnKey(fn), s.Method), w.InstrPos(ins), "the result of a write is inspected by "+strings.TrimSpace(ref.String()))
				}
			}
		}
		// explicit panics in writer functions
		for _, b := range fn.Blocks {
			for _, ins := range b.Instrs {
				if _, ok := ins.(*ssa.Panic); ok {
					r.Bad(w.FnKey(fn)+": panic", w.InstrPos(ins), "explicit panic in a function that writes output")
				}
			}
		}
	}
	r.Expect("write results examined", n, 99)
	if used == 0 {
		r.OK("all write results discarded", "", fmt.Sprintf("%d sink calls, none of their results is used", n))
	}
}

func liveRefs(v ssa.Value) []ssa.Instruction {
	var out []ssa.Instruction
	for _, ref := range referrersOf(v) {
		if _, isDbg := ref.(*ssa.DebugRef); !isDbg {
			out = append(out, ref)
		}
	}
	return out
}

// ---- C14-P ------------------------------------------------------------------------------------------------

// ruleConvertWrappersPassThrough: convenience entry points in front of Markdown.Convert (today: the package-level
// goldmark.Convert) hand the caller's source, writer and options through unchanged and return the result unchanged.
func ruleConvertWrappersPassThrough(w *World, r *Report) {
	r.Rule("C14-P", "Every module function that calls Markdown.Convert (other than an implementation of it) is a pure pass-through: the source, the writer and the options are its own parameters, unchanged; the call's result is returned unchanged; it makes no other call. A wrapper that interposes its own (pooled) buffer in front of the caller's writer takes the final Flush — and with it the error — away from the writer the caller handed in, and keeps state between calls.")
	entries := map[*ssa.Function]bool{}
	for _, f := range w.Entries().Convert {
		entries[f] = true
	}
	n := 0
	for _, fn := range w.Funcs {
		if entries[fn] || fn.Parent() != nil {
			continue
		}
		var conv []*ssa.Call
		nOther := 0
		for _, b := range fn.Blocks {
			for _, ins := range b.Instrs {
				c, ok := ins.(ssa.CallInstruction)
				if !ok {
					continue
				}
				com := c.Common()
				isConv := false
				if com.IsInvoke() && com.Method.Name() == "Convert" && typeShort(com.Value.Type()) == "goldmark.Markdown" {
					isConv = true
				} else if cal := com.StaticCallee(); cal != nil && entries[cal] {
					isConv = true
				}
				if isConv {
					if cc, ok := c.(*ssa.Call); ok {
						conv = append(conv, cc)
					} else {
						nOther++ // go/defer of Convert
					}
				} else if builtinName(com) == "" {
					nOther++
				}
			}
		}
		if len(conv) == 0 {
			continue
		}
		n++
		key := w.FnKey(fn) + ": pass-through to Markdown.Convert"
		var why []string
		if len(conv) != 1 {
			why = append(why, fmt.Sprintf("%d Convert calls", len(conv)))
		}
		if nOther > 0 {
			why = append(why, fmt.Sprintf("%d other call(s) around the conversion", nOther))
		}
		isParam := func(v ssa.Value) bool {
			p, ok := v.(*ssa.Parameter)
			return ok && p.Parent() == fn
		}
		for _, c := range conv {
			args := c.Common().Args
			if !c.Common().IsInvoke() && len(args) > 0 {
				args = args[1:]
			}
			for i, a := range args {
				if !isParam(a) {
					why = append(why, fmt.Sprintf("argument %d of Convert is not the wrapper's own parameter", i))
				}
			}
			for _, b := range fn.Blocks {
				if ret, ok := b.Instrs[len(b.Instrs)-1].(*ssa.Return); ok {
					if len(ret.Results) != 1 || ret.Results[0] != ssa.Value(c) {
						why = append(why, "does not return Convert's result unchanged")
					}
				}
			}
		}
		if len(why) == 0 {
			r.OK(key, w.FnPos(fn), "single call with the wrapper's own parameters, result returned unchanged")
		} else {
			r.Bad(key, w.FnPos(fn), strings.Join(uniqStrings(why), "; "))
		}
	}
	r.Expect("wrappers around Markdown.Convert", n, 1)
}
