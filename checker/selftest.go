package main

import "fmt"

func mutantOverlay(repo, name string) (map[string][]byte, error) {
	return nil, fmt.Errorf("unknown mutant %q", name)
}

func thoroughExtras(w *World, p *Property, rep *Report, m runMeta) {}
func quickExtras(w *World, p *Property, rep *Report, m runMeta)    {}
