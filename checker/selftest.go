package main

// selftest.go — checker self-validation by mutation (DESIGN 2.7).
//
// A mutant is a textual replacement in one source file of the analysed tree, applied IN MEMORY through
// the go/packages overlay (no scratch copy is needed): the subprocess loads /repo's current sources
// with that one file replaced, runs the property's rules and prints its obligations. A breaking mutant
// must make the named rule report something; a neutral mutant (a behaviour-preserving edit) must leave
// the property's verdict clean. A mutant whose anchor text no longer occurs exactly once in the current
// source is recorded as skipped. Results are evidence about the checker, never about goldmark: they
// produce no VIOLATION line.

import (
	"bytes"
	"encoding/json"
	"fmt"
	"os"
	"os/exec"
	"path/filepath"
	"sort"
	"strings"
	"sync"
)

type Mutant struct {
	Name    string
	Prop    string
	File    string // relative to the repository root
	Old     string
	New     string
	Expect  string // rule-id prefix that must report (breaking mutants)
	Neutral bool
	Edits   []Edit // additional edits (same or other files)
	Patch   string // a unified diff instead of Old/New (seeded changes kept under /verif/seeded)
	Seed    bool
	// KnownMiss: a seeded change that DESIGN.md section 8 records as not caught by any static rule; its outcome is
	// reported as "not-caught (recorded)" instead of "missed".
	KnownMiss bool
}

type Edit struct{ File, Old, New string }

func findMutant(name string) *Mutant {
	for i := range mutants {
		if mutants[i].Name == name {
			return &mutants[i]
		}
	}
	return nil
}

func mutantOverlay(repo, name string) (map[string][]byte, error) {
	m := findMutant(name)
	if m == nil {
		return nil, fmt.Errorf("unknown mutant %q", name)
	}
	if m.Patch != "" {
		return applyUnifiedDiff(repo, m.Patch)
	}
	ov := map[string][]byte{}
	edits := append([]Edit{{m.File, m.Old, m.New}}, m.Edits...)
	for _, e := range edits {
		path := filepath.Join(repo, e.File)
		src, ok := ov[path]
		if !ok {
			b, err := os.ReadFile(path)
			if err != nil {
				return nil, err
			}
			src = b
		}
		if n := bytes.Count(src, []byte(e.Old)); n != 1 {
			return nil, fmt.Errorf("anchor text occurs %d times in %s (the tree has changed); mutant skipped", n, e.File)
		}
		ov[path] = bytes.Replace(src, []byte(e.Old), []byte(e.New), 1)
	}
	return ov, nil
}

func runMutant(exe, repo string, m *Mutant) SelfTestResult {
	res := SelfTestResult{Mutant: m.Name, Kind: "breaking", Expect: m.Expect}
	if m.Neutral {
		res.Kind, res.Expect = "neutral", "silent"
	}
	cmd := exec.Command(exe, m.Prop, "--repo", repo, "--mutant", m.Name, "--json", "--no-evidence")
	out, err := cmd.CombinedOutput()
	if ee, ok := err.(*exec.ExitError); ok && ee.ExitCode() == 3 {
		res.Outcome = "skipped"
		res.Detail = firstLine(string(out))
		return res
	}
	var obls []Obligation
	found := false
	for _, line := range strings.Split(string(out), "\n") {
		if strings.HasPrefix(line, "OBLIGATIONS-JSON ") {
			parts := strings.SplitN(line, " ", 3)
			if len(parts) == 3 && json.Unmarshal([]byte(parts[2]), &obls) == nil {
				found = true
			}
		}
	}
	if !found {
		// the mutant does not compile / load: not a realistic mutant any more
		res.Outcome = "skipped"
		res.Detail = "mutated tree did not load: " + firstLine(string(out))
		return res
	}
	var hits, others []string
	for _, o := range obls {
		if o.Status == Discharged {
			continue
		}
		if !m.Neutral && strings.HasPrefix(o.Rule, m.Expect) {
			hits = append(hits, o.Rule+" "+o.Construct)
		} else {
			others = append(others, o.Rule+" "+o.Construct)
		}
	}
	switch {
	case m.Neutral && len(others) == 0:
		res.Outcome = "silent"
	case m.Neutral:
		res.Outcome = "alarmed"
		res.Detail = truncate(strings.Join(others, "; "), 300)
	case len(hits) > 0:
		res.Outcome = "caught"
		res.Detail = truncate(hits[0], 200)
	case len(others) > 0:
		res.Outcome = "caught-by-other-rule"
		res.Detail = truncate(others[0], 200)
	case m.KnownMiss:
		res.Outcome = "not-caught (recorded in DESIGN.md section 8)"
	default:
		res.Outcome = "missed"
	}
	if m.Seed {
		res.Kind = "seeded"
		if res.Outcome == "caught-by-other-rule" {
			res.Outcome = "caught"
		}
	}
	return res
}

func firstLine(s string) string {
	s = strings.TrimSpace(s)
	if i := strings.Index(s, "\n"); i >= 0 {
		s = s[:i]
	}
	return truncate(s, 200)
}

func mutantsFor(prop string) []*Mutant {
	var out []*Mutant
	for i := range mutants {
		if mutants[i].Prop == prop {
			out = append(out, &mutants[i])
		}
	}
	return out
}

func runMutants(ms []*Mutant, m runMeta, rep *Report) {
	if len(ms) == 0 {
		return
	}
	exe := m.CheckerCmd
	results := make([]SelfTestResult, len(ms))
	sem := make(chan struct{}, 8)
	var wg sync.WaitGroup
	for i, mu := range ms {
		wg.Add(1)
		go func(i int, mu *Mutant) {
			defer wg.Done()
			sem <- struct{}{}
			defer func() { <-sem }()
			results[i] = runMutant(exe, m.Repo, mu)
		}(i, mu)
	}
	wg.Wait()
	sort.SliceStable(results, func(i, j int) bool { return results[i].Mutant < results[j].Mutant })
	rep.SelfTest = append(rep.SelfTest, results...)
	for _, r := range results {
		if r.Outcome == "missed" || r.Outcome == "alarmed" {
			rep.Note("WARNING self-validation: mutant %s %s (%s)", r.Mutant, r.Outcome, r.Detail)
		}
	}
}

// thoroughExtras: build-tag variants and the full mutant catalogue of the property.
func thoroughExtras(w *World, p *Property, rep *Report, m runMeta) {
	runVariants(p, rep, m)
	runMutants(mutantsFor(p.ID), m, rep)
}

// quickExtras: one liveness mutant (the first breaking one of the property).
func quickExtras(w *World, p *Property, rep *Report, m runMeta) {
	for _, mu := range mutantsFor(p.ID) {
		if !mu.Neutral {
			runMutants([]*Mutant{mu}, m, rep)
			return
		}
	}
}

// runVariants re-runs the property's rules on the other build configurations in subprocesses and merges
// their non-discharged obligations (prefixed with the variant) into the report.
func runVariants(p *Property, rep *Report, m runMeta) {
	type variant struct{ tags, goarch string }
	vs := []variant{{"appengine", ""}, {"", "386"}}
	type vres struct {
		v    variant
		obls []Obligation
		err  string
	}
	results := make([]vres, len(vs))
	var wg sync.WaitGroup
	for i, v := range vs {
		wg.Add(1)
		go func(i int, v variant) {
			defer wg.Done()
			args := []string{p.ID, "--repo", m.Repo, "--json", "--no-evidence", "--variant"}
			if v.tags != "" {
				args = append(args, "--tags", v.tags)
			}
			if v.goarch != "" {
				args = append(args, "--goarch", v.goarch)
			}
			out, _ := exec.Command(m.CheckerCmd, args...).CombinedOutput()
			results[i].v = v
			ok := false
			for _, line := range strings.Split(string(out), "\n") {
				if strings.HasPrefix(line, "OBLIGATIONS-JSON ") {
					parts := strings.SplitN(line, " ", 3)
					if len(parts) == 3 && json.Unmarshal([]byte(parts[2]), &results[i].obls) == nil {
						ok = true
					}
				}
			}
			if !ok {
				results[i].err = firstLine(string(out))
			}
		}(i, v)
	}
	wg.Wait()
	for _, r := range results {
		name := "tags=" + orDefault(r.v.tags, "none") + ",GOARCH=" + orDefault(r.v.goarch, "amd64")
		rep.Variants = append(rep.Variants, name)
		rep.curRule = "variant"
		if r.err != "" {
			rep.Rules = appendRule(rep.Rules, "variant", "the property's rules are re-evaluated on the other build configurations (tags=appengine selects util_safe.go; GOARCH=386)")
			rep.Unknown("build variant "+name, "", "could not analyse this build configuration: "+r.err)
			continue
		}
		bad := 0
		for _, o := range r.obls {
			if o.Status != Discharged {
				bad++
				o.Construct = "[" + name + "] " + o.Construct
				rep.Obls = append(rep.Obls, o)
			}
		}
		rep.Rules = appendRule(rep.Rules, "variant", "the property's rules are re-evaluated on the other build configurations (tags=appengine selects util_safe.go; GOARCH=386)")
		if bad == 0 {
			rep.OK("build variant "+name, "", fmt.Sprintf("%d obligations, all discharged", len(r.obls)))
		}
	}
}

func appendRule(rs []RuleInfo, id, text string) []RuleInfo {
	for _, r := range rs {
		if r.ID == id {
			return rs
		}
	}
	return append(rs, RuleInfo{id, text})
}

func execOutput(exe string, args ...string) (string, error) {
	out, err := exec.Command(exe, args...).CombinedOutput()
	return string(out), err
}
