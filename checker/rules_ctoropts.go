package main

// rules_ctoropts.go — C10-A (also C15): a constructor applies the options it is given to the object it returns.

import (
	"fmt"
	"go/types"
	"regexp"
	"strings"

	"golang.org/x/tools/go/ssa"
)

var setOptionMethod = regexp.MustCompile(`^Set[A-Za-z]*Option$`)

// optionElem: t is a slice of a module interface with exactly one method named Set…Option; returns that method name.
func (w *World) optionElem(t types.Type) string {
	sl, ok := t.Underlying().(*types.Slice)
	if !ok {
		return ""
	}
	nt, ok := sl.Elem().(*types.Named)
	if !ok || !w.InModuleType(nt) {
		return ""
	}
	it, ok := nt.Underlying().(*types.Interface)
	if !ok || it.NumExplicitMethods() != 1 || !setOptionMethod.MatchString(it.ExplicitMethod(0).Name()) {
		return ""
	}
	return it.ExplicitMethod(0).Name()
}

func addrRoot(v ssa.Value) ssa.Value {
	for i := 0; i < 16; i++ {
		switch x := v.(type) {
		case *ssa.FieldAddr:
			v = x.X
		case *ssa.IndexAddr:
			v = x.X
		case *ssa.MakeInterface:
			v = x.X
		case *ssa.ChangeInterface:
			v = x.X
		case *ssa.ChangeType:
			v = x.X
		default:
			return v
		}
	}
	return v
}

func ruleConstructorsApplyOptions(w *World, r *Report) {
	r.Rule("C10-A", "Every module function New… that takes a list of functional options (a slice of a module interface whose only method is Set…Option) and returns an object it allocates applies each option to that object: the Set…Option call — in the constructor's own loop over the list, or in a helper the list is handed to — receives a pointer into the returned allocation, or the helper works on a copy and its result is stored back into the returned allocation. A helper with a value receiver whose result is dropped configures a copy: NewSetextHeadingParser(WithAutoHeadingID()) then builds a parser that never assigns ids, while its ATX sibling does.")
	n := 0
	for _, fn := range w.Funcs {
		if fn.Synthetic != "" || !strings.HasPrefix(fn.Name(), "New") || fn.Signature.Recv() != nil {
			continue
		}
		var optP *ssa.Parameter
		method := ""
		for _, p := range fn.Params {
			if m := w.optionElem(p.Type()); m != "" {
				optP, method = p, m
			}
		}
		if optP == nil {
			continue
		}
		// the allocation(s) returned
		roots := map[ssa.Value]bool{}
		for _, b := range fn.Blocks {
			if ret, ok := b.Instrs[len(b.Instrs)-1].(*ssa.Return); ok && len(ret.Results) >= 1 {
				for _, leaf := range phiLeaves(ret.Results[0]) {
					if al, ok := addrRoot(leaf).(*ssa.Alloc); ok {
						roots[al] = true
					}
				}
			}
		}
		if len(roots) == 0 {
			continue // returns something it did not allocate (a shared default, a value): not a constructor in this sense
		}
		// objects the returned allocation holds: a config built first and stored into a field of the result
		for _, b := range fn.Blocks {
			for _, ins := range b.Instrs {
				if st, ok := ins.(*ssa.Store); ok && roots[addrRoot(st.Addr)] {
					if _, isPtr := st.Val.Type().Underlying().(*types.Pointer); isPtr {
						roots[addrRoot(st.Val)] = true
					}
				}
			}
		}
		n++
		key := w.FnKey(fn) + ": options reach the returned object"
		applied, bad := 0, ""
		derivesFromOpts := func(v ssa.Value) bool {
			found := false
			operandsClosure(v, func(x ssa.Value) bool {
				if x == ssa.Value(optP) {
					found = true
				}
				return !found
			})
			return found
		}
		for _, b := range fn.Blocks {
			for _, ins := range b.Instrs {
				if st, isSt := ins.(*ssa.Store); isSt && st.Val == ssa.Value(optP) && roots[addrRoot(st.Addr)] {
					applied++ // the list is kept in the returned object and applied when that object is used (an Extender)
					continue
				}
				c, ok := ins.(ssa.CallInstruction)
				if !ok {
					continue
				}
				com := c.Common()
				if com.IsInvoke() && com.Method.Name() == method && derivesFromOpts(com.Value) && len(com.Args) == 1 {
					applied++
					if !roots[addrRoot(com.Args[0])] {
						bad = fmt.Sprintf("%s at %s is applied to %s, which is not the object the constructor returns", method, w.InstrPos(ins), shortVal(addrRoot(com.Args[0])))
					}
					continue
				}
				cal := com.StaticCallee()
				if cal == nil || !w.InModule(cal) {
					continue
				}
				passes := false
				for _, a := range com.Args {
					if a == ssa.Value(optP) || (isSliceOf(a, optP)) {
						passes = true
					}
				}
				if !passes {
					continue
				}
				applied++
				// in place through a pointer into the returned object, or a copy whose result is stored back
				inPlace := false
				for _, a := range com.Args {
					if _, isPtr := a.Type().Underlying().(*types.Pointer); isPtr && roots[addrRoot(a)] {
						inPlace = true
					}
				}
				storedBack := false
				if v, isVal := ins.(ssa.Value); isVal {
					for _, ref := range referrersOf(v) {
						if st, ok := ref.(*ssa.Store); ok && st.Val == v && roots[addrRoot(st.Addr)] {
							storedBack = true
						}
					}
				}
				if !inPlace && !storedBack {
					bad = fmt.Sprintf("the options are handed to %s at %s, which receives no pointer into the returned object, and its result is not stored into it: the options configure a copy that is dropped", w.FnKey(cal), w.InstrPos(ins))
				}
			}
		}
		switch {
		case bad != "":
			r.Bad(key, w.FnPos(fn), bad)
		case applied == 0:
			r.Bad(key, w.FnPos(fn), "the option list is never applied")
		default:
			r.OK(key, w.FnPos(fn), fmt.Sprintf("%d application site(s), each on the returned allocation", applied))
		}
	}
	r.Expect("constructors taking functional options", n, 8)
}

func isSliceOf(a ssa.Value, p *ssa.Parameter) bool {
	sl, ok := a.(*ssa.Slice)
	return ok && sl.X == ssa.Value(p)
}
