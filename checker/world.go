package main

// world.go — loading of the analysed tree ("cover what the build covers") and
// lookups of program entities by role (interface implemented, exported name).

import (
	"fmt"
	"go/ast"
	"go/token"
	"go/types"
	"os"
	"path/filepath"
	"sort"
	"strings"

	"golang.org/x/tools/go/packages"
	"golang.org/x/tools/go/ssa"
	"golang.org/x/tools/go/ssa/ssautil"
)

const modPath = "github.com/yuin/goldmark"

// the packages that make up the library (test support excluded).
var wantPkgs = []string{
	modPath,
	modPath + "/ast",
	modPath + "/text",
	modPath + "/util",
	modPath + "/parser",
	modPath + "/renderer",
	modPath + "/renderer/html",
	modPath + "/extension",
	modPath + "/extension/ast",
}

// World is the type-checked, SSA-built program under analysis.
type World struct {
	Dir    string
	Tags   string
	GOARCH string
	Pkgs   map[string]*packages.Package // by import path (module packages only)
	Prog   *ssa.Program
	SPkgs  map[string]*ssa.Package
	Fset   *token.FileSet
	Funcs  []*ssa.Function // module functions with bodies (incl. anonymous), sorted by name
	AllFns map[*ssa.Function]bool

	cg        *CallGraph
	fileOfPos map[*token.File]*ast.File
	fnDecl    map[*ssa.Function]ast.Node
	memo      map[string]interface{}

	sigSubst     map[*ssa.Parameter]ssa.Value // C16-T: parameters of a template helper standing for the call's arguments
	htmlType1    *int64
	escFuncParam ssa.Value // set while a shared sanitiser helper is examined: the parameter that holds the escape lookup
}

type LoadOpts struct {
	Dir     string
	Tags    string
	GOARCH  string
	Overlay map[string][]byte
}

func Load(o LoadOpts) (*World, error) {
	env := append(os.Environ(),
		"GOFLAGS=-mod=mod", "GOPROXY=off", "GOSUMDB=off", "GOTOOLCHAIN=local", "GOWORK=off", "CGO_ENABLED=0")
	if o.GOARCH != "" {
		env = append(env, "GOARCH="+o.GOARCH)
	}
	cfg := &packages.Config{
		Mode:    packages.LoadAllSyntax,
		Dir:     o.Dir,
		Tests:   false,
		Env:     env,
		Overlay: o.Overlay,
	}
	if o.Tags != "" {
		cfg.BuildFlags = []string{"-tags=" + o.Tags}
	}
	pkgs, err := packages.Load(cfg, "./...")
	if err != nil {
		return nil, fmt.Errorf("load: %v", err)
	}
	w := &World{Dir: o.Dir, Tags: o.Tags, GOARCH: o.GOARCH, Pkgs: map[string]*packages.Package{}, SPkgs: map[string]*ssa.Package{},
		memo: map[string]interface{}{}}
	var errs []string
	packages.Visit(pkgs, nil, func(p *packages.Package) {
		for _, e := range p.Errors {
			errs = append(errs, e.Error())
		}
	})
	if len(errs) > 0 {
		sort.Strings(errs)
		if len(errs) > 10 {
			errs = errs[:10]
		}
		return nil, fmt.Errorf("load/type errors (the tree must build): %s", strings.Join(errs, "; "))
	}
	for _, p := range pkgs {
		for _, want := range wantPkgs {
			if p.PkgPath == want {
				w.Pkgs[p.PkgPath] = p
			}
		}
	}
	if len(w.Pkgs) != len(wantPkgs) {
		var got []string
		for k := range w.Pkgs {
			got = append(got, k)
		}
		sort.Strings(got)
		return nil, fmt.Errorf("expected the %d library packages, loaded %d: %v", len(wantPkgs), len(w.Pkgs), got)
	}
	prog, _ := ssautil.AllPackages(pkgs, ssa.InstantiateGenerics)
	prog.Build()
	w.Prog = prog
	w.Fset = prog.Fset
	for path, p := range w.Pkgs {
		sp := prog.Package(p.Types)
		if sp == nil {
			return nil, fmt.Errorf("no SSA package for %s", path)
		}
		w.SPkgs[path] = sp
	}
	w.AllFns = ssautil.AllFunctions(prog)
	// AllFunctions reaches methods only through types that are converted to an interface somewhere in the program. The
	// library is analysed without a client, so the methods of a type that only clients convert (extension.TaskList,
	// extension.GFM, …) or call are added here: every declared method of every named type of the module's packages, and
	// whatever they reference.
	var addFn func(fn *ssa.Function)
	addFn = func(fn *ssa.Function) {
		if fn == nil || w.AllFns[fn] {
			return
		}
		w.AllFns[fn] = true
		for _, a := range fn.AnonFuncs {
			addFn(a)
		}
		for _, b := range fn.Blocks {
			for _, ins := range b.Instrs {
				for _, op := range ins.Operands(nil) {
					if f, ok := (*op).(*ssa.Function); ok {
						addFn(f)
					}
				}
			}
		}
	}
	for _, p := range w.Pkgs {
		sc := p.Types.Scope()
		for _, name := range sc.Names() {
			tn, ok := sc.Lookup(name).(*types.TypeName)
			if !ok || tn.IsAlias() {
				continue
			}
			nt, ok := tn.Type().(*types.Named)
			if !ok || nt.TypeParams().Len() > 0 {
				continue
			}
			for i := 0; i < nt.NumMethods(); i++ {
				addFn(prog.FuncValue(nt.Method(i)))
			}
		}
	}
	for fn := range w.AllFns {
		if w.InModule(fn) && fn.Blocks != nil {
			w.Funcs = append(w.Funcs, fn)
		}
	}
	sort.Slice(w.Funcs, func(i, j int) bool {
		a, b := w.Funcs[i], w.Funcs[j]
		if a.String() != b.String() {
			return a.String() < b.String()
		}
		return a.Pos() < b.Pos()
	})
	if len(w.Funcs) < 500 {
		return nil, fmt.Errorf("only %d module functions found; expected several hundred", len(w.Funcs))
	}
	w.fileOfPos = map[*token.File]*ast.File{}
	for _, p := range w.Pkgs {
		for _, f := range p.Syntax {
			w.fileOfPos[w.Fset.File(f.Pos())] = f
		}
	}
	return w, nil
}

// InModule reports whether fn belongs to one of the 9 library packages.
func (w *World) InModule(fn *ssa.Function) bool {
	if fn == nil {
		return false
	}
	p := fn.Pkg
	if p == nil {
		// methods of instantiated generics / wrappers: use the origin / object package
		if fn.Origin() != nil && fn.Origin().Pkg != nil {
			p = fn.Origin().Pkg
		} else if fn.Object() != nil && fn.Object().Pkg() != nil {
			_, ok := w.Pkgs[fn.Object().Pkg().Path()]
			return ok
		} else if fn.Parent() != nil {
			return w.InModule(fn.Parent())
		} else {
			return false
		}
	}
	_, ok := w.Pkgs[p.Pkg.Path()]
	return ok
}

func (w *World) PkgOf(fn *ssa.Function) string {
	for f := fn; f != nil; f = f.Parent() {
		if f.Pkg != nil {
			return f.Pkg.Pkg.Path()
		}
		if f.Object() != nil && f.Object().Pkg() != nil {
			return f.Object().Pkg().Path()
		}
	}
	return ""
}

// Pos renders a position relative to the analysed directory.
func (w *World) Pos(p token.Pos) string {
	if !p.IsValid() {
		return "-"
	}
	pos := w.Fset.Position(p)
	rel, err := filepath.Rel(w.Dir, pos.Filename)
	if err != nil || strings.HasPrefix(rel, "..") {
		rel = pos.Filename
	}
	return fmt.Sprintf("%s:%d", rel, pos.Line)
}

// FnPos gives a usable position for a function (its declaration).
func (w *World) FnPos(fn *ssa.Function) string {
	if fn == nil {
		return "-"
	}
	if fn.Pos().IsValid() {
		return w.Pos(fn.Pos())
	}
	if fn.Syntax() != nil {
		return w.Pos(fn.Syntax().Pos())
	}
	return "-"
}

// InstrPos finds a valid position for an instruction, falling back to neighbours in the block.
func (w *World) InstrPos(ins ssa.Instruction) string {
	if ins.Pos().IsValid() {
		return w.Pos(ins.Pos())
	}
	if v, ok := ins.(ssa.Value); ok {
		_ = v
	}
	b := ins.Block()
	if b != nil {
		for _, i := range b.Instrs {
			if i.Pos().IsValid() {
				return w.Pos(i.Pos()) + "(block)"
			}
		}
		return w.FnPos(b.Parent()) + "(func)"
	}
	return "-"
}

// FnKey is a line-independent name of a function: pkg-relative path + receiver + name.
func (w *World) FnKey(fn *ssa.Function) string {
	s := fn.String()
	s = strings.ReplaceAll(s, modPath+"/", "")
	s = strings.ReplaceAll(s, modPath+".", "goldmark.")
	return s
}

// ---- lookups --------------------------------------------------------------

func (w *World) TPkg(short string) *types.Package {
	path := modPath
	if short != "" && short != "goldmark" {
		path = modPath + "/" + short
	}
	p := w.Pkgs[path]
	if p == nil {
		return nil
	}
	return p.Types
}

// Obj looks up a package-level object, e.g. Obj("util","URLEscape").
func (w *World) Obj(pkg, name string) types.Object {
	p := w.TPkg(pkg)
	if p == nil {
		return nil
	}
	return p.Scope().Lookup(name)
}

func (w *World) Named(pkg, name string) *types.Named {
	o := w.Obj(pkg, name)
	if o == nil {
		return nil
	}
	n, _ := o.Type().(*types.Named)
	return n
}

func (w *World) Iface(pkg, name string) *types.Interface {
	n := w.Named(pkg, name)
	if n == nil {
		return nil
	}
	i, _ := n.Underlying().(*types.Interface)
	return i
}

// PkgFunc returns the SSA function of a package-level func.
func (w *World) PkgFunc(pkg, name string) *ssa.Function {
	o := w.Obj(pkg, name)
	f, ok := o.(*types.Func)
	if !ok {
		return nil
	}
	return w.Prog.FuncValue(f)
}

// Global returns the SSA global for a package-level var.
func (w *World) Global(pkg, name string) *ssa.Global {
	path := modPath
	if pkg != "" && pkg != "goldmark" {
		path = modPath + "/" + pkg
	}
	sp := w.SPkgs[path]
	if sp == nil {
		return nil
	}
	g, _ := sp.Members[name].(*ssa.Global)
	return g
}

// NamedTypes lists all named (non-alias) types declared at package level in module packages.
func (w *World) NamedTypes() []*types.Named {
	if v, ok := w.memo["namedtypes"]; ok {
		return v.([]*types.Named)
	}
	var out []*types.Named
	var paths []string
	for p := range w.Pkgs {
		paths = append(paths, p)
	}
	sort.Strings(paths)
	for _, p := range paths {
		sc := w.Pkgs[p].Types.Scope()
		for _, n := range sc.Names() {
			if tn, ok := sc.Lookup(n).(*types.TypeName); ok && !tn.IsAlias() {
				if nt, ok := tn.Type().(*types.Named); ok {
					out = append(out, nt)
				}
			}
		}
	}
	w.memo["namedtypes"] = out
	return out
}

// Implementers returns module named types T (non-interface) such that *T or T implements iface.
func (w *World) Implementers(iface *types.Interface) []*types.Named {
	var out []*types.Named
	if iface == nil {
		return nil
	}
	for _, nt := range w.NamedTypes() {
		if _, isI := nt.Underlying().(*types.Interface); isI {
			continue
		}
		if types.Implements(nt, iface) || types.Implements(types.NewPointer(nt), iface) {
			out = append(out, nt)
		}
	}
	return out
}

// MethodOf returns the SSA function implementing method name on *T (or T), following embedding.
// Only methods whose body is in the module are returned; promoted methods resolve to the
// declaring type's function.
func (w *World) MethodOf(t *types.Named, name string) *ssa.Function {
	for _, recv := range []types.Type{types.NewPointer(t), t} {
		ms := w.Prog.MethodSets.MethodSet(recv)
		for i := 0; i < ms.Len(); i++ {
			sel := ms.At(i)
			if sel.Obj().Name() == name {
				if f, ok := sel.Obj().(*types.Func); ok {
					if fn := w.Prog.FuncValue(f); fn != nil {
						return fn
					}
				}
			}
		}
	}
	return nil
}

// DeclaredMethod returns the method declared directly on T or *T with the given name (no promotion).
func (w *World) DeclaredMethod(t *types.Named, name string) *ssa.Function {
	for i := 0; i < t.NumMethods(); i++ {
		m := t.Method(i)
		if m.Name() == name {
			return w.Prog.FuncValue(m)
		}
	}
	return nil
}

// AnonFuncs returns fn and all its nested anonymous functions.
func AnonClosure(fn *ssa.Function) []*ssa.Function {
	out := []*ssa.Function{fn}
	for _, a := range fn.AnonFuncs {
		out = append(out, AnonClosure(a)...)
	}
	return out
}

// ---- AST access -------------------------------------------------------------

// FileOf returns the *ast.File containing pos.
func (w *World) FileOf(pos token.Pos) *ast.File {
	if !pos.IsValid() {
		return nil
	}
	return w.fileOfPos[w.Fset.File(pos)]
}

// TypesInfoFor returns the types.Info of the package owning fn.
func (w *World) InfoFor(fn *ssa.Function) *types.Info {
	p := w.Pkgs[w.PkgOf(fn)]
	if p == nil {
		return nil
	}
	return p.TypesInfo
}

// ---- small type helpers -------------------------------------------------------

func isByteSlice(t types.Type) bool {
	s, ok := t.Underlying().(*types.Slice)
	if !ok {
		return false
	}
	b, ok := s.Elem().Underlying().(*types.Basic)
	return ok && b.Kind() == types.Uint8
}

func isInteger(t types.Type) bool {
	b, ok := t.Underlying().(*types.Basic)
	return ok && b.Info()&types.IsInteger != 0
}

func isString(t types.Type) bool {
	b, ok := t.Underlying().(*types.Basic)
	return ok && b.Info()&types.IsString != 0
}

func isBool(t types.Type) bool {
	b, ok := t.Underlying().(*types.Basic)
	return ok && b.Info()&types.IsBoolean != 0
}

func deref(t types.Type) types.Type {
	if p, ok := t.Underlying().(*types.Pointer); ok {
		return p.Elem()
	}
	return t
}

func namedOf(t types.Type) *types.Named {
	t = deref(t)
	n, _ := t.(*types.Named)
	return n
}

// typeShort renders a type with module-relative package qualifiers.
func typeShort(t types.Type) string {
	return types.TypeString(t, func(p *types.Package) string {
		s := strings.TrimPrefix(p.Path(), modPath+"/")
		if s == modPath {
			return "goldmark"
		}
		return s
	})
}

// fieldName returns the struct type and field name addressed by a FieldAddr.
func fieldOfAddr(fa *ssa.FieldAddr) (types.Type, *types.Var) {
	st := deref(fa.X.Type())
	s, ok := st.Underlying().(*types.Struct)
	if !ok {
		return st, nil
	}
	return st, s.Field(fa.Field)
}

func fieldOfField(f *ssa.Field) (types.Type, *types.Var) {
	st := f.X.Type()
	s, ok := st.Underlying().(*types.Struct)
	if !ok {
		return st, nil
	}
	return st, s.Field(f.Field)
}

// calleeOf returns the static callee of a call instruction, or nil.
func calleeOf(c ssa.CallInstruction) *ssa.Function {
	return c.Common().StaticCallee()
}

// fullName returns e.g. "bytes.ToLower" or "(*bytes.Buffer).Write" for any function.
func fullName(f *ssa.Function) string {
	if f == nil {
		return ""
	}
	return f.String()
}

func sortedKeys(m map[string]bool) []string {
	var ks []string
	for k := range m {
		ks = append(ks, k)
	}
	sort.Strings(ks)
	return ks
}
