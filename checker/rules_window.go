package main

// rules_window.go — window guards: `i+K < len(s)` dominating reads s[i+j].

import (
	"fmt"
	"go/token"
	"strings"

	"golang.org/x/tools/go/ssa"
)

type windowGuard struct {
	fn     *ssa.Function
	iff    *ssa.If
	base   ssa.Value // index base X
	slice  ssa.Value // s
	k      int64     // guard proves X+k < len(s)
	edge   int       // the successor edge of iff on which the guard holds
	maxOff int64     // largest constant offset j of a read s[X+j] in the region the guard dominates (-1: none)
	reads  int
}

// splitOffset: v = X + c (c constant, possibly 0).
func splitOffset(v ssa.Value) (ssa.Value, int64) {
	v = stripConv(v)
	if b, ok := v.(*ssa.BinOp); ok {
		if b.Op == token.ADD {
			if c, ok := constInt(b.Y); ok {
				x, c0 := splitOffset(b.X)
				return x, c0 + c
			}
			if c, ok := constInt(b.X); ok {
				x, c0 := splitOffset(b.Y)
				return x, c0 + c
			}
		}
		if b.Op == token.SUB {
			if c, ok := constInt(b.Y); ok {
				x, c0 := splitOffset(b.X)
				return x, c0 - c
			}
		}
	}
	return v, 0
}

// lenOf: v is len(s) (directly) — returns s.
func lenOf(v ssa.Value) ssa.Value {
	v = stripConv(v)
	if c, ok := v.(*ssa.Call); ok && builtinName(c.Common()) == "len" {
		return c.Common().Args[0]
	}
	return nil
}

// windowGuards lists the guards of fn whose true (or false) edge proves X+k < len(s), with the reads they dominate.
func windowGuards(fn *ssa.Function) []windowGuard {
	var out []windowGuard
	for _, b := range fn.Blocks {
		if len(b.Instrs) == 0 {
			continue
		}
		iff, ok := b.Instrs[len(b.Instrs)-1].(*ssa.If)
		if !ok {
			continue
		}
		bo, ok := iff.Cond.(*ssa.BinOp)
		if !ok {
			continue
		}
		// the "remaining length" spelling: len(s) - X  (>|>=|<|<=)  c
		if g, ok := remainingLengthGuard(fn, b, iff, bo); ok {
			out = append(out, g)
			continue
		}
		// normalise to  lhs < rhs + adj  holding on edge `edge`; each comparison says something on both of its edges
		type norm struct {
			lhs, rhs ssa.Value
			edge     int
			adj      int64
		}
		var cands []norm
		switch bo.Op {
		case token.LSS: // X < Y | else Y <= X
			cands = []norm{{bo.X, bo.Y, 0, 0}, {bo.Y, bo.X, 1, 1}}
		case token.GTR: // Y < X | else X <= Y
			cands = []norm{{bo.Y, bo.X, 0, 0}, {bo.X, bo.Y, 1, 1}}
		case token.GEQ: // Y <= X | else X < Y
			cands = []norm{{bo.X, bo.Y, 1, 0}, {bo.Y, bo.X, 0, 1}}
		case token.LEQ: // X <= Y | else Y < X
			cands = []norm{{bo.X, bo.Y, 0, 1}, {bo.Y, bo.X, 1, 0}}
		default:
			continue
		}
		for _, c := range cands {
			s := lenOf(c.rhs)
			rbase, rc := splitOffset(c.rhs)
			if s == nil {
				s = lenOf(rbase)
			} else {
				rc = 0
			}
			if s == nil {
				continue
			}
			x, k := splitOffset(c.lhs)
			// x + k < len(s) + rc + adj   =>  x + (k - rc - adj) < len(s)
			k = k - rc - c.adj
			g := windowGuard{fn: fn, iff: iff, base: x, slice: s, k: k, edge: c.edge, maxOff: -1 << 30}
			g.collectReads(b, c.edge)
			out = append(out, g)
		}
	}
	return out
}

func (g *windowGuard) collectReads(b *ssa.BasicBlock, edge int) {
	for _, blk := range g.fn.Blocks {
		if !edgeDominates(b, edge, blk) {
			continue
		}
		for _, ins := range blk.Instrs {
			ia, ok := ins.(*ssa.IndexAddr)
			if !ok || ia.X != g.slice {
				continue
			}
			ix, j := splitOffset(ia.Index)
			if ix != g.base {
				continue
			}
			g.reads++
			if j > g.maxOff {
				g.maxOff = j
			}
		}
	}
}

// remainingLengthGuard recognises `len(s) - X  op  c` (either operand order) and turns it into X + k < len(s):
//
//	len-X >  c  true edge: k = c      len-X >= c  true edge: k = c-1
//	len-X <  c false edge: k = c-1    len-X <= c false edge: k = c
func remainingLengthGuard(fn *ssa.Function, b *ssa.BasicBlock, iff *ssa.If, bo *ssa.BinOp) (windowGuard, bool) {
	op := bo.Op
	rem, cst := bo.X, bo.Y
	if _, isC := constInt(rem); isC {
		rem, cst = bo.Y, bo.X
		switch op {
		case token.LSS:
			op = token.GTR
		case token.GTR:
			op = token.LSS
		case token.LEQ:
			op = token.GEQ
		case token.GEQ:
			op = token.LEQ
		}
	}
	c, isC := constInt(cst)
	if !isC {
		return windowGuard{}, false
	}
	sub, ok := stripConv(rem).(*ssa.BinOp)
	if !ok || sub.Op != token.SUB {
		return windowGuard{}, false
	}
	s := lenOf(sub.X)
	if s == nil {
		return windowGuard{}, false
	}
	x, off := splitOffset(sub.Y) // len - (X + off) op c
	var k int64
	edge := 0
	switch op {
	case token.GTR:
		k = c
	case token.GEQ:
		k = c - 1
	case token.LSS:
		k, edge = c-1, 1
	case token.LEQ:
		k, edge = c, 1
	default:
		return windowGuard{}, false
	}
	g := windowGuard{fn: fn, iff: iff, base: x, slice: s, k: k + off, edge: edge, maxOff: -1 << 30}
	g.collectReads(b, edge)
	return g, true
}

// uncoveredReads: reads s[X+j] (j > 0 constant) dominated by at least one window guard on the same (X, s) but by none
// with k >= j.
type uncoveredRead struct {
	ins   ssa.Instruction // the IndexAddr, or the call of a function that reads s[p] of its parameters unguarded
	X     ssa.Value       // the slice
	Index ssa.Value       // the index expression
	j, k  int64
	guard *ssa.If
}

// readsParamUnguarded: fn indexes its slice parameter si at its integer parameter pi (or at a loop variable that starts
// there) in a block that no comparison with len(that slice) dominates — the caller must have made sure p < len(s).
func readsParamUnguarded(fn *ssa.Function, si, pi int) bool {
	if fn == nil || fn.Blocks == nil || si >= len(fn.Params) || pi >= len(fn.Params) {
		return false
	}
	s, p := ssa.Value(fn.Params[si]), ssa.Value(fn.Params[pi])
	for _, b := range fn.Blocks {
		for _, ins := range b.Instrs {
			ia, ok := ins.(*ssa.IndexAddr)
			if !ok || ia.X != s {
				continue
			}
			starts := ia.Index == p
			if ph, isPhi := ia.Index.(*ssa.Phi); isPhi {
				for i, e := range ph.Edges {
					if e == p && !ph.Block().Dominates(ph.Block().Preds[i]) {
						starts = true
					}
				}
			}
			if !starts {
				continue
			}
			lenGuarded := false
			for _, cf := range dominatingConds(b) {
				operandsClosure(cf.If.Cond, func(v ssa.Value) bool {
					if lenOf(v) == s {
						lenGuarded = true
					}
					return !lenGuarded
				})
			}
			if !lenGuarded {
				return true
			}
		}
	}
	return false
}

func uncoveredReads(fn *ssa.Function) (covered int, out []uncoveredRead) {
	gs := windowGuards(fn)
	if len(gs) == 0 {
		return
	}
	for _, blk := range fn.Blocks {
		for _, ins := range blk.Instrs {
			var rdX, rdIdx ssa.Value
			minJ := int64(1)
			switch x := ins.(type) {
			case *ssa.IndexAddr:
				rdX, rdIdx = x.X, x.Index
			case *ssa.Call:
				// a module helper that reads s[p] of its (slice, index) parameters without a length test of its own
				cal := x.Common().StaticCallee()
				if cal == nil || cal.Blocks == nil || len(x.Common().Args) < 2 || cal.Pkg == nil || !strings.HasPrefix(cal.Pkg.Pkg.Path(), modPath) {
					continue
				}
				for si, a := range x.Common().Args {
					if !isByteSlice(a.Type()) {
						continue
					}
					for pi, pa := range x.Common().Args {
						if pi != si && isInteger(pa.Type()) && readsParamUnguarded(cal, si, pi) {
							rdX, rdIdx, minJ = a, pa, 0
						}
					}
				}
			}
			if rdX == nil {
				continue
			}
			ia := struct{ X, Index ssa.Value }{rdX, rdIdx}
			x, j := splitOffset(ia.Index)
			if j < minJ {
				continue
			}
			best := int64(-1 << 30)
			var bg *ssa.If
			for _, g := range gs {
				if g.slice != ia.X || g.base != x {
					continue
				}
				if !edgeDominates(g.iff.Block(), g.edge, blk) {
					continue
				}
				if g.k > best {
					best, bg = g.k, g.iff
				}
			}
			if bg == nil {
				continue
			}
			if best >= j {
				covered++
			} else {
				out = append(out, uncoveredRead{ins, ia.X, ia.Index, j, best, bg})
			}
		}
	}
	return
}

// neqBoost: the not-equal idiom `i != len(s)-1` (with i < len(s) already known) also proves i+1 < len(s). For a read
// in blk, given the best k proved so far for (x, s), look for dominating facts X + a != len(s) + b with a-b == k+1.
func neqBoost(fn *ssa.Function, blk *ssa.BasicBlock, x, s ssa.Value, k int64) int64 {
	for changed := true; changed; {
		changed = false
		for _, cf := range dominatingConds(blk) {
			bo, ok := cf.If.Cond.(*ssa.BinOp)
			if !ok || (bo.Op != token.EQL && bo.Op != token.NEQ) {
				continue
			}
			if (bo.Op == token.NEQ) != cf.Truth {
				continue // this edge says "equal"
			}
			for _, pair := range [][2]ssa.Value{{bo.X, bo.Y}, {bo.Y, bo.X}} {
				lx, a := splitOffset(pair[0])
				rb, b := splitOffset(pair[1])
				ls := lenOf(rb)
				if ls == nil {
					continue
				}
				if lx == x && ls == s && a-b == k+1 {
					k++
					changed = true
				}
			}
		}
	}
	return k
}

// lookaheadExceptions: reads that are safe for a reason the window rule cannot see. One line of reason each.
var lookaheadExceptions = map[string]string{
	"text.findSubMatchReader": "match is the index-pair slice of regexp.FindSubmatchIndex: its length is even and the loop steps by 2",
}

// ruleLookaheadCovered (C01-W).
func ruleLookaheadCovered(w *World, r *Report) {
	r.Rule("C01-W", "Window rule for scanners: every read s[X+j] at a positive constant offset j from an index X that sits under a window guard on the same X and s (a dominating comparison proving X+k < len(s), in any spelling: <, >, >=, <= against len(s), len(s)-c or a variable holding len(s); plus the idiom X != len(s)-1) is covered by the strongest such guard: j <= k. A guard weakened by one (i+1 < n in front of v[i+2]) makes the truncated form of the construct at the very end of the input index out of range. Reads with no guard on the same index are not judged here.")
	covered, flagged := 0, 0
	for _, fn := range w.Funcs {
		if fn.Synthetic != "" {
			continue
		}
		c, un := uncoveredReads(fn)
		covered += c
		for _, u := range un {
			x, _ := splitOffset(u.Index)
			if k2 := neqBoost(fn, u.ins.Block(), x, u.X, u.k); k2 >= u.j {
				covered++
				continue
			}
			if opaquePredicateOn(u.ins.Block(), u.X) {
				continue // a dominating branch on a predicate over the same slice: not judged here
			}
			key := fmt.Sprintf("%s: %s[%s]", w.FnKey(fn), stableName(u.X), exprOfOffset(u.Index))
			if why, ok := lookaheadExceptions[w.FnKey(fn)]; ok {
				r.OK(key, w.InstrPos(u.ins), "reviewed exception: "+why)
				continue
			}
			flagged++
			r.Bad(key, w.InstrPos(u.ins), fmt.Sprintf("the read at offset +%d is dominated by window guards that prove only offset +%d in range (strongest guard at %s): index out of range when the input ends there", u.j, u.k, w.InstrPos(u.guard)))
		}
	}
	r.Expect("lookahead reads covered by a window guard", covered, 44)
	if flagged == 0 {
		r.OK("all lookahead reads under a window guard are covered", "", fmt.Sprintf("%d reads", covered))
	}
}

func exprOfOffset(v ssa.Value) string {
	x, j := splitOffset(v)
	return fmt.Sprintf("%s+%d", stableName(x), j)
}

// ruleWideGuards (C19-G): a guard that demands more bytes than the guarded code examines.
// neededOffset: the largest offset j of a read s[X+j] in the region guard gs[gi] dominates that no other guard on the
// same (X, s) covers. A guard that demands more than this (k > needed) could be weakened without exposing any read:
// the extra bytes it insists on are never looked at under its protection.
func neededOffset(fn *ssa.Function, gs []windowGuard, gi int) (needed int64, reads int) {
	g := gs[gi]
	needed = -1 << 30
	for _, blk := range fn.Blocks {
		if !edgeDominates(g.iff.Block(), g.edge, blk) {
			continue
		}
		for _, ins := range blk.Instrs {
			ia, ok := ins.(*ssa.IndexAddr)
			if !ok || ia.X != g.slice {
				continue
			}
			ix, j := splitOffset(ia.Index)
			if ix != g.base {
				continue
			}
			reads++
			covered := false
			for gj, o := range gs {
				if gj == gi || o.iff == g.iff || o.slice != g.slice || o.base != g.base || o.k < j {
					continue
				}
				if edgeDominates(o.iff.Block(), o.edge, blk) {
					covered = true
				}
			}
			if !covered && j > needed {
				needed = j
			}
		}
	}
	return
}

// ruleWideGuardsEverywhere (C09-G): the exact-guard rule outside package util, with the refinement that a read which
// has its own guard does not justify the enclosing one.
func ruleWideGuardsEverywhere(w *World, r *Report) {
	r.Rule("C09-G", "In every package other than util (the parsers, readers, renderers and extensions): a window guard X+k < len(s) with k > 0 — typically a scanning loop bounded by len(s)-k — must be needed by some read it protects: among the reads s[X+j] it dominates that no other guard on the same X and s covers, the largest j equals k. A loop that stops k bytes before the end although its body only looks at s[X] (a lookahead s[X+1] inside carries its own guard) treats a construct that ends exactly at the end of the input differently from the same bytes followed by a newline: a reference definition whose '<…>' destination ends the document is no longer recognised. (Guards all of whose reads are covered by other guards are redundant, not wide, and are ignored.)")
	n := 0
	for _, fn := range w.Funcs {
		if w.PkgOf(fn) == modPath+"/util" || fn.Synthetic != "" {
			continue
		}
		gs := windowGuards(fn)
		for gi, g := range gs {
			if g.k <= 0 || g.reads == 0 {
				continue
			}
			if p, ok := g.base.(*ssa.Phi); ok && p.Comment == "rangeindex" {
				continue
			}
			needed, reads := neededOffset(fn, gs, gi)
			if reads == 0 || needed < -1<<20 {
				continue // redundant: every read it dominates is covered by another guard
			}
			n++
			key := fmt.Sprintf("%s: guard %s+%d < len(%s)", w.FnKey(fn), stableName(g.base), g.k, stableName(g.slice))
			if g.k > needed {
				r.Bad(key, w.InstrPos(g.iff), fmt.Sprintf("the guard requires offset +%d to be in range but the reads that depend on it go only up to +%d: at the very end of the input the construct is handled differently from the same bytes elsewhere", g.k, needed))
			} else {
				r.OK(key, w.InstrPos(g.iff), fmt.Sprintf("needed by a read at +%d", needed))
			}
		}
	}
	r.Expect("window guards with lookahead outside package util", n, 5)
}

func ruleWideGuards(w *World, r *Report) {
	r.Rule("C19-G", "Contradiction rule for the byte scanners of package util: a window guard X+k < len(s) (k > 0) whose guarded region reads s at offsets from X only up to +m with m < k demands bytes the code never looks at, so the same construct is treated differently when it stands at the very end of the input (a %XX triple, a character reference, an escape that ends the string is no longer recognised). Every such guard must be exact (k == m).")
	n := 0
	for _, fn := range w.Funcs {
		if w.PkgOf(fn) != modPath+"/util" || fn.Synthetic != "" {
			continue
		}
		for _, g := range windowGuards(fn) {
			if g.reads == 0 || g.k <= 0 {
				continue
			}
			if p, ok := g.base.(*ssa.Phi); ok && p.Comment == "rangeindex" {
				continue // compiler-made range loop
			}
			n++
			key := fmt.Sprintf("%s: guard %s+%d < len(%s)", w.FnKey(fn), stableName(g.base), g.k, stableName(g.slice))
			if g.k > g.maxOff {
				r.Bad(key, w.InstrPos(g.iff), fmt.Sprintf("the guard requires offset +%d to be in range but the guarded code reads only up to +%d: at the end of the input the construct is handled differently from the same bytes elsewhere", g.k, g.maxOff))
			} else {
				r.OK(key, w.InstrPos(g.iff), fmt.Sprintf("reads up to +%d", g.maxOff))
			}
		}
	}
	r.Expect("window guards with lookahead in package util", n, 3)
}

// ruleComputedSliceEnd (C01-S).
func ruleComputedSliceEnd(w *World, r *Report) {
	r.Rule("C01-S", "In functions reachable from Convert/Parse/Render outside the once-initialisers, and in the exported functions of package util: a slice expression s[lo:hi] whose high bound is the sum of two non-constant values (a window end computed from data, such as position + sequence length) is dominated by a comparison of that same value hi with another value (the length test that clamps or skips truncated input). Without it a truncated multi-byte sequence at the end of the input slices out of range.")
	cg := w.CG()
	reach := cg.Reach(w.Entries().All(), cg.OnceSkip())
	n := 0
	for _, fn := range w.Funcs {
		if fn.Synthetic != "" {
			continue
		}
		_, inReach := reach[fn]
		if !inReach && !(w.PkgOf(fn) == modPath+"/util" && isExportedFunc(fn)) {
			continue
		}
		for _, b := range fn.Blocks {
			for _, ins := range b.Instrs {
				sl, ok := ins.(*ssa.Slice)
				if !ok || sl.High == nil {
					continue
				}
				hb, ok := stripConv(sl.High).(*ssa.BinOp)
				if !ok || hb.Op != token.ADD {
					continue
				}
				if _, c := constInt(hb.Y); c {
					continue
				}
				if _, c := constInt(hb.X); c {
					continue
				}
				n++
				key := fmt.Sprintf("%s: %s[:%s]", w.FnKey(fn), stableName(sl.X), "computed end")
				guarded := false
				for _, cf := range dominatingConds(b) {
					if bo, ok := cf.If.Cond.(*ssa.BinOp); ok {
						if sameValue(stripConv(bo.X), stripConv(sl.High)) || sameValue(stripConv(bo.Y), stripConv(sl.High)) {
							guarded = true
						}
					}
				}
				if guarded {
					r.OK(key, w.InstrPos(ins), "the computed end is compared before it is used")
				} else {
					r.Bad(key, w.InstrPos(ins), "the slice end is computed from data (sum of two non-constant values) and never compared with anything before use: slice bounds out of range on truncated input")
				}
			}
		}
	}
	r.Expect("slices with a computed end", n, 1)
}

// stableName names a value without SSA register numbers (obligation keys must survive unrelated edits).
func stableName(v ssa.Value) string {
	switch x := v.(type) {
	case *ssa.Parameter:
		return x.Name()
	case *ssa.Phi:
		if x.Comment != "" {
			return x.Comment
		}
		return "phi"
	case *ssa.Const:
		return x.String()
	case *ssa.Call:
		if cal := x.Common().StaticCallee(); cal != nil {
			return cal.Name() + "(…)"
		}
		if x.Common().IsInvoke() {
			return x.Common().Method.Name() + "(…)"
		}
		return "call"
	case *ssa.UnOp:
		if fa, ok := x.X.(*ssa.FieldAddr); ok {
			_, f := fieldOfAddr(fa)
			return "." + f.Name()
		}
		return "load"
	case *ssa.Extract:
		return stableName(x.Tuple) + fmt.Sprintf("#%d", x.Index)
	}
	return "expr"
}

// opaquePredicateOn: some branch that dominates blk tests the result of a call that receives s (or a sub-slice of s):
// a helper predicate may have established the bound in a way the window rule cannot see.
func opaquePredicateOn(blk *ssa.BasicBlock, s ssa.Value) bool {
	for _, cf := range dominatingConds(blk) {
		for _, a := range condAtoms(cf.If.Cond, cf.Truth) {
			c, ok := a.V.(*ssa.Call)
			if !ok || builtinName(c.Common()) != "" {
				continue
			}
			for _, arg := range c.Common().Args {
				if arg == s {
					return true
				}
				if sl, ok := arg.(*ssa.Slice); ok && sl.X == s {
					return true
				}
			}
		}
	}
	return false
}
