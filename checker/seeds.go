package main

// seeds.go — the independently seeded changes kept under /verif/seeded/ (DESIGN.md section 8) double as
// self-validation mutants: each patch.diff is applied in memory (go/packages overlay) to /repo's current sources and
// the property's rules must report something. A patch whose context no longer matches the tree is recorded as skipped.

import (
	"encoding/json"
	"fmt"
	"os"
	"path/filepath"
	"sort"
	"strconv"
	"strings"
)

type seedMeta struct {
	Property string `json:"property"`
	Summary  string `json:"summary"`
	Caught   *bool  `json:"caught,omitempty"` // false: recorded as not caught by the static rules (DESIGN 8)
}

func loadSeedMutants(verifDir string) {
	dirs, _ := filepath.Glob(filepath.Join(verifDir, "seeded", "*"))
	sort.Strings(dirs)
	for _, d := range dirs {
		mb, err1 := os.ReadFile(filepath.Join(d, "meta.json"))
		pb, err2 := os.ReadFile(filepath.Join(d, "patch.diff"))
		if err1 != nil || err2 != nil {
			continue
		}
		var sm seedMeta
		if json.Unmarshal(mb, &sm) != nil || sm.Property == "" {
			continue
		}
		mutants = append(mutants, Mutant{Name: "seed-" + filepath.Base(d), Prop: sm.Property, Patch: string(pb), Seed: true,
			KnownMiss: sm.Caught != nil && !*sm.Caught})
	}
}

type hunk struct {
	oldStart int
	old, new []string
}

// applyUnifiedDiff applies a `git diff` to the files under repo and returns the changed files (overlay).
func applyUnifiedDiff(repo, patch string) (map[string][]byte, error) {
	ov := map[string][]byte{}
	lines := strings.Split(patch, "\n")
	i := 0
	for i < len(lines) {
		if !strings.HasPrefix(lines[i], "--- ") {
			i++
			continue
		}
		oldName := strings.TrimPrefix(lines[i], "--- ")
		if i+1 >= len(lines) || !strings.HasPrefix(lines[i+1], "+++ ") {
			return nil, fmt.Errorf("malformed patch near line %d", i+1)
		}
		newName := strings.TrimPrefix(lines[i+1], "+++ ")
		i += 2
		strip := func(n string) string {
			n = strings.TrimSpace(strings.SplitN(n, "\t", 2)[0])
			if n == "/dev/null" {
				return ""
			}
			if strings.HasPrefix(n, "a/") || strings.HasPrefix(n, "b/") {
				return n[2:]
			}
			return n
		}
		oldF, newF := strip(oldName), strip(newName)
		var hunks []hunk
		for i < len(lines) && strings.HasPrefix(lines[i], "@@") {
			h := hunk{}
			parts := strings.Fields(lines[i])
			if len(parts) < 3 {
				return nil, fmt.Errorf("malformed hunk header")
			}
			o := strings.TrimPrefix(parts[1], "-")
			h.oldStart, _ = strconv.Atoi(strings.SplitN(o, ",", 2)[0])
			i++
			for i < len(lines) && !strings.HasPrefix(lines[i], "@@") && !strings.HasPrefix(lines[i], "diff --git") && !strings.HasPrefix(lines[i], "--- ") {
				l := lines[i]
				switch {
				case strings.HasPrefix(l, "+"):
					h.new = append(h.new, l[1:])
				case strings.HasPrefix(l, "-"):
					h.old = append(h.old, l[1:])
				case strings.HasPrefix(l, " "):
					h.old = append(h.old, l[1:])
					h.new = append(h.new, l[1:])
				case strings.HasPrefix(l, "\\"):
					// "\ No newline at end of file"
				case l == "":
					// blank line at the very end of the patch text
					if i != len(lines)-1 {
						h.old = append(h.old, "")
						h.new = append(h.new, "")
					}
				}
				i++
			}
			hunks = append(hunks, h)
		}
		if newF == "" {
			return nil, fmt.Errorf("patch deletes %s: not supported as a mutant", oldF)
		}
		var src []string
		if oldF != "" {
			b, err := os.ReadFile(filepath.Join(repo, oldF))
			if err != nil {
				return nil, err
			}
			src = strings.Split(string(b), "\n")
		}
		var out []string
		pos := 0 // index into src
		for _, h := range hunks {
			at := -1
			try := func(start int) bool {
				if start < pos || start+len(h.old) > len(src) {
					return false
				}
				for k, l := range h.old {
					if src[start+k] != l {
						return false
					}
				}
				return true
			}
			if oldF == "" {
				at = 0
			} else if try(h.oldStart - 1) {
				at = h.oldStart - 1
			} else {
				for d := 1; d < 400 && at < 0; d++ {
					if try(h.oldStart - 1 - d) {
						at = h.oldStart - 1 - d
					} else if try(h.oldStart - 1 + d) {
						at = h.oldStart - 1 + d
					}
				}
			}
			if at < 0 {
				return nil, fmt.Errorf("hunk at line %d of %s does not match the current tree; seed skipped", h.oldStart, oldF)
			}
			out = append(out, src[pos:at]...)
			out = append(out, h.new...)
			pos = at + len(h.old)
		}
		out = append(out, src[pos:]...)
		ov[filepath.Join(repo, newF)] = []byte(strings.Join(out, "\n"))
	}
	if len(ov) == 0 {
		return nil, fmt.Errorf("empty patch")
	}
	return ov, nil
}

// seedTable evaluates every seeded change against every property's rules (one subprocess per seed, at most 6 in
// flight) and prints a markdown table: which rules of which properties report it.
func seedTable(exe, repo string) {
	type row struct {
		name, prop, summary string
		caught              map[string][]string // property -> rules
		err                 string
	}
	var seeds []*Mutant
	for i := range mutants {
		if mutants[i].Seed {
			seeds = append(seeds, &mutants[i])
		}
	}
	rows := make([]row, len(seeds))
	sem := make(chan struct{}, 6)
	done := make(chan int)
	for i, m := range seeds {
		go func(i int, m *Mutant) {
			sem <- struct{}{}
			defer func() { <-sem; done <- i }()
			r := row{name: strings.TrimPrefix(m.Name, "seed-"), prop: m.Prop, caught: map[string][]string{}}
			out, _ := execOutput(exe, "all", "--repo", repo, "--mutant", m.Name, "--json", "--no-evidence")
			n := 0
			for _, line := range strings.Split(out, "\n") {
				if !strings.HasPrefix(line, "OBLIGATIONS-JSON ") {
					continue
				}
				parts := strings.SplitN(line, " ", 3)
				var obls []Obligation
				if len(parts) != 3 || json.Unmarshal([]byte(parts[2]), &obls) != nil {
					continue
				}
				n++
				seen := map[string]bool{}
				for _, o := range obls {
					if o.Status != Discharged && !strings.HasPrefix(o.Construct, "instances(") && !seen[o.Rule] {
						seen[o.Rule] = true
						r.caught[parts[1]] = append(r.caught[parts[1]], o.Rule)
					}
				}
			}
			if n == 0 {
				r.err = firstLine(out)
			}
			rows[i] = r
		}(i, m)
	}
	for range seeds {
		<-done
	}
	fmt.Println("| seed | breaks | reported by |")
	fmt.Println("|---|---|---|")
	for _, r := range rows {
		var cs []string
		var props []string
		for p := range r.caught {
			props = append(props, p)
		}
		sort.Strings(props)
		for _, p := range props {
			sort.Strings(r.caught[p])
			cs = append(cs, p+": "+strings.Join(r.caught[p], ", "))
		}
		c := strings.Join(cs, "; ")
		if r.err != "" {
			c = "(not evaluated: " + r.err + ")"
		} else if c == "" {
			c = "**not caught**"
		}
		fmt.Printf("| %s | %s | %s |\n", r.name, r.prop, c)
	}
}
