package main

// rules_c02_entities.go — C02-H: the named character references. goldmark carries its own packed copy of the HTML5
// entity table (generated file); the Go standard library carries another (package html). The packed constants are
// read from the syntax tree, unpacked the way util.buildHTML5Entities unpacks them, and every name must decode to the
// same characters as html.UnescapeString("&name;").

import (
	"fmt"
	"go/ast"
	"go/constant"
	"go/token"
	"html"
	"strconv"
	"unicode"
)

func unicodeSimpleFold(r rune) rune { return unicode.SimpleFold(r) }

// pkgConstString: the value of a package-level string const/var initialised with a constant expression.
func (w *World) pkgConstString(pkg, name string) (string, bool) {
	p := w.Pkgs[modPath+"/"+pkg]
	if p == nil {
		return "", false
	}
	for _, f := range p.Syntax {
		for _, d := range f.Decls {
			gd, ok := d.(*ast.GenDecl)
			if !ok || (gd.Tok != token.CONST && gd.Tok != token.VAR) {
				continue
			}
			for _, sp := range gd.Specs {
				vs := sp.(*ast.ValueSpec)
				for i, n := range vs.Names {
					if n.Name != name || i >= len(vs.Values) {
						continue
					}
					if tv, ok := p.TypesInfo.Types[vs.Values[i]]; ok && tv.Value != nil && tv.Value.Kind() == constant.String {
						return constant.StringVal(tv.Value), true
					}
				}
			}
		}
	}
	return "", false
}

// pkgByteArrayLiteral: the elements of a package-level `[...]byte{…}` variable.
func (w *World) pkgByteArrayLiteral(pkg, name string) ([]byte, bool) {
	p := w.Pkgs[modPath+"/"+pkg]
	if p == nil {
		return nil, false
	}
	for _, f := range p.Syntax {
		for _, d := range f.Decls {
			gd, ok := d.(*ast.GenDecl)
			if !ok || gd.Tok != token.VAR {
				continue
			}
			for _, sp := range gd.Specs {
				vs := sp.(*ast.ValueSpec)
				for i, n := range vs.Names {
					if n.Name != name || i >= len(vs.Values) {
						continue
					}
					cl, ok := vs.Values[i].(*ast.CompositeLit)
					if !ok {
						return nil, false
					}
					out := make([]byte, 0, len(cl.Elts))
					for _, e := range cl.Elts {
						tv, ok := p.TypesInfo.Types[e]
						if !ok || tv.Value == nil {
							return nil, false
						}
						v, ok := constant.Int64Val(tv.Value)
						if !ok {
							return nil, false
						}
						out = append(out, byte(v))
					}
					return out, true
				}
			}
		}
	}
	return nil, false
}

func ruleEntityTable(w *World, r *Report) {
	r.Rule("C02-H", "Named character references: the packed entity table in package util (name string + per-entry name lengths, character bytes + per-entry lengths), read from the syntax tree and unpacked exactly as util.buildHTML5Entities does, gives for every name that the Go standard library's HTML5 table also decodes (html.UnescapeString(\"&name;\"); all but a handful) the same characters; the table has the declared number of entries and the packed data is consumed exactly. An entity that decodes to something else makes 'entity escapes mean what the specification says' false for that name.")
	names, ok1 := w.pkgConstString("util", "_html5entitiesName")
	nameIdx, ok2 := w.pkgConstString("util", "_html5entitiesNameIndex")
	chars, ok3 := w.pkgByteArrayLiteral("util", "_html5entitiesCharacters")
	charIdx, ok4 := w.pkgConstString("util", "_html5entitiesCharactersIndex")
	if !ok1 || !ok2 || !ok3 || !ok4 {
		// the table is not in the packed form this rule reads (regenerated in another layout): not decided, no alarm
		r.OK("util: packed HTML5 entity table", "", "the table is not in the packed constant form this rule reads; not decided")
		return
	}
	n := len(nameIdx)
	key := "util: packed HTML5 entity table"
	if len(charIdx) != n {
		r.Bad(key, "", fmt.Sprintf("the name index has %d entries, the character index %d", n, len(charIdx)))
		return
	}
	cn, cc, bad, unknown := 0, 0, 0, 0
	first := ""
	for i := 0; i < n; i++ {
		tn, tc := cn+int(nameIdx[i]), cc+int(charIdx[i])
		if tn > len(names) || tc > len(chars) {
			r.Bad(key, "", "the index arrays run past the packed data")
			return
		}
		name, val := names[cn:tn], string(chars[cc:tc])
		want := html.UnescapeString("&" + name + ";")
		if want == "&"+name+";" {
			unknown++ // the standard library does not decode this name (two of the two-code-point entities): no oracle
			cn, cc = tn, tc
			continue
		}
		if want != val {
			bad++
			if first == "" {
				first = fmt.Sprintf("&%s; decodes to %s here, %s in the standard table", name, strconv.QuoteToASCII(val), strconv.QuoteToASCII(want))
			}
		}
		cn, cc = tn, tc
	}
	if cn != len(names) || cc != len(chars) {
		r.Bad(key+": fully consumed", "", "the packed data is longer than the indexes describe")
	}
	if bad > 0 {
		r.Bad(key, "", fmt.Sprintf("%d of %d entities differ from the HTML5 table; first: %s", bad, n, first))
	} else {
		r.OK(key, "", fmt.Sprintf("%d entities: %d equal to the standard library's decoding, %d names the standard library does not decode (no oracle)", n, n-unknown, unknown))
		if unknown > n/100 {
			r.Unknown(key+": oracle coverage", "", fmt.Sprintf("the standard library decodes only %d of %d names", n-unknown, n))
		}
	}
	r.Expect("entities in the packed table", n, 1000)
}

// pkgIntArrayLiteral: the elements of a package-level `[...]T{…}` variable of integer constants.
func (w *World) pkgIntArrayLiteral(pkg, name string) ([]int64, bool) {
	p := w.Pkgs[modPath+"/"+pkg]
	if p == nil {
		return nil, false
	}
	for _, f := range p.Syntax {
		for _, d := range f.Decls {
			gd, ok := d.(*ast.GenDecl)
			if !ok || gd.Tok != token.VAR {
				continue
			}
			for _, sp := range gd.Specs {
				vs := sp.(*ast.ValueSpec)
				for i, n := range vs.Names {
					if n.Name != name || i >= len(vs.Values) {
						continue
					}
					cl, ok := vs.Values[i].(*ast.CompositeLit)
					if !ok {
						return nil, false
					}
					out := make([]int64, 0, len(cl.Elts))
					for _, e := range cl.Elts {
						tv, ok := p.TypesInfo.Types[e]
						if !ok || tv.Value == nil {
							return nil, false
						}
						v, ok := constant.Int64Val(tv.Value)
						if !ok {
							return nil, false
						}
						out = append(out, v)
					}
					return out, true
				}
			}
		}
	}
	return nil, false
}

// ruleCaseFoldingTable (C19-F): the packed Unicode case-folding table against the standard library's simple-folding
// orbits. Only single-rune foldings have an oracle (full foldings such as ß → ss are outside unicode.SimpleFold).
func ruleCaseFoldingTable(w *World, r *Report) {
	r.Rule("C19-F", "Label normalisation identifies labels that differ only in letter case: the packed case-folding table of package util (from-runes, to-runes, per-entry lengths), read from the syntax tree and unpacked as the package's init does, is checked against the standard library: every entry that folds one rune to one rune has its target inside the source's unicode.SimpleFold orbit whenever the standard library knows an orbit for the source; from-runes are distinct; ASCII upper-case letters fold to their lower-case letters; and no ASCII lower-case letter or digit is folded. (Multi-rune full foldings and runes newer than the standard library's Unicode tables have no oracle here.)")
	from, ok1 := w.pkgIntArrayLiteral("util", "_unicodeCaseFoldingFrom")
	to, ok2 := w.pkgIntArrayLiteral("util", "_unicodeCaseFoldingTo")
	idx, ok3 := w.pkgConstString("util", "_unicodeCaseFoldingToIndex")
	key := "util: packed case-folding table"
	if !ok1 || !ok2 || !ok3 {
		r.OK(key, "", "the table is not in the packed constant form this rule reads; not decided")
		return
	}
	if len(idx) != len(from) {
		r.Bad(key, "", fmt.Sprintf("%d from-runes but %d length entries", len(from), len(idx)))
		return
	}
	seen := map[int64]bool{}
	c, bad, checked := 0, 0, 0
	first := ""
	note := func(msg string) {
		bad++
		if first == "" {
			first = msg
		}
	}
	folded := map[int64][]int64{}
	for i, f := range from {
		t := c + int(idx[i])
		if t > len(to) {
			r.Bad(key, "", "the length entries run past the to-runes")
			return
		}
		dst := to[c:t]
		c = t
		if seen[f] {
			note(fmt.Sprintf("U+%04X appears twice as a source", f))
		}
		seen[f] = true
		folded[f] = dst
		if len(dst) != 1 {
			continue
		}
		// orbit of f in the standard library
		orbit := map[rune]bool{}
		for x := unicodeSimpleFold(rune(f)); x != rune(f); x = unicodeSimpleFold(x) {
			orbit[x] = true
		}
		if len(orbit) == 0 {
			continue // no oracle
		}
		checked++
		if !orbit[rune(dst[0])] {
			note(fmt.Sprintf("U+%04X folds to U+%04X, which is not in its simple-folding orbit", f, dst[0]))
		}
	}
	if c != len(to) {
		note("the to-runes are longer than the length entries describe")
	}
	for ch := int64('A'); ch <= 'Z'; ch++ {
		if d := folded[ch]; len(d) != 1 || d[0] != ch+32 {
			note(fmt.Sprintf("%q does not fold to %q", rune(ch), rune(ch+32)))
		}
	}
	for ch := int64('0'); ch <= 'z'; ch++ {
		if (ch >= 'a' && ch <= 'z') || (ch >= '0' && ch <= '9') {
			if _, has := folded[ch]; has {
				note(fmt.Sprintf("%q is folded", rune(ch)))
			}
		}
	}
	if bad > 0 {
		r.Bad(key, "", fmt.Sprintf("%d problem(s); first: %s", bad, first))
	} else {
		r.OK(key, "", fmt.Sprintf("%d entries, %d single-rune foldings checked against unicode.SimpleFold", len(from), checked))
	}
	r.Expect("entries of the case-folding table", len(from), 500)
}
