package main

// rules_ctxkeys.go — C09-K: per-block parsing state kept in the parse context is (re)initialised when a block opens.

import (
	"fmt"
	"go/token"
	"go/types"
	"sort"

	"golang.org/x/tools/go/ssa"
)

// ctxKeyOf: the package-level ContextKey variable a Get/Set call is keyed by.
func ctxKeyOf(c ssa.CallInstruction) (*ssa.Global, string) {
	com := c.Common()
	if !com.IsInvoke() || len(com.Args) == 0 {
		return nil, ""
	}
	name := com.Method.Name()
	if name != "Get" && name != "Set" && name != "ComputeIfAbsent" {
		return nil, ""
	}
	if typeShort(com.Value.Type()) != "parser.Context" {
		return nil, ""
	}
	ld, ok := com.Args[0].(*ssa.UnOp)
	if !ok || ld.Op != token.MUL {
		return nil, ""
	}
	g, ok := ld.X.(*ssa.Global)
	if !ok {
		return nil, ""
	}
	return g, name
}

func ruleBlockStateInitialised(w *World, r *Report) {
	r.Rule("C09-K", "Per-block parsing state lives in the parse context under package-level keys and outlives the block that wrote it. For every BlockParser type of the module and every per-block context key (a key that some block parser method resets to nil; document-level accumulators such as the footnote list are cleared only at the end of the document and are meant to persist) that its own Continue or Close reads (pc.Get(K)): its Open stores that key (pc.Set(K, …), any value, nil included) on every path that returns a node — the Set call dominates every return of a non-nil node. Otherwise what an earlier block of the same kind left behind (an 'empty item followed by blank lines' flag, fence data, a remembered paragraph) is read by the next block: a closed block then influences how a later, unrelated block is parsed.")
	it := w.Iface("parser", "BlockParser")
	n := 0
	// per-block keys: keys that some block parser method resets to nil (document-level accumulators such as the footnote
	// list are created on first use and cleared only by an AST transformer at the end of the document; they are meant
	// to persist across blocks)
	perBlock := map[*ssa.Global]bool{}
	for _, t := range w.Implementers(it) {
		for _, mn := range []string{"Open", "Continue", "Close"} {
			m := w.MethodOf(t, mn)
			if m == nil || !w.InModule(m) {
				continue
			}
			for _, b := range m.Blocks {
				for _, ins := range b.Instrs {
					if c, ok := ins.(ssa.CallInstruction); ok {
						if g, op := ctxKeyOf(c); g != nil && op == "Set" && isNilConst(stripMakeIface(c.Common().Args[1])) {
							perBlock[g] = true
						}
					}
				}
			}
		}
	}
	for _, t := range w.Implementers(it) {
		open := w.MethodOf(t, "Open")
		if open == nil || !w.InModule(open) {
			continue
		}
		reads := map[*ssa.Global]string{}
		for _, mn := range []string{"Continue", "Close"} {
			m := w.MethodOf(t, mn)
			if m == nil {
				continue
			}
			for _, b := range m.Blocks {
				for _, ins := range b.Instrs {
					if c, ok := ins.(ssa.CallInstruction); ok {
						if g, op := ctxKeyOf(c); g != nil && op == "Get" && perBlock[g] {
							reads[g] = mn
						}
					}
				}
			}
		}
		var keys []*ssa.Global
		for g := range reads {
			keys = append(keys, g)
		}
		sort.Slice(keys, func(i, j int) bool { return keys[i].Name() < keys[j].Name() })
		for _, g := range keys {
			n++
			key := fmt.Sprintf("%s: Open initialises %s (read by %s)", typeShort(t), g.Name(), reads[g])
			var sets []ssa.Instruction
			for _, b := range open.Blocks {
				for _, ins := range b.Instrs {
					if c, ok := ins.(ssa.CallInstruction); ok {
						if g2, op := ctxKeyOf(c); g2 == g && op == "Set" {
							sets = append(sets, ins)
						}
					}
				}
			}
			bad := ""
			nRet := 0
			for _, b := range open.Blocks {
				ret, ok := b.Instrs[len(b.Instrs)-1].(*ssa.Return)
				if !ok || len(ret.Results) == 0 {
					continue
				}
				allNil := true
				for _, leaf := range phiLeaves(ret.Results[0]) {
					if !isNilConst(leaf) {
						allNil = false
					}
				}
				if allNil {
					continue
				}
				nRet++
				dom := false
				for _, s := range sets {
					if s.Block() == b || s.Block().Dominates(b) {
						dom = true
					}
				}
				if !dom {
					bad = w.InstrPos(ret)
				}
			}
			switch {
			case nRet == 0:
				r.Unknown(key, w.FnPos(open), "Open never returns a node")
			case bad != "":
				r.Bad(key, bad, fmt.Sprintf("Open can return a node without having stored %s: the value left by an earlier block is read by this block's %s", g.Name(), reads[g]))
			default:
				r.OK(key, w.FnPos(open), fmt.Sprintf("%d node-returning path(s), each dominated by a Set of the key", nRet))
			}
		}
	}
	r.Expect("(block parser, context key) pairs read in Continue/Close", n, 2)
}

// ---- C09-E: the end of the input closes every block that is still open -------------------------------------------

func ruleEndOfInputClosesAll(w *World, r *Report) {
	r.Rule("C09-E", "The block-phase driver (the function that calls BlockParser.Continue for the opened blocks and hands ranges of them to the closing helper) may return from inside the per-line loop over the opened blocks only after closing all of them: every return that lies in a loop in which the list of opened blocks is consulted is preceded in its block by a call of the closing helper whose lower index is the constant 0. Closing only from the current nesting level down leaves the enclosing blocks without their Close call (a list's tightness pass, a paragraph's transformers), so how a block renders depends on whether anything follows it.")
	bp := w.Iface("parser", "BlockParser")
	if bp == nil {
		r.Unknown("parser.BlockParser", "", "not found")
		return
	}
	invokes := func(fn *ssa.Function, method string) bool {
		for _, b := range fn.Blocks {
			for _, ins := range b.Instrs {
				if c, ok := ins.(ssa.CallInstruction); ok && c.Common().IsInvoke() && c.Common().Method.Name() == method {
					if it, ok := c.Common().Value.Type().Underlying().(*types.Interface); ok && types.Identical(it, bp) {
						return true
					}
				}
			}
		}
		return false
	}
	// (directly, or through a function of the same package it calls: the loop body extracted into a helper)
	invokesDeep := func(fn *ssa.Function, method string) bool {
		if invokes(fn, method) {
			return true
		}
		for _, b := range fn.Blocks {
			for _, ins := range b.Instrs {
				if c, ok := ins.(ssa.CallInstruction); ok {
					if cal := c.Common().StaticCallee(); cal != nil && cal.Pkg == fn.Pkg && cal != fn && cal.Blocks != nil && invokes(cal, method) {
						return true
					}
				}
			}
		}
		return false
	}
	// the closing helper: invokes BlockParser.Close, has two int parameters
	var closers []*ssa.Function
	for _, fn := range w.Funcs {
		if w.PkgOf(fn) != modPath+"/parser" || !invokesDeep(fn, "Close") {
			continue
		}
		ints := 0
		for _, p := range fn.Params {
			if isInteger(p.Type()) {
				ints++
			}
		}
		if ints >= 2 {
			closers = append(closers, fn)
		}
	}
	if len(closers) != 1 {
		r.Unknown("closing helper of the block phase", "", fmt.Sprintf("expected one function that invokes BlockParser.Close over an index range, found %d", len(closers)))
		return
	}
	closer := closers[0]
	n := 0
	for _, fn := range w.Funcs {
		if w.PkgOf(fn) != modPath+"/parser" || !invokes(fn, "Continue") {
			continue
		}
		callsCloser := false
		for _, b := range fn.Blocks {
			for _, ins := range b.Instrs {
				if c, ok := ins.(ssa.CallInstruction); ok && c.Common().StaticCallee() == closer {
					callsCloser = true
				}
			}
		}
		if !callsCloser {
			continue
		}
		loops, _ := naturalLoops(fn)
		// loops in which the opened-block list is consulted
		var listLoops []*natLoop
		for _, l := range loops {
			for b := range l.body {
				for _, ins := range b.Instrs {
					if c, ok := ins.(ssa.CallInstruction); ok && c.Common().IsInvoke() && c.Common().Method.Name() == "OpenedBlocks" {
						listLoops = append(listLoops, l)
					}
				}
			}
		}
		// the innermost such loop(s): returns inside them are "returns while blocks may be open"
		for _, b := range fn.Blocks {
			ret, ok := b.Instrs[len(b.Instrs)-1].(*ssa.Return)
			if !ok {
				continue
			}
			// inside a loop that loads the list AND dominated by the list load of that loop
			inside := false
			for _, l := range listLoops {
				// (a block that returns is never part of the natural loop — it cannot reach the back edge — so "inside" is
				// decided by dominance: the return is reached only through a loop block that consults the list)
				for lb := range l.body {
					for _, ins := range lb.Instrs {
						if c, ok := ins.(ssa.CallInstruction); ok && c.Common().IsInvoke() && c.Common().Method.Name() == "OpenedBlocks" && lb.Dominates(b) {
							inside = true
						}
					}
				}
			}
			// the per-line loop extracted into its own function: the list is fetched before the loop; a return is
			// "inside" when the fetch dominates it and it leaves some loop from a block other than the loop header
			if !inside {
				fetched := false
				for _, lb := range fn.Blocks {
					for _, ins := range lb.Instrs {
						if c, ok := ins.(ssa.CallInstruction); ok && c.Common().IsInvoke() && c.Common().Method.Name() == "OpenedBlocks" && lb.Dominates(b) {
							fetched = true
						}
					}
				}
				for _, prm := range fn.Params {
					if sl, ok := prm.Type().Underlying().(*types.Slice); ok && typeShort(sl.Elem()) == "parser.Block" {
						fetched = true // the list of opened blocks is handed in
					}
				}
				if fetched {
					// the end-of-input exits: returns dominated by "the peeked line is nil"
					for _, cf := range dominatingConds(b) {
						for _, a := range condAtoms(cf.If.Cond, cf.Truth) {
							if x, isNil, isT := nilTest(a.V); isT && isNil == a.Truth && peekedLine(x) {
								inside = true
							}
						}
					}
				}
			}
			if !inside {
				continue
			}
			n++
			key := fmt.Sprintf("%s: return #%d inside the opened-blocks loop", w.FnKey(fn), n)
			okAll := false
			for _, ins := range b.Instrs {
				if c, ok := ins.(ssa.CallInstruction); ok && c.Common().StaticCallee() == closer {
					args := c.Common().Args
					// the int arguments, in order: (from, to)
					var ints []ssa.Value
					for _, a := range args {
						if isInteger(a.Type()) {
							ints = append(ints, a)
						}
					}
					if len(ints) >= 2 {
						if z, isC := constInt(ints[1]); isC && z == 0 {
							okAll = true
						}
					}
				}
			}
			if okAll {
				r.OK(key, w.InstrPos(ret), "preceded by the closing helper with lower index 0")
			} else {
				r.Bad(key, w.InstrPos(ret), "the driver returns while blocks may be open without closing all of them (no call of the closing helper with lower index 0 in front of the return): the outer blocks never get their Close call when the input ends here")
			}
		}
	}
	r.Expect("returns inside the opened-blocks loop of the block-phase driver", n, 1)
}

// ---- C16-R ---------------------------------------------------------------------------------------------

// ruleDocumentStateCleared: what a document's parse accumulated in the context is gone when the AST transformer
// that consumes it returns, whatever path it took.
func ruleDocumentStateCleared(w *World, r *Report) {
	r.Rule("C16-R", "Document-level accumulators (context keys that a parser method of the module sets to a non-nil value and that an AST transformer of the same package reads) are cleared by that transformer on every path: at every return of Transform each such key has been Set to nil, or was just seen to hold nil. A parse context may be reused for the next document (parser.WithContext); a list that survives is counted again — reference counts, ref indexes and back-links then include another document's references.")
	at := w.Iface("parser", "ASTTransformer")
	// accumulators: keys Set to non-nil in some non-transformer function, per package
	accum := map[*ssa.Global]bool{}
	for _, fn := range w.Funcs {
		for _, b := range fn.Blocks {
			for _, ins := range b.Instrs {
				if c, ok := ins.(ssa.CallInstruction); ok {
					if g, op := ctxKeyOf(c); g != nil && op == "Set" && !isNilConst(stripMakeIface(c.Common().Args[1])) {
						accum[g] = true
					}
				}
			}
		}
	}
	n := 0
	for _, t := range w.Implementers(at) {
		tr := w.MethodOf(t, "Transform")
		if tr == nil || !w.InModule(tr) {
			continue
		}
		// keys this transformer reads
		keys := map[*ssa.Global]bool{}
		for _, b := range tr.Blocks {
			for _, ins := range b.Instrs {
				if c, ok := ins.(ssa.CallInstruction); ok {
					if g, op := ctxKeyOf(c); g != nil && accum[g] && g.Pkg == tr.Pkg && (op == "Get" || op == "Set") {
						keys[g] = true
					}
				}
			}
		}
		var ks []*ssa.Global
		for g := range keys {
			ks = append(ks, g)
		}
		sort.Slice(ks, func(i, j int) bool { return ks[i].Name() < ks[j].Name() })
		for _, g := range ks {
			n++
			key := fmt.Sprintf("%s.Transform clears %s", typeShort(t), g.Name())
			// forward must-analysis: clean[b] at block entry
			getOf := func(v ssa.Value) bool { // v is the result of pc.Get(g)
				for _, leaf := range phiLeaves(throughCell(v)) {
					c, ok := throughCell(leaf).(*ssa.Call)
					if !ok {
						return false
					}
					if g2, op := ctxKeyOf(c); g2 != g || op != "Get" {
						return false
					}
				}
				return true
			}
			in := map[*ssa.BasicBlock]bool{}
			for _, b := range tr.Blocks {
				in[b] = true // optimistic start for a must-analysis
			}
			in[tr.Blocks[0]] = false
			out := func(b *ssa.BasicBlock, succ int) bool {
				st := in[b]
				for _, ins := range b.Instrs {
					if c, ok := ins.(ssa.CallInstruction); ok {
						if g2, op := ctxKeyOf(c); g2 == g && op == "Set" {
							st = isNilConst(stripMakeIface(c.Common().Args[1]))
						} else if g2 == nil && !c.Common().IsInvoke() {
							if cal := c.Common().StaticCallee(); cal != nil && w.InModule(cal) && w.mayStoreKey(cal, g, map[*ssa.Function]bool{}) {
								st = false
							}
						}
					}
				}
				if iff, ok := b.Instrs[len(b.Instrs)-1].(*ssa.If); ok && len(b.Succs) == 2 {
					if x, isNil, isT := nilTest(iff.Cond); isT && getOf(x) {
						if (succ == 0) == isNil {
							st = true
						}
					}
				}
				return st
			}
			for changed := true; changed; {
				changed = false
				for _, b := range tr.Blocks {
					if b == tr.Blocks[0] || len(b.Preds) == 0 {
						continue
					}
					v := true
					for _, p := range b.Preds {
						for si, s := range p.Succs {
							if s == b && !out(p, si) {
								v = false
							}
						}
					}
					if v != in[b] {
						in[b] = v
						changed = true
					}
				}
			}
			bad := ""
			nRet := 0
			for _, b := range tr.Blocks {
				if ret, ok := b.Instrs[len(b.Instrs)-1].(*ssa.Return); ok {
					nRet++
					if !out(b, -1) {
						bad = w.InstrPos(ret)
					}
				}
			}
			if bad != "" {
				r.Bad(key, bad, fmt.Sprintf("Transform can return with %s neither set to nil nor seen to be nil: with a reused parse context the next document starts with this document's entries", g.Name()))
			} else {
				r.OK(key, w.FnPos(tr), fmt.Sprintf("%d return(s), each reached only after the key was cleared or found nil", nRet))
			}
		}
	}
	r.Expect("(AST transformer, accumulator key) pairs", n, 1)
}

// mayStoreKey: fn (or a module function it calls statically) sets key g.
func (w *World) mayStoreKey(fn *ssa.Function, g *ssa.Global, seen map[*ssa.Function]bool) bool {
	if seen[fn] || fn.Blocks == nil {
		return false
	}
	seen[fn] = true
	for _, b := range fn.Blocks {
		for _, ins := range b.Instrs {
			if c, ok := ins.(ssa.CallInstruction); ok {
				if g2, op := ctxKeyOf(c); g2 == g && op == "Set" {
					return true
				}
				if cal := c.Common().StaticCallee(); cal != nil && w.InModule(cal) && w.mayStoreKey(cal, g, seen) {
					return true
				}
			}
		}
	}
	return false
}

// ---- C09-W (also C01) ----------------------------------------------------------------------------------------

// ruleBlockStateOwner: per-block state that records which node it belongs to is cleared only by that node's Close.
func ruleBlockStateOwner(w *World, r *Report) {
	r.Rule("C09-W", "When a block parser's Open stores, under a per-block context key, a record that contains the node it returns (the record names its owner), a second block of the same kind may open — and overwrite the record — before the first one is closed (an unclosed fence inside a block quote, followed by a line that leaves the quote and opens a new fence). In that parser's Close(node) every reset of the key (Set(K, nil)) is therefore dominated by an equality test between the node recorded in the value read back (pc.Get(K)) and Close's own node parameter. An unconditional reset wipes the newer block's record, and its Continue then asserts on nil (a panic) or reads another block's state.")
	it := w.Iface("parser", "BlockParser")
	n := 0
	for _, t := range w.Implementers(it) {
		open, cl := w.MethodOf(t, "Open"), w.MethodOf(t, "Close")
		if open == nil || cl == nil || !w.InModule(open) || !w.InModule(cl) || len(cl.Params) < 2 {
			continue
		}
		// keys whose stored record contains a node returned by Open
		owned := map[*ssa.Global]bool{}
		returned := map[ssa.Value]bool{}
		for _, b := range open.Blocks {
			if ret, ok := b.Instrs[len(b.Instrs)-1].(*ssa.Return); ok && len(ret.Results) > 0 {
				for _, leaf := range phiLeaves(ret.Results[0]) {
					if !isNilConst(leaf) {
						returned[leaf] = true
						returned[stripMakeIface(leaf)] = true
					}
				}
			}
		}
		for _, b := range open.Blocks {
			for _, ins := range b.Instrs {
				c, ok := ins.(ssa.CallInstruction)
				if !ok {
					continue
				}
				g, op := ctxKeyOf(c)
				if g == nil || op != "Set" {
					continue
				}
				al, ok := stripMakeIface(c.Common().Args[1]).(*ssa.Alloc)
				if !ok {
					continue
				}
				for _, ref := range referrersOf(al) {
					fa, ok := ref.(*ssa.FieldAddr)
					if !ok {
						continue
					}
					for _, r2 := range referrersOf(fa) {
						if st, ok := r2.(*ssa.Store); ok && (returned[st.Val] || returned[stripMakeIface(st.Val)]) {
							owned[g] = true
						}
					}
				}
			}
		}
		nodeP := cl.Params[1]
		for g := range owned {
			for _, b := range cl.Blocks {
				for _, ins := range b.Instrs {
					c, ok := ins.(ssa.CallInstruction)
					if !ok {
						continue
					}
					if g2, op := ctxKeyOf(c); g2 != g || op != "Set" || !isNilConst(stripMakeIface(c.Common().Args[1])) {
						continue
					}
					n++
					key := fmt.Sprintf("%s.Close resets %s only for its own node", typeShort(t), g.Name())
					ok2 := false
					for _, cf := range dominatingConds(b) {
						bo, isB := cf.If.Cond.(*ssa.BinOp)
						if !isB || !((bo.Op == token.EQL && cf.Truth) || (bo.Op == token.NEQ && !cf.Truth)) {
							continue
						}
						for _, pr := range [][2]ssa.Value{{bo.X, bo.Y}, {bo.Y, bo.X}} {
							if stripMakeIface(pr[0]) != ssa.Value(nodeP) {
								continue
							}
							fromGet := false
							operandsClosure(pr[1], func(v ssa.Value) bool {
								if cc, isC := v.(*ssa.Call); isC {
									if g3, op3 := ctxKeyOf(cc); g3 == g && op3 == "Get" {
										fromGet = true
									}
								}
								return !fromGet
							})
							if fromGet {
								ok2 = true
							}
						}
					}
					if ok2 {
						r.OK(key, w.InstrPos(ins), "the reset is dominated by `recorded node == node`")
					} else {
						r.Bad(key, w.InstrPos(ins), "the record is cleared without checking that it belongs to the block being closed: a block of the same kind opened in the meantime loses its state")
					}
				}
			}
		}
	}
	r.Expect("resets of owner-recording per-block state", n, 1)
}
