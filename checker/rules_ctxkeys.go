package main

// rules_ctxkeys.go — C09-K: per-block parsing state kept in the parse context is (re)initialised when a block opens.

import (
	"fmt"
	"go/token"
	"sort"

	"golang.org/x/tools/go/ssa"
)

// ctxKeyOf: the package-level ContextKey variable a Get/Set call is keyed by.
func ctxKeyOf(c ssa.CallInstruction) (*ssa.Global, string) {
	com := c.Common()
	if !com.IsInvoke() || len(com.Args) == 0 {
		return nil, ""
	}
	name := com.Method.Name()
	if name != "Get" && name != "Set" && name != "ComputeIfAbsent" {
		return nil, ""
	}
	if typeShort(com.Value.Type()) != "parser.Context" {
		return nil, ""
	}
	ld, ok := com.Args[0].(*ssa.UnOp)
	if !ok || ld.Op != token.MUL {
		return nil, ""
	}
	g, ok := ld.X.(*ssa.Global)
	if !ok {
		return nil, ""
	}
	return g, name
}

func ruleBlockStateInitialised(w *World, r *Report) {
	r.Rule("C09-K", "Per-block parsing state lives in the parse context under package-level keys and outlives the block that wrote it. For every BlockParser type of the module and every per-block context key (a key that some block parser method resets to nil; document-level accumulators such as the footnote list are cleared only at the end of the document and are meant to persist) that its own Continue or Close reads (pc.Get(K)): its Open stores that key (pc.Set(K, …), any value, nil included) on every path that returns a node — the Set call dominates every return of a non-nil node. Otherwise what an earlier block of the same kind left behind (an 'empty item followed by blank lines' flag, fence data, a remembered paragraph) is read by the next block: a closed block then influences how a later, unrelated block is parsed.")
	it := w.Iface("parser", "BlockParser")
	n := 0
	// per-block keys: keys that some block parser method resets to nil (document-level accumulators such as the footnote
	// list are created on first use and cleared only by an AST transformer at the end of the document; they are meant
	// to persist across blocks)
	perBlock := map[*ssa.Global]bool{}
	for _, t := range w.Implementers(it) {
		for _, mn := range []string{"Open", "Continue", "Close"} {
			m := w.MethodOf(t, mn)
			if m == nil || !w.InModule(m) {
				continue
			}
			for _, b := range m.Blocks {
				for _, ins := range b.Instrs {
					if c, ok := ins.(ssa.CallInstruction); ok {
						if g, op := ctxKeyOf(c); g != nil && op == "Set" && isNilConst(stripMakeIface(c.Common().Args[1])) {
							perBlock[g] = true
						}
					}
				}
			}
		}
	}
	for _, t := range w.Implementers(it) {
		open := w.MethodOf(t, "Open")
		if open == nil || !w.InModule(open) {
			continue
		}
		reads := map[*ssa.Global]string{}
		for _, mn := range []string{"Continue", "Close"} {
			m := w.MethodOf(t, mn)
			if m == nil {
				continue
			}
			for _, b := range m.Blocks {
				for _, ins := range b.Instrs {
					if c, ok := ins.(ssa.CallInstruction); ok {
						if g, op := ctxKeyOf(c); g != nil && op == "Get" && perBlock[g] {
							reads[g] = mn
						}
					}
				}
			}
		}
		var keys []*ssa.Global
		for g := range reads {
			keys = append(keys, g)
		}
		sort.Slice(keys, func(i, j int) bool { return keys[i].Name() < keys[j].Name() })
		for _, g := range keys {
			n++
			key := fmt.Sprintf("%s: Open initialises %s (read by %s)", typeShort(t), g.Name(), reads[g])
			var sets []ssa.Instruction
			for _, b := range open.Blocks {
				for _, ins := range b.Instrs {
					if c, ok := ins.(ssa.CallInstruction); ok {
						if g2, op := ctxKeyOf(c); g2 == g && op == "Set" {
							sets = append(sets, ins)
						}
					}
				}
			}
			bad := ""
			nRet := 0
			for _, b := range open.Blocks {
				ret, ok := b.Instrs[len(b.Instrs)-1].(*ssa.Return)
				if !ok || len(ret.Results) == 0 {
					continue
				}
				allNil := true
				for _, leaf := range phiLeaves(ret.Results[0]) {
					if !isNilConst(leaf) {
						allNil = false
					}
				}
				if allNil {
					continue
				}
				nRet++
				dom := false
				for _, s := range sets {
					if s.Block() == b || s.Block().Dominates(b) {
						dom = true
					}
				}
				if !dom {
					bad = w.InstrPos(ret)
				}
			}
			switch {
			case nRet == 0:
				r.Unknown(key, w.FnPos(open), "Open never returns a node")
			case bad != "":
				r.Bad(key, bad, fmt.Sprintf("Open can return a node without having stored %s: the value left by an earlier block is read by this block's %s", g.Name(), reads[g]))
			default:
				r.OK(key, w.FnPos(open), fmt.Sprintf("%d node-returning path(s), each dominated by a Set of the key", nRet))
			}
		}
	}
	r.Expect("(block parser, context key) pairs read in Continue/Close", n, 2)
}
