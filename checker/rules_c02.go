package main

// rules_c02.go — C02: CommonMark conformance. Only data-level necessary conditions are decided:
//
//	C02-N the decoders of numeric character references (there are two siblings: util.ResolveNumericReferences,
//	      used for link destinations, and html's resolving writer, used for text) parse the digit run with a
//	      constant base 10 / 16 — never base 0 (auto-detection re-reads a leading 0 as octal) — under the same
//	      length limits (at most 7 decimal / 6 hexadecimal digits), and agree with each other
//	C02-P the backslash-escapable set (util.IsPunct) is exactly the ASCII punctuation characters

import (
	"fmt"
	"go/token"
	"go/types"
	"sort"
	"strings"

	"golang.org/x/tools/go/ssa"
)

func init() {
	register(&Property{
		ID:      "C02",
		Level:   "other",
		Explain: "Conformance is a relation between document structure and the specification's output values; block structure, list arithmetic, emphasis, link resolution are computed from the input and are NOT decided — no clause of them is visible in the shape of the code, and the specification text is not available offline. Decided are two data-level necessary conditions of 'backslash or entity escapes mean what the specification says', evaluated from the source: (N) every decoder of numeric character references parses the digit run with the constant base 10 (decimal) or 16 (hexadecimal) — base 0 would re-interpret '&#0035;' as octal — and only for runs of at most 7 decimal / 6 hexadecimal digits, and the sibling decoders (the util resolver used for link destinations and the HTML writer used for text) agree on base and limits; (P) the set of backslash-escapable bytes, evaluated for all 256 values from util.IsPunct and its table, is exactly ASCII punctuation. Everything else in the statement is left undecided.",
		Trusted: []string{"the two constants of the specification used here: numeric references have 1–7 decimal or 1–6 hexadecimal digits; any ASCII punctuation may be backslash-escaped"},
		Assumes: []string{"built-in parsers and renderers only"},
		Rules:   []func(*World, *Report){ruleNumericReferenceDecoders, rulePunctuationSet, ruleLabelNormalisation, ruleColumnsFromLineOffset, ruleBlockStateInitialised, ruleTitleDelimiters, ruleEntityTable, ruleCaseFoldingTable, ruleWideGuards, ruleBlankFlagCarriedOver, ruleHTMLBlockEndCaseInsensitive, ruleFoldingLooksEveryRuneUp, ruleWideGuardsEverywhere, ruleBackwardWindowsExact, ruleRawTextNotDecoded, ruleLowerCaseTables, ruleNoByteSkipped},
	})
}

func ruleNumericReferenceDecoders(w *World, r *Report) {
	r.Rule("C02-N", "Every call of strconv.ParseUint/ParseInt in the library whose input is a digit run scanned from the source (its argument derives from a sub-slice of a []byte parameter) has a constant base of 10 or 16, and is dominated by a length test 'end - start < K' with K = 8 for base 10 and K = 7 for base 16. All functions containing such decoders agree on the (base, K) pairs.")
	type dec struct {
		fn   *ssa.Function
		call *ssa.Call
		base int64
		k    int64
	}
	var decs []dec
	for _, fn := range w.Funcs {
		for _, b := range fn.Blocks {
			for _, ins := range b.Instrs {
				c, ok := ins.(*ssa.Call)
				if !ok {
					continue
				}
				cal := c.Common().StaticCallee()
				if cal == nil || (cal.String() != "strconv.ParseUint" && cal.String() != "strconv.ParseInt") {
					continue
				}
				// input derives from a slice of a []byte
				var sl *ssa.Slice
				operandsClosure(c.Common().Args[0], func(v ssa.Value) bool {
					if s, ok := v.(*ssa.Slice); ok && isByteSlice(s.X.Type()) && sl == nil {
						sl = s
					}
					return true
				})
				if sl == nil || sl.Low == nil || sl.High == nil {
					continue
				}
				d := dec{fn: fn, call: c, base: -1, k: -1}
				baseParam, kParam := -1, -1
				kAdj := int64(0)
				var basePhi, kPhi *ssa.Phi // base and limit selected together (one variable each, set in the same arms)
				if bv, ok := constInt(c.Common().Args[1]); ok {
					d.base = bv
				} else if p, ok := stripConv(c.Common().Args[1]).(*ssa.Parameter); ok {
					baseParam = paramIndex(fn, p)
				} else if ph, ok := stripConv(c.Common().Args[1]).(*ssa.Phi); ok {
					basePhi = ph
				}
				for _, cf := range dominatingConds(b) {
					for _, a := range condAtoms(cf.If.Cond, cf.Truth) {
						bo, ok := a.V.(*ssa.BinOp)
						if !ok {
							continue
						}
						// length < K, in either spelling: (len < K) true, or (len >= K) false; or length <= K-1:
						// (len <= K') true, (len > K') false, with K = K'+1
						adj := int64(0)
						switch {
						case (bo.Op == token.LSS && a.Truth) || (bo.Op == token.GEQ && !a.Truth):
						case (bo.Op == token.LEQ && a.Truth) || (bo.Op == token.GTR && !a.Truth):
							adj = 1
						default:
							continue
						}
						sub, ok := stripConv(bo.X).(*ssa.BinOp)
						if !ok || sub.Op != token.SUB {
							continue
						}
						if sameValueLoose(sub.X, sl.High) && sameValueLoose(sub.Y, sl.Low) {
							if k, ok := constInt(bo.Y); ok {
								d.k = k + adj
							} else if p, ok := stripConv(bo.Y).(*ssa.Parameter); ok {
								kParam = paramIndex(fn, p)
								kAdj = adj
							} else if ph, ok := stripConv(bo.Y).(*ssa.Phi); ok {
								kPhi = ph
								kAdj = adj
							}
						}
					}
				}
				if basePhi != nil && kPhi != nil && basePhi.Block() == kPhi.Block() {
					// one decoder instance per arm that sets the pair
					seenPair := map[[2]int64]bool{}
					allConst := true
					for e := range basePhi.Edges {
						bv, ok1 := constInt(basePhi.Edges[e])
						kv, ok2 := constInt(kPhi.Edges[e])
						if !ok1 || !ok2 {
							allConst = false
							break
						}
						if !seenPair[[2]int64{bv, kv}] {
							seenPair[[2]int64{bv, kv}] = true
							decs = append(decs, dec{fn: fn, call: c, base: bv, k: kv + kAdj})
						}
					}
					if allConst {
						continue
					}
					for len(decs) > 0 && decs[len(decs)-1].call == c {
						decs = decs[:len(decs)-1]
					}
				}
				if baseParam < 0 && kParam < 0 {
					decs = append(decs, d)
					continue
				}
				// a shared digit-run reader: base and/or limit are parameters; one decoder instance per call site, judged
				// with the constants passed there and attributed to the calling function
				for _, caller := range w.Funcs {
					for _, cb := range caller.Blocks {
						for _, ci := range cb.Instrs {
							cc, ok := ci.(*ssa.Call)
							if !ok || cc.Common().StaticCallee() != fn {
								continue
							}
							di := dec{fn: caller, call: cc, base: d.base, k: d.k}
							args := cc.Common().Args
							if baseParam >= 0 && baseParam < len(args) {
								di.base = -1
								if bv, ok := constInt(args[baseParam]); ok {
									di.base = bv
								}
							}
							if kParam >= 0 && kParam < len(args) {
								di.k = -1
								if kv, ok := constInt(args[kParam]); ok {
									di.k = kv + kAdj
								}
							}
							decs = append(decs, di)
						}
					}
				}
			}
		}
	}
	sort.Slice(decs, func(i, j int) bool {
		if decs[i].fn != decs[j].fn {
			return decs[i].fn.String() < decs[j].fn.String()
		}
		return decs[i].call.Pos() < decs[j].call.Pos()
	})
	wantK := map[int64]int64{10: 8, 16: 7}
	perFn := map[*ssa.Function]map[int64]int64{}
	nPer := map[*ssa.Function]int{}
	for _, d := range decs {
		nPer[d.fn]++
		key := fmt.Sprintf("%s: numeric reference decoder #%d", w.FnKey(d.fn), nPer[d.fn])
		switch {
		case d.base != 10 && d.base != 16:
			r.Bad(key, w.InstrPos(d.call), fmt.Sprintf("the digit run is parsed with base %d instead of the constant 10 or 16: with base 0 a run with a leading zero is read as octal ('&#0035;' becomes U+001D instead of '#') and a run such as '08' fails", d.base))
		case d.k != wantK[d.base]:
			lim := "no length limit"
			if d.k >= 0 {
				lim = fmt.Sprintf("the limit 'length < %d'", d.k)
			}
			r.Bad(key, w.InstrPos(d.call), fmt.Sprintf("a base-%d reference is decoded under %s; the specification allows at most %d digits (length < %d): longer runs are not character references and must stay literal", d.base, lim, wantK[d.base]-1, wantK[d.base]))
		default:
			r.OK(key, w.InstrPos(d.call), fmt.Sprintf("base %d, at most %d digits", d.base, d.k-1))
		}
		if perFn[d.fn] == nil {
			perFn[d.fn] = map[int64]int64{}
		}
		perFn[d.fn][d.base] = d.k
	}
	// sibling agreement
	var fns []*ssa.Function
	for f := range perFn {
		fns = append(fns, f)
	}
	sort.Slice(fns, func(i, j int) bool { return fns[i].String() < fns[j].String() })
	sig := func(m map[int64]int64) string {
		var ks []int
		for b := range m {
			ks = append(ks, int(b))
		}
		sort.Ints(ks)
		var p []string
		for _, b := range ks {
			p = append(p, fmt.Sprintf("base %d: length < %d", b, m[int64(b)]))
		}
		return strings.Join(p, "; ")
	}
	for i := 1; i < len(fns); i++ {
		key := fmt.Sprintf("sibling decoders %s and %s agree", w.FnKey(fns[0]), w.FnKey(fns[i]))
		if sig(perFn[fns[0]]) == sig(perFn[fns[i]]) {
			r.OK(key, w.FnPos(fns[i]), sig(perFn[fns[i]]))
		} else {
			r.Bad(key, w.FnPos(fns[i]), fmt.Sprintf("the same syntax is decoded differently: {%s} vs {%s}: a reference means one character in text and another (or none) in a link destination", sig(perFn[fns[0]]), sig(perFn[fns[i]])))
		}
	}
	r.Expect("numeric reference decoders", len(decs), 2)
	r.Expect("functions decoding numeric references", len(fns), 1)
}

func rulePunctuationSet(w *World, r *Report) {
	r.Rule("C02-P", "util.IsPunct, evaluated for all 256 byte values from its body and constant table, holds exactly for the ASCII punctuation characters 0x21–0x2F, 0x3A–0x40, 0x5B–0x60, 0x7B–0x7E: these and only these can be backslash-escaped.")
	fn := w.PkgFunc("util", "IsPunct")
	if fn == nil {
		r.Unknown("util.IsPunct", "", "not found")
		return
	}
	fo, ok := fn.Object().(*types.Func)
	if !ok {
		r.Unknown("util.IsPunct", "", "no object")
		return
	}
	var missing, extra [256]bool
	nm, ne := 0, 0
	for c := 0; c < 256; c++ {
		got, err := w.evalBytePredicateFunc(fo, c)
		if err != "" {
			r.Unknown("util.IsPunct", w.FnPos(fn), "cannot evaluate: "+err)
			return
		}
		want := (c >= 0x21 && c <= 0x2f) || (c >= 0x3a && c <= 0x40) || (c >= 0x5b && c <= 0x60) || (c >= 0x7b && c <= 0x7e)
		if want && !got {
			missing[c] = true
			nm++
		}
		if got && !want {
			extra[c] = true
			ne++
		}
	}
	if nm == 0 && ne == 0 {
		r.OK("util.IsPunct == ASCII punctuation", w.FnPos(fn), "256 values evaluated")
	} else {
		r.Bad("util.IsPunct == ASCII punctuation", w.FnPos(fn), fmt.Sprintf("missing %s, extra %s", byteSetString(missing), byteSetString(extra)))
	}
	// users: the escape resolvers consult this predicate
	users := 0
	for _, f := range w.Funcs {
		for _, b := range f.Blocks {
			for _, ins := range b.Instrs {
				if c, ok := ins.(*ssa.Call); ok && c.Common().StaticCallee() == fn {
					users++
				}
			}
		}
	}
	r.Expect("call sites of util.IsPunct", users, 4)
}
