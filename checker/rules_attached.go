package main

// rules_attached.go — C01-N: a node whose Parent() is dereferenced is known to be attached.

import (
	"fmt"
	"go/token"
	"go/types"
	"sort"

	"golang.org/x/tools/go/ssa"
)

// attachedFact: blk is dominated by evidence that node x has a parent: x.Parent() != nil (either spelling), or
// x == y.LastChild() / y.FirstChild() (x is somebody's child).
func attachedFact(blk *ssa.BasicBlock, x ssa.Value) bool {
	for _, cf := range dominatingConds(blk) {
		for _, a := range condAtoms(cf.If.Cond, cf.Truth) {
			if v, isNil, isT := nilTest(a.V); isT && isNil != a.Truth {
				if c, ok := v.(*ssa.Call); ok {
					if recv, _, ok := methodCallOn(c, "Parent"); ok && recv == x {
						return true
					}
				}
			}
			if bo, ok := a.V.(*ssa.BinOp); ok && ((bo.Op == token.EQL && a.Truth) || (bo.Op == token.NEQ && !a.Truth)) {
				for _, pr := range [][2]ssa.Value{{bo.X, bo.Y}, {bo.Y, bo.X}} {
					if nodeRoot(pr[0]) != x {
						continue
					}
					if c, ok := pr[1].(*ssa.Call); ok {
						if _, _, ok := methodCallOn(c, "LastChild"); ok {
							return true
						}
						if _, _, ok := methodCallOn(c, "FirstChild"); ok {
							return true
						}
					}
				}
			}
		}
	}
	return false
}

func ruleParentDereferenceGuarded(w *World, r *Report) {
	r.Rule("C01-N", "Paragraph transformers replace or remove the paragraph through node.Parent().…, so they need an attached paragraph. The requirement is followed up the call chain: a module function that calls a method on p.Parent() for a node parameter p without a dominating `p.Parent() != nil`, or hands p to such a function (ParagraphTransformer.Transform is resolved to every module implementation), requires its caller to guarantee attachment; at every call site whose argument is not itself a parameter the call is dominated by `x.Parent() != nil` or by `x == y.LastChild()/FirstChild()` for that argument. An extension may detach a paragraph that is still in the opened-blocks list (the definition list does); running the transformers on it dereferences a nil parent.")
	ptI := w.Iface("parser", "ParagraphTransformer")
	var ptImpls []*ssa.Function
	for _, t := range w.Implementers(ptI) {
		if m := w.MethodOf(t, "Transform"); m != nil && w.InModule(m) {
			ptImpls = append(ptImpls, m)
		}
	}
	nodeParams := func(fn *ssa.Function) []*ssa.Parameter {
		var out []*ssa.Parameter
		nodeI := w.Iface("ast", "Node")
		for _, p := range fn.Params {
			if nodeI != nil && (types.Implements(p.Type(), nodeI)) {
				out = append(out, p)
			}
		}
		return out
	}
	type key struct {
		fn  *ssa.Function
		idx int
	}
	requires := map[key]string{}
	scope := func(fn *ssa.Function) bool {
		pk := w.PkgOf(fn)
		return pk == modPath+"/parser" || pk == modPath+"/extension"
	}
	// direct requirements: in the paragraph transformers and the module functions they hand their node to
	seed := map[*ssa.Function]bool{}
	var work []*ssa.Function
	work = append(work, ptImpls...)
	for len(work) > 0 {
		fn := work[len(work)-1]
		work = work[:len(work)-1]
		if seed[fn] || fn.Blocks == nil {
			continue
		}
		seed[fn] = true
		for _, b := range fn.Blocks {
			for _, ins := range b.Instrs {
				if c, ok := ins.(ssa.CallInstruction); ok {
					if cal := c.Common().StaticCallee(); cal != nil && w.InModule(cal) && scope(cal) {
						for _, a := range c.Common().Args {
							if p, isP := nodeRoot(a).(*ssa.Parameter); isP && p.Parent() == fn {
								work = append(work, cal)
							}
						}
					}
				}
			}
		}
	}
	for _, fn := range w.Funcs {
		if !scope(fn) || !seed[fn] {
			continue
		}
		for _, p := range nodeParams(fn) {
			for _, b := range fn.Blocks {
				for _, ins := range b.Instrs {
					c, ok := ins.(ssa.CallInstruction)
					if !ok || !c.Common().IsInvoke() {
						continue
					}
					pc, ok := c.Common().Value.(*ssa.Call)
					if !ok {
						continue
					}
					recv, _, ok := methodCallOn(pc, "Parent")
					if !ok || recv != ssa.Value(p) {
						continue
					}
					if !attachedFact(b, p) {
						requires[key{fn, paramIndex(fn, p)}] = "calls " + c.Common().Method.Name() + " on " + p.Name() + ".Parent() at " + w.InstrPos(ins)
					}
				}
			}
		}
	}
	calleesOf := func(c ssa.CallInstruction) []*ssa.Function {
		com := c.Common()
		if com.IsInvoke() {
			if com.Method.Name() == "Transform" && typeShort(com.Value.Type()) == "parser.ParagraphTransformer" {
				return ptImpls
			}
			return nil
		}
		if cal := com.StaticCallee(); cal != nil && w.InModule(cal) {
			return []*ssa.Function{cal}
		}
		return nil
	}
	argFor := func(c ssa.CallInstruction, cal *ssa.Function, idx int) ssa.Value {
		com := c.Common()
		if com.IsInvoke() {
			if idx == 0 || idx-1 >= len(com.Args) {
				return nil
			}
			return com.Args[idx-1]
		}
		if idx >= len(com.Args) {
			return nil
		}
		return com.Args[idx]
	}
	// propagate through parameters handed on unguarded
	for changed := true; changed; {
		changed = false
		for _, fn := range w.Funcs {
			if !scope(fn) {
				continue
			}
			for _, b := range fn.Blocks {
				for _, ins := range b.Instrs {
					c, ok := ins.(ssa.CallInstruction)
					if !ok {
						continue
					}
					for _, cal := range calleesOf(c) {
						for k, why := range requires {
							if k.fn != cal {
								continue
							}
							a := argFor(c, cal, k.idx)
							if a == nil {
								continue
							}
							root := nodeRoot(a)
							if p, isP := root.(*ssa.Parameter); isP && p.Parent() == fn && !attachedFact(b, root) {
								nk := key{fn, paramIndex(fn, p)}
								if _, has := requires[nk]; !has {
									requires[nk] = "passes " + p.Name() + " to " + w.FnKey(cal) + " (" + why + ")"
									changed = true
								}
							}
						}
					}
				}
			}
		}
	}
	// obligations at call sites whose argument is not a parameter of the caller
	n := 0
	var fns []*ssa.Function
	for _, fn := range w.Funcs {
		if scope(fn) {
			fns = append(fns, fn)
		}
	}
	sort.Slice(fns, func(i, j int) bool { return fns[i].String() < fns[j].String() })
	for _, fn := range fns {
		for _, b := range fn.Blocks {
			for _, ins := range b.Instrs {
				c, ok := ins.(ssa.CallInstruction)
				if !ok {
					continue
				}
				for _, cal := range calleesOf(c) {
					for k, why := range requires {
						if k.fn != cal {
							continue
						}
						a := argFor(c, cal, k.idx)
						if a == nil {
							continue
						}
						root := nodeRoot(a)
						if p, isP := root.(*ssa.Parameter); isP && p.Parent() == fn {
							continue // handed on: the obligation is the caller's caller's
						}
						n++
						okey := fmt.Sprintf("%s -> %s: argument is attached", w.FnKey(fn), w.FnKey(cal))
						if attachedFact(b, root) {
							r.OK(okey, w.InstrPos(ins), "dominated by a parent test (or child-of test) on the argument")
						} else {
							r.Bad(okey, w.InstrPos(ins), "the callee dereferences the node's parent ("+why+") but nothing on the way to this call shows that the node is still attached")
						}
					}
				}
			}
		}
	}
	r.Expect("call sites that must guarantee an attached node", n, 1)
	r.Quiet("C01-N: %d (function, parameter) pairs require an attached node", len(requires))
}
