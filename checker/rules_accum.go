package main

// rules_accum.go — C09-A: what the blocks of a document accumulate in the parse context for a document-level consumer
// is extended, never replaced.

import (
	"fmt"
	"sort"

	"golang.org/x/tools/go/ssa"
)

func ruleAccumulatorsExtended(w *World, r *Report) {
	r.Rule("C09-A", "Document-level accumulators are context keys that block- or inline-level code sets to a non-nil value and that an AST transformer of the same package consumes once, at the end of the document (the footnote list, the list of footnote references, the table cells with an escaped pipe in a code span). Every non-nil pc.Set(K, v) outside the transformer either stores a value built from what the key held — v's operands, through append, type assertions, phis and module helpers, include the result of pc.Get(K) or pc.ComputeIfAbsent(K, …) — or lies on the edge on which pc.Get(K) was just seen to be nil (first creation). A Set of a list built for the current block alone overwrites what an earlier block registered: the earlier table or footnote then renders differently because a later block exists.")
	at := w.Iface("parser", "ASTTransformer")
	inTransformer := map[*ssa.Function]bool{}
	consumed := map[*ssa.Global]bool{}
	for _, t := range w.Implementers(at) {
		tr := w.MethodOf(t, "Transform")
		if tr == nil || !w.InModule(tr) {
			continue
		}
		// keys the transformer reads, directly or through module helpers it calls (two levels)
		var scan func(f *ssa.Function, depth int)
		seenScan := map[*ssa.Function]bool{}
		scan = func(f *ssa.Function, depth int) {
			if seenScan[f] {
				return
			}
			seenScan[f] = true
			for _, b := range f.Blocks {
				for _, ins := range b.Instrs {
					c, ok := ins.(ssa.CallInstruction)
					if !ok {
						continue
					}
					if g, op := ctxKeyOf(c); g != nil && op == "Get" && g.Pkg == tr.Pkg {
						consumed[g] = true
					}
					if cal := c.Common().StaticCallee(); cal != nil && w.InModule(cal) && cal.Blocks != nil && cal.Pkg == tr.Pkg && depth < 2 {
						scan(cal, depth+1)
					}
				}
			}
		}
		for _, f := range AnonClosure(tr) {
			inTransformer[f] = true
			scan(f, 0)
		}
	}
	readsKey := func(v ssa.Value, g *ssa.Global) bool {
		found := false
		seenFn := map[*ssa.Function]bool{}
		var walk func(v ssa.Value, depth int)
		walk = func(v ssa.Value, depth int) {
			operandsClosure(v, func(x ssa.Value) bool {
				if found {
					return false
				}
				x = throughCell(x)
				c, ok := x.(*ssa.Call)
				if !ok {
					return true
				}
				if g2, op := ctxKeyOf(c); g2 == g && (op == "Get" || op == "ComputeIfAbsent") {
					found = true
					return false
				}
				if cal := c.Common().StaticCallee(); cal != nil && w.InModule(cal) && cal.Blocks != nil && depth < 2 && !seenFn[cal] {
					seenFn[cal] = true
					for _, b := range cal.Blocks {
						if ret, ok := b.Instrs[len(b.Instrs)-1].(*ssa.Return); ok {
							for _, rv := range ret.Results {
								walk(rv, depth+1)
							}
						}
					}
				}
				return true
			})
		}
		walk(v, 0)
		return found
	}
	type site struct {
		fn  *ssa.Function
		c   ssa.CallInstruction
		g   *ssa.Global
		blk *ssa.BasicBlock
	}
	var sites []site
	for _, fn := range w.Funcs {
		if inTransformer[fn] {
			continue
		}
		for _, b := range fn.Blocks {
			for _, ins := range b.Instrs {
				c, ok := ins.(ssa.CallInstruction)
				if !ok {
					continue
				}
				if g, op := ctxKeyOf(c); g != nil && consumed[g] && op == "Set" && !isNilConst(stripMakeIface(c.Common().Args[1])) {
					sites = append(sites, site{fn, c, g, b})
				}
			}
		}
	}
	sort.Slice(sites, func(i, j int) bool { return sites[i].c.Pos() < sites[j].c.Pos() })
	perFn := map[string]int{}
	for _, s := range sites {
		perFn[w.FnKey(s.fn)+s.g.Name()]++
		key := fmt.Sprintf("%s: Set(%s) #%d", w.FnKey(s.fn), s.g.Name(), perFn[w.FnKey(s.fn)+s.g.Name()])
		pos := w.InstrPos(s.c.(ssa.Instruction))
		if readsKey(s.c.Common().Args[1], s.g) {
			r.OK(key, pos, "the stored value is built from what the key held")
			continue
		}
		first := false
		for _, cf := range dominatingConds(s.blk) {
			for _, a := range condAtoms(cf.If.Cond, cf.Truth) {
				if x, isNil, ok := nilTest(a.V); ok && isNil == a.Truth && readsKey(x, s.g) {
					first = true
				}
			}
		}
		if first {
			r.OK(key, pos, "first creation: the key was just seen to hold nil")
		} else {
			r.Bad(key, pos, fmt.Sprintf("%s is consumed once per document by an AST transformer, and this Set stores a value that neither derives from what the key held nor is guarded by 'the key holds nil': what an earlier block of the document registered is overwritten, so that block is finished differently because a later one exists", s.g.Name()))
		}
	}
	r.Expect("non-nil stores to document-level accumulators", len(sites), 2)
}
