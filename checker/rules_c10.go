package main

// rules_c10.go — C10: renderer options are orthogonal rewrites of the same output.

import (
	"fmt"
	"go/token"
	"go/types"
	"sort"
	"strings"

	"golang.org/x/tools/go/ssa"
)

func init() {
	register(&Property{
		ID:      "C10",
		Level:   "other",
		Explain: "Decides (P) that every renderer option reaches every renderer copy: each NodeRenderer type reading html.Config implements SetOptioner, hand-written SetOption methods forward unknown names to the embedded Config, the names written by the options agree with the names read by Config.SetOption and both paths store into the same field, and Render's initialiser pushes every option into every SetOptioner before its functions are registered; (X) every read of Config.XHTML only selects between two constant writes that differ exactly by ' />' versus '>' (or selects an enum constant); (H) Config.HardWraps is read once, only as a branch condition, under no other condition than 'this text node ends in a soft line break', and its true arm is the hard-break arm; (U) Config.Unsafe is only a branch condition in front of raw node bytes or of the dangerous-URL test. Any other use of the three flags fails as undecided. Does NOT decide that the rest of the output is byte-identical (that follows from C06 together with these rules).",
		Trusted: []string{"sink model (DESIGN 2.5)"},
		Assumes: []string{"table alignment method and East-Asian line breaks are excluded by the statement itself"},
		Rules:   []func(*World, *Report){ruleOptionPropagation, ruleOptionValueStored, ruleConfiguredComponentsOwned, ruleFlagUses, ruleRenderersReadPerSegment, ruleConstructorsApplyOptions},
	})
}

func (w *World) htmlConfig() *types.Named { return w.Named("renderer/html", "Config") }

// flagLoads lists every load of field `name` of html.Config in module functions.
func (w *World) flagLoads(name string) []*ssa.UnOp {
	var out []*ssa.UnOp
	for _, fn := range w.Funcs {
		for _, b := range fn.Blocks {
			for _, ins := range b.Instrs {
				if u, ok := ins.(*ssa.UnOp); ok && w.isConfigFlagLoad(u, name) {
					out = append(out, u)
				}
			}
		}
	}
	return out
}

// ---- C10-P -------------------------------------------------------------------------------

func ruleOptionPropagation(w *World, r *Report) {
	cfg := w.htmlConfig()
	if cfg == nil {
		r.Rule("C10-P", "option propagation")
		r.Unknown("html.Config", "", "type not found")
		return
	}
	r.Rule("C10-Pa", "Every module type implementing renderer.NodeRenderer whose render functions read a field of html.Config also implements renderer.SetOptioner.")
	setOptioner := w.Iface("renderer", "SetOptioner")
	byType := map[*types.Named][]*ssa.Function{}
	for _, reg := range w.Registrations() {
		if reg.Func != nil {
			byType[reg.Recv] = append(byType[reg.Recv], reg.Func)
		}
	}
	var ts []*types.Named
	for t := range byType {
		ts = append(ts, t)
	}
	sort.Slice(ts, func(i, j int) bool { return typeShort(ts[i]) < typeShort(ts[j]) })
	r.Expect("NodeRenderer types", len(ts), 3)
	for _, t := range ts {
		reads := false
		for _, fn := range byType[t] {
			for _, b := range fn.Blocks {
				for _, ins := range b.Instrs {
					if fa, ok := ins.(*ssa.FieldAddr); ok {
						if st, _ := fieldOfAddr(fa); namedOf(st) == cfg {
							reads = true
						}
					}
				}
			}
		}
		impl := types.Implements(types.NewPointer(t), setOptioner) || types.Implements(t, setOptioner)
		key := typeShort(t)
		switch {
		case impl:
			r.OK(key, "", fmt.Sprintf("implements renderer.SetOptioner (reads html.Config: %v)", reads))
		case !reads:
			r.OK(key, "", "reads no html.Config field")
		default:
			r.Bad(key, "", "render functions read html.Config but the type is not a SetOptioner: renderer options never reach it")
		}
	}

	r.Rule("C10-Pb", "Every SetOption method declared on a struct that embeds html.Config forwards (name, value) to the embedded Config.SetOption on every path that matched none of its own option names.")
	baseSet := w.DeclaredMethod(cfg, "SetOption")
	if baseSet == nil {
		r.Unknown("(*html.Config).SetOption", "", "method not found")
		return
	}
	n := 0
	for _, t := range w.NamedTypes() {
		st, ok := t.Underlying().(*types.Struct)
		if !ok || t == cfg {
			continue
		}
		embeds := false
		for i := 0; i < st.NumFields(); i++ {
			if st.Field(i).Embedded() && namedOf(st.Field(i).Type()) == cfg {
				embeds = true
			}
		}
		if !embeds {
			continue
		}
		m := w.DeclaredMethod(t, "SetOption")
		if m == nil {
			continue // promoted method of html.Config is used
		}
		n++
		key := w.FnKey(m)
		var fwd *ssa.BasicBlock
		for _, b := range m.Blocks {
			for _, ins := range b.Instrs {
				c, ok := ins.(*ssa.Call)
				if !ok || c.Common().StaticCallee() != baseSet {
					continue
				}
				a := c.Common().Args
				if len(a) == 3 && a[1] == ssa.Value(m.Params[1]) && a[2] == ssa.Value(m.Params[2]) {
					fwd = b
				}
			}
		}
		if fwd == nil {
			r.Bad(key, w.FnPos(m), "does not forward to the embedded html.Config.SetOption(name, value): XHTML/Unsafe/HardWraps never reach this renderer")
			continue
		}
		// a return must not be reachable without taking a matched-name edge or passing the forwarding block
		leak := false
		for _, b := range m.Blocks {
			if _, isRet := b.Instrs[len(b.Instrs)-1].(*ssa.Return); !isRet {
				continue
			}
			if w.reachableAvoidingBlocks(m, b, map[*ssa.BasicBlock]bool{fwd: true}, func(from *ssa.BasicBlock, idx int) bool {
				iff, ok := from.Instrs[len(from.Instrs)-1].(*ssa.If)
				if !ok {
					return false
				}
				for _, a := range condAtoms(iff.Cond, idx == 0) {
					if bo, ok := a.V.(*ssa.BinOp); ok && (bo.X == ssa.Value(m.Params[1]) || bo.Y == ssa.Value(m.Params[1])) {
						if (bo.Op == token.EQL && a.Truth) || (bo.Op == token.NEQ && !a.Truth) {
							return true // name == one of its own constants
						}
					}
					// a lookup helper keyed by the name that found something: helper(name) != nil
					if x, isNil, isT := nilTest(a.V); isT && isNil != a.Truth {
						if hc, ok := x.(*ssa.Call); ok {
							if cal := hc.Common().StaticCallee(); cal != nil && w.InModule(cal) {
								for _, arg := range hc.Common().Args {
									if arg == ssa.Value(m.Params[1]) {
										return true
									}
								}
							}
						}
					}
				}
				return false
			}) {
				leak = true
			}
		}
		if leak {
			r.Bad(key, w.FnPos(m), "some path returns without matching one of its own names and without forwarding to the embedded Config.SetOption")
		} else {
			r.OK(key, w.FnPos(m), "unmatched names are forwarded to the embedded html.Config.SetOption")
		}
	}
	r.Expect("hand-written SetOption methods on types embedding html.Config", n, 1)

	r.Rule("C10-Pc", "Writer/reader agreement: for every option type with SetConfig (stores Options[k]) and SetHTMLOption (stores field F directly), (*html.Config).SetOption has a case for the same constant k that stores into the same field F.")
	// which receiver field a given option name reaches: the method is explored once per option-name constant it
	// compares its name parameter with, following only the edges that name selects (so a switch, an if chain, a
	// filter-then-else chain or a comma-ok assertion inside an arm all look the same)
	caseField := map[string]string{}
	nameP := ssa.Value(baseSet.Params[1])
	nameConsts := map[string]bool{}
	cmpOf := func(v ssa.Value) (string, token.Token, bool) {
		bo, ok := v.(*ssa.BinOp)
		if !ok || (bo.Op != token.EQL && bo.Op != token.NEQ) {
			return "", 0, false
		}
		if bo.X == nameP {
			if c, ok := constString(bo.Y); ok {
				return c, bo.Op, true
			}
		}
		if bo.Y == nameP {
			if c, ok := constString(bo.X); ok {
				return c, bo.Op, true
			}
		}
		return "", 0, false
	}
	for _, b := range baseSet.Blocks {
		if iff, ok := b.Instrs[len(b.Instrs)-1].(*ssa.If); ok {
			if c, _, ok := cmpOf(iff.Cond); ok {
				nameConsts[c] = true
			}
		}
	}
	for k := range nameConsts {
		seen := map[*ssa.BasicBlock]bool{}
		var fields []string
		var dfs func(b *ssa.BasicBlock)
		dfs = func(b *ssa.BasicBlock) {
			if seen[b] {
				return
			}
			seen[b] = true
			for _, ins := range b.Instrs {
				if st, ok := ins.(*ssa.Store); ok {
					if fa, ok := st.Addr.(*ssa.FieldAddr); ok && fa.X == ssa.Value(baseSet.Params[0]) {
						_, f := fieldOfAddr(fa)
						fields = append(fields, f.Name())
					}
				}
			}
			if iff, ok := b.Instrs[len(b.Instrs)-1].(*ssa.If); ok && len(b.Succs) == 2 {
				if c, op, ok := cmpOf(iff.Cond); ok {
					truth := (c == k) == (op == token.EQL)
					if truth {
						dfs(b.Succs[0])
					} else {
						dfs(b.Succs[1])
					}
					return
				}
			}
			for _, s := range b.Succs {
				dfs(s)
			}
		}
		dfs(baseSet.Blocks[0])
		// the field stored for this name and for no other name
		for _, f := range fields {
			caseField[k+"\x00"+f] = f
		}
	}
	// fields reached under exactly one name identify that name's arm
	byName := map[string][]string{}
	for kf, f := range caseField {
		byName[strings.SplitN(kf, "\x00", 2)[0]] = append(byName[strings.SplitN(kf, "\x00", 2)[0]], f)
	}
	fieldNames := map[string]int{}
	for _, fs := range byName {
		seenF := map[string]bool{}
		for _, f := range fs {
			if !seenF[f] {
				seenF[f] = true
				fieldNames[f]++
			}
		}
	}
	caseField = map[string]string{}
	for k, fs := range byName {
		for _, f := range fs {
			if fieldNames[f] == 1 {
				caseField[k] = f
			}
		}
	}
	r.Expect("cases of (*html.Config).SetOption", len(caseField), 2)
	pairs := 0
	for _, t := range w.NamedTypes() {
		sc := w.DeclaredMethod(t, "SetConfig")
		sh := w.DeclaredMethod(t, "SetHTMLOption")
		if sc == nil || sh == nil {
			continue
		}
		var key string
		found := false
		for _, b := range sc.Blocks {
			for _, ins := range b.Instrs {
				if mu, ok := ins.(*ssa.MapUpdate); ok {
					if s, ok := constString(stripMakeIface(mu.Key)); ok {
						key, found = s, true
					}
				}
			}
		}
		var field string
		for _, b := range sh.Blocks {
			for _, ins := range b.Instrs {
				if st, ok := ins.(*ssa.Store); ok {
					if fa, ok := st.Addr.(*ssa.FieldAddr); ok {
						if ty, f := fieldOfAddr(fa); namedOf(ty) == cfg {
							field = f.Name()
						}
					}
				}
			}
		}
		if !found || field == "" {
			continue // composite options (WithHTMLOptions…) that only delegate
		}
		pairs++
		okey := fmt.Sprintf("%s: Options[%q] / Config.%s", typeShort(t), key, field)
		if caseField[key] == field {
			r.OK(okey, w.FnPos(sc), "Config.SetOption has the same name and stores into the same field")
		} else if caseField[key] == "" {
			r.Bad(okey, w.FnPos(sc), "Config.SetOption has no case for this option name: the option is lost for every renderer copy configured by name")
		} else {
			r.Bad(okey, w.FnPos(sc), "Config.SetOption stores this name into field "+caseField[key]+" but SetHTMLOption stores into "+field)
		}
	}
	r.Expect("option types with both a by-name and a direct setter", pairs, 2)

	r.Rule("C10-Pd", "Render's Once-closure copies config.Options into the options it ranges over, and for every node renderer calls SetOption(name, value) for every entry — guarded only by the SetOptioner type test — before that renderer's RegisterFuncs.")
	for _, oc0 := range w.renderOnceClosures() {
		oc := oc0
		key := w.FnKey(oc)
		var setCall, regCall ssa.Instruction
		find := func(fn *ssa.Function) {
			setCall, regCall = nil, nil
			for _, b := range fn.Blocks {
				for _, ins := range b.Instrs {
					c, ok := ins.(ssa.CallInstruction)
					if !ok || !c.Common().IsInvoke() {
						continue
					}
					switch c.Common().Method.Name() {
					case "SetOption":
						setCall = ins
					case "RegisterFuncs":
						regCall = ins
					}
				}
			}
		}
		find(oc)
		helperMode := false
		if setCall == nil && regCall == nil {
			// the per-renderer step extracted into a method that the initialiser calls from its loop over the node
			// renderers: the same conditions are checked inside that method
			for _, l := range findLoops(oc0) {
				for b := range l.Body {
					for _, ins := range b.Instrs {
						if c, ok := ins.(*ssa.Call); ok && !helperMode {
							if cal := c.Common().StaticCallee(); cal != nil && w.InModule(cal) && cal.Blocks != nil && cal.Pkg == oc0.Pkg {
								find(cal)
								if setCall != nil && regCall != nil {
									oc, helperMode = cal, true
								}
							}
						}
					}
				}
			}
		}
		if setCall == nil || regCall == nil {
			r.Bad(key, w.FnPos(oc), "the initialiser does not both push options (SetOption) and register functions (RegisterFuncs)")
			continue
		}
		// SetOption is inside a range over a map whose source is the options field
		inMapRange := false
		for _, b := range oc.Blocks {
			for _, ins := range b.Instrs {
				if rg, ok := ins.(*ssa.Range); ok {
					if _, isMap := rg.X.Type().Underlying().(*types.Map); isMap {
						inMapRange = true
					}
				}
			}
		}
		// order: from RegisterFuncs one must not reach SetOption without passing the outer loop header
		var outer *Loop
		loops := findLoops(oc)
		for i := range loops {
			if loops[i].Body[setCall.Block()] && loops[i].Body[regCall.Block()] {
				if outer == nil || len(loops[i].Body) > len(outer.Body) {
					outer = &loops[i]
				}
			}
		}
		if outer == nil && !helperMode {
			r.Bad(key, w.FnPos(oc), "SetOption and RegisterFuncs are not in the same loop over the node renderers")
			continue
		}
		var after bool
		if helperMode {
			after = reachesWithout(regCall.Block(), setCall.Block(), nil)
			outer = &Loop{Header: oc.Blocks[0], Body: map[*ssa.BasicBlock]bool{}}
			for _, b := range oc.Blocks {
				outer.Body[b] = true
			}
		} else {
			after = reachesWithout(regCall.Block(), setCall.Block(), outer.Header)
		}
		// conditions controlling SetOption inside the outer iteration: only the SetOptioner type test and loop tests
		guardOK := true
		var guardWhy string
		for _, cf := range dominatingConds(setCall.Block()) {
			if !outer.Body[cf.If.Block()] {
				continue
			}
			switch c := cf.If.Cond.(type) {
			case *ssa.Extract:
				if _, ok := c.Tuple.(*ssa.TypeAssert); ok {
					continue
				}
				if _, ok := c.Tuple.(*ssa.Next); ok {
					continue
				}
			case *ssa.BinOp:
				// loop bound tests
				continue
			}
			guardOK = false
			guardWhy = shortVal(cf.If.Cond)
		}
		switch {
		case !inMapRange:
			r.Bad(key, w.InstrPos(setCall), "SetOption is not applied for every entry of the options map")
		case after:
			r.Bad(key, w.InstrPos(regCall), "RegisterFuncs can run before the options are pushed into the same node renderer (a renderer that snapshots its configuration when registering misses them)")
		case !guardOK:
			r.Bad(key, w.InstrPos(setCall), "SetOption is skipped under an extra condition: "+guardWhy)
		default:
			r.OK(key, w.InstrPos(setCall), "every option entry is pushed into every SetOptioner before its RegisterFuncs")
		}
	}
}

// renderOnceClosures: the Once-closures hosted by Render implementations.
func (w *World) renderOnceClosures() []*ssa.Function {
	var out []*ssa.Function
	e := w.Entries()
	for oc, call := range w.CG().OnceClosures {
		for _, rf := range e.Render {
			if call.Parent() == rf {
				out = append(out, oc)
			}
		}
	}
	sort.Slice(out, func(i, j int) bool { return out[i].String() < out[j].String() })
	return out
}

// reachesWithout: can `to` be reached from `from` (following at least one edge) without entering `avoid`?
func reachesWithout(from, to, avoid *ssa.BasicBlock) bool {
	seen := map[*ssa.BasicBlock]bool{}
	stack := append([]*ssa.BasicBlock{}, from.Succs...)
	if from == to {
		// same block: order inside the block decides; treated by caller through instruction order
	}
	for len(stack) > 0 {
		b := stack[len(stack)-1]
		stack = stack[:len(stack)-1]
		if seen[b] || b == avoid {
			continue
		}
		seen[b] = true
		if b == to {
			return true
		}
		stack = append(stack, b.Succs...)
	}
	return false
}

// reachableAvoidingBlocks: like reachableAvoiding, additionally never entering the given blocks.
func (w *World) reachableAvoidingBlocks(fn *ssa.Function, target *ssa.BasicBlock, blocked map[*ssa.BasicBlock]bool, allowed func(from *ssa.BasicBlock, succIdx int) bool) bool {
	seen := map[*ssa.BasicBlock]bool{}
	stack := []*ssa.BasicBlock{fn.Blocks[0]}
	seen[fn.Blocks[0]] = true
	for len(stack) > 0 {
		b := stack[len(stack)-1]
		stack = stack[:len(stack)-1]
		if blocked[b] {
			continue
		}
		if b == target {
			return true
		}
		for i, s := range b.Succs {
			if allowed(b, i) {
				continue
			}
			if !seen[s] {
				seen[s] = true
				stack = append(stack, s)
			}
		}
	}
	return false
}

// ---- C10-X / H / U ---------------------------------------------------------------------------

// phiTrueFrom: the branch tests a value phi that sits in block `at` (the block the hard-line-break edge leads to) and
// receives the constant true along some edge — the short-circuit form of `hard || (soft && flag)` computed as a value.
func phiTrueFrom(ins ssa.Instruction, at *ssa.BasicBlock) bool {
	iff, ok := ins.(*ssa.If)
	if !ok {
		return false
	}
	ph, ok := iff.Cond.(*ssa.Phi)
	if !ok || ph.Block() != at || iff.Block() != at {
		return false
	}
	for _, e := range ph.Edges {
		if b, isC := constBool(e); isC && b {
			return true
		}
	}
	return false
}

// flagBranch: the single live use of a flag load is a two-way branch on the flag or on its negation; returns the
// branch and the successors taken when the flag is true / false.
func flagBranch(u ssa.Value) (*ssa.If, *ssa.BasicBlock, *ssa.BasicBlock, bool) {
	refs := liveRefs(u)
	if len(refs) != 1 {
		return nil, nil, nil, false
	}
	switch x := refs[0].(type) {
	case *ssa.If:
		return x, x.Block().Succs[0], x.Block().Succs[1], true
	case *ssa.UnOp:
		if x.Op == token.NOT {
			if iff, t, f, ok := flagBranch(x); ok {
				return iff, f, t, true
			}
		}
	case *ssa.Phi:
		// the last operand of a short-circuit condition computed as a value (`case a || (b && flag):`): the other
		// operands are the constants the short circuit yields; the phi is then branched on
		for _, e := range x.Edges {
			if e == u {
				continue
			}
			if _, isC := constBool(e); !isC {
				return nil, nil, nil, false
			}
		}
		return flagBranch(x)
	}
	return nil, nil, nil, false
}

func emptyArm(b *ssa.BasicBlock) bool {
	for _, ins := range b.Instrs {
		switch ins.(type) {
		case *ssa.Jump, *ssa.DebugRef:
		default:
			return false
		}
	}
	return len(b.Succs) == 1
}

// constantSelection recognises `s := B; if flag { s = A }; write(s)` and `if flag { s = A } else { s = B }; write(s)`:
// both arms are empty and meet in a block with a phi of string constants that is used only as (the operand of) writes.
// Returns the constant chosen when the flag is true and the one chosen when it is false.
func (w *World) constantSelection(cond, tb, fb *ssa.BasicBlock) (string, string, bool) {
	var join, tPred, fPred *ssa.BasicBlock
	switch {
	case emptyArm(tb) && tb.Succs[0] == fb:
		join, tPred, fPred = fb, tb, cond
	case emptyArm(fb) && fb.Succs[0] == tb:
		join, tPred, fPred = tb, cond, fb
	case emptyArm(tb) && emptyArm(fb) && tb.Succs[0] == fb.Succs[0]:
		join, tPred, fPred = tb.Succs[0], tb, fb
	default:
		return "", "", false
	}
	sa := w.Sinks()
	for _, ins := range join.Instrs {
		ph, ok := ins.(*ssa.Phi)
		if !ok {
			break
		}
		var tv, fv ssa.Value
		for i, p := range join.Preds {
			if p == tPred {
				tv = ph.Edges[i]
			}
			if p == fPred {
				fv = ph.Edges[i]
			}
		}
		if tv == nil || fv == nil || len(join.Preds) != 2 {
			continue
		}
		ts, ok1 := w.constText(tv)
		fs, ok2 := w.constText(fv)
		if !ok1 || !ok2 {
			continue
		}
		// every (transitive) use of the phi is a write of it
		okUse := true
		nSinks := 0
		var visit func(v ssa.Value, depth int)
		visit = func(v ssa.Value, depth int) {
			for _, ref := range liveRefs(v) {
				if s := sa.sinkAt(join.Parent(), ref); s != nil {
					nSinks++
					continue
				}
				switch x := ref.(type) {
				case *ssa.Convert:
					if depth < 3 {
						visit(x, depth+1)
						continue
					}
				case *ssa.ChangeType:
					if depth < 3 {
						visit(x, depth+1)
						continue
					}
				}
				okUse = false
			}
		}
		visit(ph, 0)
		if okUse && nSinks > 0 {
			return ts, fs, true
		}
	}
	return "", "", false
}

// constText: a string constant or a []byte conversion of one.
func (w *World) constText(v ssa.Value) (string, bool) {
	if s, ok := constString(v); ok {
		return s, true
	}
	if c, ok := v.(*ssa.Convert); ok {
		return constString(c.X)
	}
	if s, ok := w.constBytes(v); ok {
		return s, true
	}
	return "", false
}

// armText returns the concatenated constant text written in block b, and whether b does only that
// (constant writes, then a jump).
func (w *World) armText(fn *ssa.Function, b *ssa.BasicBlock) (string, int, bool) {
	sa := w.Sinks()
	text := ""
	n := 0
	for _, ins := range b.Instrs {
		if s := sa.sinkAt(fn, ins); s != nil {
			for _, p := range s.Pieces {
				if !p.Const {
					return "", n, false
				}
				text += p.Text
			}
			n++
			continue
		}
		switch x := ins.(type) {
		case *ssa.Jump, *ssa.DebugRef, *ssa.Extract:
		case *ssa.Return:
		case *ssa.Convert, *ssa.ChangeType, *ssa.MakeInterface, *ssa.Slice, *ssa.Alloc, *ssa.IndexAddr, *ssa.Store:
			// building the variadic/[]byte operands of a constant write
			_ = x
		default:
			return "", n, false
		}
	}
	return text, n, true
}

// armRegionConstantOnly: the arm starting at block b (entered only from the flag's branch) may itself branch; in every
// block it dominates, each write is a write of constants and no other call is handed the writer or a byte slice (it may
// ask the node questions: n.HasClosure()).
func (w *World) armRegionConstantOnly(fn *ssa.Function, b *ssa.BasicBlock) bool {
	if len(b.Preds) != 1 {
		return false
	}
	sa := w.Sinks()
	for _, x := range fn.Blocks {
		if !b.Dominates(x) {
			continue
		}
		for _, ins := range x.Instrs {
			if s := sa.sinkAt(fn, ins); s != nil {
				for _, p := range s.Pieces {
					if !p.Const {
						return false
					}
				}
				continue
			}
			switch c := ins.(type) {
			case *ssa.Call:
				for _, a := range c.Common().Args {
					if isByteSlice(a.Type()) || types.IsInterface(a.Type()) && !isNodeIface(a.Type()) {
						return false
					}
				}
				if c.Common().IsInvoke() && !isNodeIface(c.Common().Value.Type()) {
					return false
				}
			case *ssa.Go, *ssa.Defer, *ssa.MapUpdate, *ssa.Send, *ssa.Panic:
				return false
			case *ssa.Store:
				if _, local := c.Addr.(*ssa.Alloc); !local {
					if _, idx := c.Addr.(*ssa.IndexAddr); !idx {
						return false
					}
				}
			}
		}
	}
	return true
}

func isNodeIface(t types.Type) bool {
	return strings.HasSuffix(typeShort(t), "ast.Node")
}

func ruleFlagUses(w *World, r *Report) {
	sa := w.Sinks()
	// ---------- X
	r.Rule("C10-X", "Every load of Config.XHTML is used solely as the condition of a two-way branch whose arms, up to their join, perform only constant writes with html_arm == ReplaceAll(xhtml_arm, \" />\", \">\"), or write nothing and only select a constant of an enum type (the table alignment method, excluded by the statement).")
	xs := w.flagLoads("XHTML")
	r.Expect("loads of Config.XHTML", len(xs), 3)
	for _, u := range xs {
		fn := u.Parent()
		key := w.FnKey(fn) + ": XHTML"
		pos := w.InstrPos(u)
		refs := liveRefs(u)
		if len(refs) != 1 {
			r.Unknown(key, pos, fmt.Sprintf("the flag has %d uses; expected exactly one branch", len(refs)))
			continue
		}
		iff, tb, fb, ok := flagBranch(u)
		if !ok {
			r.Unknown(key, pos, "the flag is used as data ("+strings.TrimSpace(refs[0].String())+"), not as a branch condition")
			continue
		}
		if sa.writerParam(fn) == nil {
			// a helper that only selects an enum constant for its caller (the table alignment method)
			if res := fn.Signature.Results(); res.Len() == 1 {
				if nt, isN := res.At(0).Type().(*types.Named); isN && isInteger(nt) && w.InModuleType(nt) {
					_, tn, tok := w.armText(fn, tb)
					_, fnn, fok := w.armText(fn, fb)
					if tok && fok && tn == 0 && fnn == 0 {
						r.OK(key+" (enum selection)", pos, "a helper that writes nothing and returns an enum constant (table alignment method: excluded by the statement)")
						continue
					}
				}
			}
			r.Unknown(key, pos, "the flag is read outside a function that writes output")
			continue
		}
		// "conditional constant written once": the arms write nothing and only choose between two string constants
		// that meet in a phi, which is then written
		if xt, ht, ok := w.constantSelection(iff.Block(), tb, fb); ok {
			if strings.ReplaceAll(xt, " />", ">") == ht && xt != ht {
				r.OK(fmt.Sprintf("%s %q/%q", key, xt, ht), pos, "the flag selects between two constants that differ exactly by ' />' versus '>'; the selected constant is written once")
			} else {
				r.Bad(fmt.Sprintf("%s %q/%q", key, xt, ht), pos, "the constants selected by the XHTML flag differ by more than ' />' versus '>'")
			}
			continue
		}
		tt, tn, tok := w.armText(fn, tb)
		ft, fnn, fok := w.armText(fn, fb)
		if !tok || !fok {
			r.Bad(key, pos, "an arm of the XHTML branch does more than constant writes: XHTML changes something other than the spelling of a void element")
			continue
		}
		if tn == 0 && fnn == 0 {
			// selection of an enum constant: both arms flow into a phi of a module named integer type
			sel := false
			for _, s := range tb.Succs {
				for _, ins := range s.Instrs {
					if ph, ok := ins.(*ssa.Phi); ok {
						if nt, ok := ph.Type().(*types.Named); ok && isInteger(nt) && w.InModuleType(nt) {
							sel = true
						}
					}
				}
			}
			if sel {
				r.OK(key+" (enum selection)", pos, "arms write nothing and select an enum constant (table alignment method: excluded by the statement)")
			} else {
				r.Bad(key, pos, "arms write nothing but do not merely select an enum constant")
			}
			continue
		}
		if strings.ReplaceAll(tt, " />", ">") == ft && tt != ft {
			r.OK(fmt.Sprintf("%s %q/%q", key, tt, ft), pos, "arms differ exactly by ' />' versus '>'")
		} else {
			r.Bad(fmt.Sprintf("%s %q/%q", key, tt, ft), pos, "the XHTML arm and the HTML arm differ by more than ' />' versus '>'")
		}
	}

	// ---------- H
	r.Rule("C10-H", "Config.HardWraps is loaded in exactly one place, used only as a branch condition; the only conditions that control reaching that load are the entering flag, IsRaw(), HardLineBreak() and SoftLineBreak() of the text node (so every soft line break consults it), SoftLineBreak()==true among them; its true successor is the block the HardLineBreak()==true edge leads to (the <br> arm).")
	hs := w.flagLoads("HardWraps")
	r.Expect("loads of Config.HardWraps", len(hs), 1)
	if len(hs) > 1 {
		for _, u := range hs {
			r.Unknown(w.FnKey(u.Parent())+": HardWraps", w.InstrPos(u), "more than one reader of HardWraps: each must be reviewed")
		}
	} else if len(hs) == 1 {
		u := hs[0]
		fn := u.Parent()
		key := w.FnKey(fn) + ": HardWraps"
		pos := w.InstrPos(u)
		var iff ssa.Instruction
		fbIf, _, _, ok := flagBranch(u)
		if ok {
			iff = fbIf
		}
		if !ok {
			r.Unknown(key, pos, "the flag is not used solely as a branch condition")
		} else {
			soft := false
			var hardBlock *ssa.BasicBlock
			bad := ""
			for _, cf := range dominatingConds(u.Block()) {
				for _, a := range condAtoms(cf.If.Cond, cf.Truth) {
					switch x := a.V.(type) {
					case *ssa.Parameter:
						if isBool(x.Type()) {
							continue
						}
					case *ssa.Call:
						name := ""
						if x.Common().IsInvoke() {
							name = x.Common().Method.Name()
						} else if cal := x.Common().StaticCallee(); cal != nil {
							name = cal.Name()
						}
						switch name {
						case "SoftLineBreak":
							if a.Truth {
								soft = true
							}
							continue
						case "HardLineBreak":
							if !a.Truth {
								hardBlock = cf.If.Block().Succs[0]
							}
							continue
						case "IsRaw":
							continue
						}
					}
					bad = shortVal(a.V)
				}
			}
			switch {
			case bad != "":
				r.Bad(key, pos, "HardWraps is consulted only under the extra condition "+bad+": soft line breaks failing it get no <br>")
			case !soft:
				r.Bad(key, pos, "HardWraps is not consulted on the SoftLineBreak()==true path")
			case hardBlock == nil || (iff.Block().Succs[0] != hardBlock && !phiTrueFrom(iff, hardBlock)):
				r.Bad(key, pos, "the HardWraps==true arm is not the hard-line-break arm")
			default:
				r.OK(key, pos, "consulted for every soft line break; true arm is the <br> arm")
			}
			// every path on which SoftLineBreak() is found true consults the flag before the function returns: a fast path
			// that recognises the soft break, writes the newline and returns bypasses HardWraps. (Two evaluations of the
			// accessor on the same node agree, so paths on which they disagree are not feasible.)
			isSoftCall := func(v ssa.Value) (ssa.Value, bool) {
				c, isC := v.(*ssa.Call)
				if !isC {
					return nil, false
				}
				if c.Common().IsInvoke() && c.Common().Method.Name() == "SoftLineBreak" {
					return c.Common().Value, true
				}
				if cal := c.Common().StaticCallee(); cal != nil && cal.Name() == "SoftLineBreak" && len(c.Common().Args) > 0 {
					return c.Common().Args[0], true
				}
				return nil, false
			}
			nSoftPaths, nBypass := 0, 0
			var bypassAt ssa.Instruction
			complete := EnumPaths(fn.Blocks[0], map[string]bool{}, isReturnBlock, func(p Path) {
				soft := map[ssa.Value]bool{}
				feasible, sawTrue, sawFlag := true, false, false
				for i, b := range p.Blocks {
					if b == iff.Block() {
						sawFlag = true
					}
					if i >= len(p.Edges) {
						break
					}
					i2, isIf := b.Instrs[len(b.Instrs)-1].(*ssa.If)
					if !isIf {
						continue
					}
					for _, a := range condAtoms(i2.Cond, p.Edges[i] == 0) {
						if recv, isS := isSoftCall(a.V); isS {
							if old, has := soft[recv]; has && old != a.Truth {
								feasible = false
							}
							soft[recv] = a.Truth
							if a.Truth {
								sawTrue = true
							}
						}
					}
				}
				if !feasible || !sawTrue {
					return
				}
				nSoftPaths++
				if !sawFlag {
					nBypass++
					last := p.Blocks[len(p.Blocks)-1]
					bypassAt = last.Instrs[len(last.Instrs)-1]
				}
			})
			skey := w.FnKey(fn) + ": every soft-break path consults HardWraps"
			switch {
			case !complete:
				r.Unknown(skey, pos, "too many paths")
			case nBypass > 0:
				r.Bad(skey, w.InstrPos(bypassAt), fmt.Sprintf("%d of %d feasible paths on which SoftLineBreak() is true return without passing the HardWraps branch: with HardWraps on, that soft break gets no <br>", nBypass, nSoftPaths))
			default:
				r.OK(skey, pos, fmt.Sprintf("%d feasible soft-break paths, all pass the flag's branch", nSoftPaths))
			}
			r.Expect("feasible paths with SoftLineBreak() true", nSoftPaths, 1)
		}
	}

	// ---------- U
	r.Rule("C10-U", "Every load of Config.Unsafe is used only as a branch condition, either in a render function registered for the HTML-block/raw-HTML kinds (true arm: node bytes; false arm: only constants) or immediately in front of the IsDangerousURL test guarding a URL write (C04).")
	us := w.flagLoads("Unsafe")
	r.Expect("loads of Config.Unsafe", len(us), 3)
	rawFuncs := map[*ssa.Function]bool{}
	for _, reg := range w.Registrations() {
		if reg.Kind != nil && (reg.Kind.Name() == "KindHTMLBlock" || reg.Kind.Name() == "KindRawHTML") && reg.Func != nil {
			rawFuncs[reg.Func] = true
		}
	}
	for _, u := range us {
		fn := u.Parent()
		key := w.FnKey(fn) + ": Unsafe"
		pos := w.InstrPos(u)
		refs := liveRefs(u)
		if len(refs) != 1 {
			r.Unknown(key, pos, fmt.Sprintf("the flag has %d uses; expected exactly one branch", len(refs)))
			continue
		}
		_, tbU, fbU, ok := flagBranch(u)
		_ = tbU
		if !ok {
			r.Unknown(key, pos, "the flag is used as data, not as a branch condition")
			continue
		}
		if rawFuncs[fn] {
			// false arm: constants only
			_, _, fok := w.armText(fn, fbU)
			if !fok {
				fok = w.armRegionConstantOnly(fn, fbU)
			}
			if fok {
				r.OK(key+" (raw HTML)", pos, "selects between node bytes and the constant placeholder")
			} else {
				r.Bad(key+" (raw HTML)", pos, "the safe arm does more than write constants")
			}
			continue
		}
		// URL guard: the false successor evaluates IsDangerousURL and branches on it
		fb := fbU
		guard := false
		if fi, ok := fb.Instrs[len(fb.Instrs)-1].(*ssa.If); ok {
			for _, a := range condAtoms(fi.Cond, true) {
				if _, ok := w.isDangerousCall(a.V); ok {
					guard = true
				}
			}
		}
		// the value form `suppressed := !Unsafe && IsDangerousURL(x); if !suppressed { write }`: the unsafe edge and the
		// block that evaluates the predicate meet in a block whose branch tests a phi of (false, predicate)
		var vfJoin *ssa.BasicBlock
		var vfDangerTrue, vfDangerFalse *ssa.BasicBlock
		if !guard && len(fb.Succs) == 1 && fb.Succs[0] == tbU {
			jb := tbU
			if ji, ok := jb.Instrs[len(jb.Instrs)-1].(*ssa.If); ok {
				cond, neg := ji.Cond, false
				if u, ok := cond.(*ssa.UnOp); ok && u.Op == token.NOT {
					cond, neg = u.X, true
				}
				if ph, ok := cond.(*ssa.Phi); ok && ph.Block() == jb && len(ph.Edges) == 2 {
					var fromFlag, fromPred ssa.Value
					for i, p := range jb.Preds {
						if p == fb {
							fromPred = ph.Edges[i]
						} else {
							fromFlag = ph.Edges[i]
						}
					}
					if cb, isC := constBool(fromFlag); isC && !cb && fromPred != nil {
						if _, ok := w.isDangerousCall(fromPred); ok {
							guard = true
							vfJoin = jb
							vfDangerTrue, vfDangerFalse = jb.Succs[0], jb.Succs[1]
							if neg {
								vfDangerTrue, vfDangerFalse = vfDangerFalse, vfDangerTrue
							}
						}
					}
				}
			}
		}
		if guard {
			// the two outcomes of the guard must differ by the URL write only: the write arm W is entered from
			// "Unsafe" and from "not dangerous", has a single successor J, and the "dangerous" edge goes straight to J
			// (no other write, no return on the skipping arm)
			wb := tbU
			var dangerousTrue, dangerousFalse *ssa.BasicBlock
			if vfJoin != nil {
				dangerousTrue, dangerousFalse = vfDangerTrue, vfDangerFalse
				wb = vfDangerFalse
				fb = vfJoin
			} else {
				fi := fb.Instrs[len(fb.Instrs)-1].(*ssa.If)
				dangerousTrue, dangerousFalse = fb.Succs[0], fb.Succs[1]
				if u, ok := fi.Cond.(*ssa.UnOp); ok && u.Op == token.NOT {
					dangerousTrue, dangerousFalse = dangerousFalse, dangerousTrue
				}
			}
			// J = the target of the skipping edge; every path from the write arm must reach J before any return,
			// and the skipping edge itself does nothing (it IS the edge into J)
			j := dangerousTrue
			shapeOK := dangerousFalse == wb && wb != j
			if shapeOK {
				seen := map[*ssa.BasicBlock]bool{}
				stack := []*ssa.BasicBlock{wb}
				for len(stack) > 0 {
					x := stack[len(stack)-1]
					stack = stack[:len(stack)-1]
					if seen[x] || x == j {
						continue
					}
					seen[x] = true
					if isReturnBlock(x) || len(x.Succs) == 0 {
						shapeOK = false
					}
					stack = append(stack, x.Succs...)
				}
				// J must not be entered from anywhere else than the write arm and the skipping edge (no third outcome)
				for _, p := range j.Preds {
					if p != fb && !seen[p] {
						shapeOK = false
					}
				}
			}
			// the guard and the write extracted into a helper of their own: the skipping edge returns at once from a
			// function without results, and the write arm performs the single URL write and returns as well — the two
			// outcomes rejoin at the helper's exit
			if !shapeOK && dangerousFalse == wb && wb != j && fn.Signature.Results().Len() == 0 && len(j.Instrs) == 1 && isReturnBlock(j) {
				sinks, other := 0, false
				seen := map[*ssa.BasicBlock]bool{}
				stack := []*ssa.BasicBlock{wb}
				for len(stack) > 0 {
					x := stack[len(stack)-1]
					stack = stack[:len(stack)-1]
					if seen[x] {
						continue
					}
					seen[x] = true
					for _, ins := range x.Instrs {
						if sa.sinkAt(fn, ins) != nil {
							sinks++
						} else if c, isCall := ins.(ssa.CallInstruction); isCall && c.Common().IsInvoke() {
							other = true
						}
					}
					stack = append(stack, x.Succs...)
				}
				if sinks == 1 && !other {
					shapeOK = true
				}
			}
			if shapeOK {
				r.OK(key+" (URL guard)", pos, "Unsafe || !IsDangerousURL(x); both outcomes rejoin right after the URL write")
			} else {
				r.Bad(key+" (URL guard)", pos, "the outcomes of the dangerous-URL guard do not rejoin right after the URL write (the skipping arm returns early or does something else): safe and unsafe output then differ by more than the URL itself (e.g. a title or attributes are lost)")
			}
		} else {
			r.Unknown(key, pos, "Unsafe is read in a function that is neither a raw-HTML renderer nor a dangerous-URL guard: a new dependency on the option must be reviewed")
		}
	}
}

// InModuleType reports whether the named type is declared in the module.
func (w *World) InModuleType(t *types.Named) bool {
	if t.Obj().Pkg() == nil {
		return false
	}
	_, ok := w.Pkgs[t.Obj().Pkg().Path()]
	return ok
}
