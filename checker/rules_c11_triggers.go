package main

// rules_c11_triggers.go — C11: an extension can only act where its trigger characters are.
//
//	C11-T the trigger sets of the extension parsers are within the characters the statement names
//	C11-D the table extension recognises a delimiter cell only through patterns that require a '-'

import (
	"fmt"
	"go/token"
	"go/types"
	"regexp/syntax"
	"sort"
	"strings"

	"golang.org/x/tools/go/ssa"
)

// byteLiteral evaluates a []byte composite literal of constants (`[]byte{'a', 'b'}`), or nil.
func byteLiteral(v ssa.Value) ([]byte, bool) {
	if isNilConst(v) {
		return nil, true
	}
	sl, ok := v.(*ssa.Slice)
	if !ok {
		return nil, false
	}
	al, ok := sl.X.(*ssa.Alloc)
	if !ok {
		return nil, false
	}
	vals := map[int64]byte{}
	for _, ref := range referrersOf(al) {
		ia, ok := ref.(*ssa.IndexAddr)
		if !ok {
			if ref == ssa.Instruction(sl) {
				continue
			}
			if _, isDbg := ref.(*ssa.DebugRef); isDbg {
				continue
			}
			return nil, false
		}
		idx, ok := constInt(ia.Index)
		if !ok {
			return nil, false
		}
		for _, r2 := range referrersOf(ia) {
			st, ok := r2.(*ssa.Store)
			if !ok {
				return nil, false
			}
			c, ok := constInt(st.Val)
			if !ok {
				return nil, false
			}
			vals[idx] = byte(c)
		}
	}
	out := make([]byte, len(vals))
	for i := range out {
		b, ok := vals[int64(i)]
		if !ok {
			return nil, false
		}
		out[i] = b
	}
	return out, true
}

// triggerSetsOfStatement: the characters the statement says each extension's syntax needs, per parser type of package
// extension (found by type name; a missing type is an unresolved anchor).
var triggerSetsOfStatement = []struct {
	typ, allowed, why string
}{
	{"strikethroughParser", "~", "Strikethrough without '~'"},
	{"taskCheckBoxParser", "[", "TaskList without '['"},
	{"footnoteBlockParser", "[", "Footnote without '[^'"},
	{"footnoteParser", "![", "Footnote without '[^' (the image marker is looked through; the parser itself demands '^' next)"},
	{"definitionListParser", ":", "DefinitionList without ':'"},
	{"definitionDescriptionParser", ":", "DefinitionList without ':'"},
}

func ruleTriggerSets(w *World, r *Report) {
	r.Rule("C11-T", "The core calls an inline parser only at its trigger bytes and a block parser only on lines that start with one. For the extension parsers whose needed characters the statement names (Strikethrough '~', TaskList '[', Footnote '[' (+ '!' for the image look-through), DefinitionList ':'), Trigger() returns a constant set contained in those characters; a parser that also triggers elsewhere can change documents without them. (Typographer and Linkify are not constrained here: their trigger sets are wider than the statement's list by design and the statement records a Linkify deviation.)")
	n := 0
	for _, row := range triggerSetsOfStatement {
		t := w.Named("extension", row.typ)
		key := "extension." + row.typ + ": Trigger() ⊆ {" + row.allowed + "}"
		if t == nil {
			r.Unknown(key, "", "parser type not found")
			continue
		}
		m := w.MethodOf(t, "Trigger")
		if m == nil {
			r.Unknown(key, "", "no Trigger method")
			continue
		}
		n++
		bad := ""
		nret := 0
		for _, b := range m.Blocks {
			ret, ok := b.Instrs[len(b.Instrs)-1].(*ssa.Return)
			if !ok || len(ret.Results) != 1 {
				continue
			}
			nret++
			for _, leaf := range phiLeaves(ret.Results[0]) {
				lit, ok := byteLiteral(leaf)
				if !ok {
					bad = "the trigger set is not a constant byte list"
					continue
				}
				if lit == nil {
					bad = "a nil trigger set: the parser is tried on every line"
				}
				for _, c := range lit {
					if !strings.ContainsRune(row.allowed, rune(c)) {
						bad = fmt.Sprintf("triggers on %q, which is outside the characters the statement names (%s)", c, row.why)
					}
				}
			}
		}
		if nret == 0 {
			r.Unknown(key, w.FnPos(m), "no return found")
		} else if bad == "" {
			r.OK(key, w.FnPos(m), row.why)
		} else {
			r.Bad(key, w.FnPos(m), bad)
		}
	}
	r.Expect("extension parsers with a trigger set named by the statement", n, 3)
}

// requiresByte: every string matched by re contains c.
func requiresByte(re *syntax.Regexp, c rune) bool {
	switch re.Op {
	case syntax.OpLiteral:
		for _, x := range re.Rune {
			if x == c && re.Flags&syntax.FoldCase == 0 {
				return true
			}
		}
		return false
	case syntax.OpCharClass:
		return len(re.Rune) == 2 && re.Rune[0] == c && re.Rune[1] == c
	case syntax.OpCapture, syntax.OpPlus:
		return requiresByte(re.Sub[0], c)
	case syntax.OpRepeat:
		return re.Min >= 1 && requiresByte(re.Sub[0], c)
	case syntax.OpConcat:
		for _, s := range re.Sub {
			if requiresByte(s, c) {
				return true
			}
		}
		return false
	case syntax.OpAlternate:
		for _, s := range re.Sub {
			if !requiresByte(s, c) {
				return false
			}
		}
		return len(re.Sub) > 0
	}
	return false
}

// globalRegexpPattern: the constant pattern a package-level *regexp.Regexp variable is compiled from.
func (w *World) globalRegexpPattern(g *ssa.Global) (string, bool) {
	pat, n := "", 0
	for _, fn := range w.Funcs {
		for _, b := range fn.Blocks {
			for _, ins := range b.Instrs {
				st, ok := ins.(*ssa.Store)
				if !ok || st.Addr != ssa.Value(g) {
					continue
				}
				n++
				c, ok := st.Val.(*ssa.Call)
				if !ok {
					return "", false
				}
				cal := c.Common().StaticCallee()
				if cal == nil || (cal.String() != "regexp.MustCompile" && cal.String() != "regexp.MustCompilePOSIX") {
					return "", false
				}
				s, ok := constString(c.Common().Args[0])
				if !ok {
					return "", false
				}
				pat = s
			}
		}
	}
	return pat, n == 1
}

func ruleTableNeedsDash(w *World, r *Report) {
	r.Rule("C11-D", "Table without '-': in the table extension's delimiter-row parser (the function of the table paragraph transformer that returns the column alignments), every append to the alignment list is dominated by the true edge of a Match of a package-level regular expression, compiled once from a constant pattern, every match of which contains a '-' (decided on the pattern's syntax tree: a literal '-', or one-or-more of it, in every alternative). A delimiter row — and therefore a table — cannot exist in a document without '-'.")
	alignT := w.Named("extension/ast", "Alignment")
	if alignT == nil {
		r.Unknown("extension/ast.Alignment", "", "not found")
		return
	}
	n := 0
	for _, fn := range w.Funcs {
		if w.PkgOf(fn) != modPath+"/extension" || fn.Signature.Results().Len() != 1 {
			continue
		}
		resT := fn.Signature.Results().At(0).Type()
		if sl, ok := resT.Underlying().(*types.Slice); !ok || namedOf(sl.Elem()) != alignT {
			continue
		}
		for _, b := range fn.Blocks {
			for _, ins := range b.Instrs {
				c, ok := ins.(*ssa.Call)
				if !ok || builtinName(c.Common()) != "append" {
					continue
				}
				if !types.Identical(c.Type(), resT) {
					continue
				}
				n++
				key := fmt.Sprintf("%s: alignment append #%d", w.FnKey(fn), n)
				okDash, why := false, "no dominating regular-expression match"
				for _, cf := range dominatingConds(b) {
					// the classification of a column extracted into a helper: `a, ok := helper(col); if !ok {…}` — the
					// helper reports ok == true only under a match of a pattern that requires '-'
					for _, at := range condAtoms(cf.If.Cond, cf.Truth) {
						if ex, isEx := at.V.(*ssa.Extract); isEx && at.Truth {
							if hc, isCall := ex.Tuple.(*ssa.Call); isCall {
								if h := hc.Common().StaticCallee(); h != nil && w.InModule(h) && h.Blocks != nil && w.okOnlyUnderDashMatch(h, ex.Index) {
									okDash = true
								}
							}
						}
					}
					if !cf.Truth {
						continue
					}
					mc, ok := cf.If.Cond.(*ssa.Call)
					if !ok {
						continue
					}
					cal := mc.Common().StaticCallee()
					if cal == nil || !strings.HasPrefix(cal.String(), "(*regexp.Regexp).Match") {
						continue
					}
					ld, ok := mc.Common().Args[0].(*ssa.UnOp)
					if !ok || ld.Op != token.MUL {
						continue
					}
					g, ok := ld.X.(*ssa.Global)
					if !ok {
						continue
					}
					pat, ok := w.globalRegexpPattern(g)
					if !ok {
						why = "the pattern of " + g.Name() + " is not a single constant"
						continue
					}
					re, err := syntax.Parse(pat, syntax.Perl)
					if err != nil {
						why = "pattern does not parse: " + err.Error()
						continue
					}
					if requiresByte(re.Simplify(), '-') {
						okDash = true
					} else {
						why = fmt.Sprintf("pattern %q can match a cell without '-'", pat)
					}
				}
				if okDash {
					r.OK(key, w.InstrPos(c), "dominated by a match of a pattern that requires '-'")
				} else {
					r.Bad(key, w.InstrPos(c), "a delimiter cell is accepted without a proof that it contains '-' ("+why+"): a paragraph without '-' can become a table")
				}
			}
		}
	}
	r.Expect("alignment appends in the delimiter-row parser", n, 1)
	// a non-nil result has at least one column: every returned value is nil or the result of one of those appends
	for _, fn := range w.Funcs {
		if w.PkgOf(fn) != modPath+"/extension" || fn.Signature.Results().Len() != 1 {
			continue
		}
		resT := fn.Signature.Results().At(0).Type()
		if sl, ok := resT.Underlying().(*types.Slice); !ok || namedOf(sl.Elem()) != alignT {
			continue
		}
		key := w.FnKey(fn) + ": a non-nil column list is non-empty"
		bad := ""
		for _, b := range fn.Blocks {
			ret, ok := b.Instrs[len(b.Instrs)-1].(*ssa.Return)
			if !ok || len(ret.Results) != 1 {
				continue
			}
			for _, leaf := range phiLeaves(ret.Results[0]) {
				if isNilConst(leaf) {
					continue
				}
				if c, ok := leaf.(*ssa.Call); ok && builtinName(c.Common()) == "append" {
					continue
				}
				bad = w.InstrPos(ret)
			}
		}
		if bad != "" {
			r.Bad(key, bad, "the delimiter-row parser can return a list that is not nil and has no column (an empty allocation that no append touched): the caller's nil test lets a row of bare pipes through and a document without '-' becomes an (empty) table")
		} else {
			r.OK(key, w.FnPos(fn), "every returned list is nil or the result of an append under a '-' match")
		}
	}
	_ = sort.Strings
}

// ---- C11-L ---------------------------------------------------------------------------------------------------

// literalPrefixOf: the case-sensitive literal a pattern must start with (after ^), "" if none / folded.
func literalPrefixOf(re *syntax.Regexp) string {
	switch re.Op {
	case syntax.OpLiteral:
		if re.Flags&syntax.FoldCase != 0 {
			return ""
		}
		return string(re.Rune)
	case syntax.OpConcat:
		out := ""
		for i, s := range re.Sub {
			if s.Op == syntax.OpBeginText || s.Op == syntax.OpBeginLine {
				if i == 0 {
					continue
				}
				return out
			}
			if s.Op == syntax.OpLiteral && s.Flags&syntax.FoldCase == 0 {
				out += string(s.Rune)
				continue
			}
			if s.Op == syntax.OpCapture && len(s.Sub) == 1 {
				p := literalPrefixOf(s.Sub[0])
				out += p
			}
			return out
		}
		return out
	case syntax.OpCapture:
		if len(re.Sub) == 1 {
			return literalPrefixOf(re.Sub[0])
		}
	}
	return ""
}

func ruleLinkifyNeedsItsTriggers(w *World, r *Report) {
	r.Rule("C11-L", "Linkify without 'www.': (a) the default pattern stored into LinkifyConfig.WWWRegexp is a package-level regular expression compiled from one constant whose syntax tree starts with the case-sensitive literal \"www.\"; (b) in the linkify inline parser every match attempt with the WWWRegexp field is dominated by the true edge of bytes.HasPrefix(line, K) where K is the constant \"www.\" and line is the peeked line itself or a sub-slice of it (no case folding or other transformation in between). A case-insensitive prefix test ('host names are case-insensitive') turns 'WWW.example.com' into a link in a document that contains neither ':' nor '@' nor 'www.'.")
	cfg := w.Named("extension", "LinkifyConfig")
	if cfg == nil {
		r.Unknown("extension.LinkifyConfig", "", "type not found")
		return
	}
	isWWWField := func(v ssa.Value) bool {
		fa, ok := loadOfField(v)
		if !ok {
			return false
		}
		t, f := fieldOfAddr(fa)
		return f != nil && f.Name() == "WWWRegexp" && namedOf(t) != nil && namedOf(t).Obj() == cfg.Obj()
	}
	// (a) defaults stored into the field
	nDef := 0
	for _, fn := range w.Funcs {
		if w.PkgOf(fn) != modPath+"/extension" {
			continue
		}
		for _, b := range fn.Blocks {
			for _, ins := range b.Instrs {
				st, ok := ins.(*ssa.Store)
				if !ok {
					continue
				}
				fa, ok := st.Addr.(*ssa.FieldAddr)
				if !ok {
					continue
				}
				t, f := fieldOfAddr(fa)
				if f == nil || f.Name() != "WWWRegexp" || namedOf(t) == nil || namedOf(t).Obj() != cfg.Obj() {
					continue
				}
				u, ok := st.Val.(*ssa.UnOp)
				if !ok {
					continue // an option setter storing the user's value
				}
				g, ok := u.X.(*ssa.Global)
				if !ok {
					continue
				}
				nDef++
				key := "default WWW pattern " + g.Name()
				pat, ok := w.globalRegexpPattern(g)
				if !ok {
					r.Unknown(key, w.InstrPos(st), "not compiled from a single constant")
					continue
				}
				re, err := syntax.Parse(pat, syntax.Perl)
				if err != nil {
					r.Unknown(key, w.InstrPos(st), "pattern does not parse")
					continue
				}
				if p := literalPrefixOf(re); strings.HasPrefix(p, "www.") {
					r.OK(key, w.InstrPos(st), "starts with the case-sensitive literal \"www.\"")
				} else {
					r.Bad(key, w.InstrPos(st), fmt.Sprintf("the pattern %q does not start with the case-sensitive literal \"www.\" (literal prefix: %q)", pat, p))
				}
			}
		}
	}
	r.Expect("default WWW patterns", nDef, 1)
	// (b) match attempts
	n := 0
	for _, fn := range w.Funcs {
		if w.PkgOf(fn) != modPath+"/extension" {
			continue
		}
		for _, b := range fn.Blocks {
			for _, ins := range b.Instrs {
				c, ok := ins.(*ssa.Call)
				if !ok {
					continue
				}
				cal := c.Common().StaticCallee()
				if cal == nil || !strings.HasPrefix(cal.String(), "(*regexp.Regexp).") || len(c.Common().Args) < 2 || !isWWWField(c.Common().Args[0]) {
					continue
				}
				n++
				key := w.FnKey(fn) + ": WWW match attempt"
				ok2 := false
				for _, cf := range dominatingConds(b) {
					for _, a := range condAtoms(cf.If.Cond, cf.Truth) {
						hp, isCall := a.V.(*ssa.Call)
						if !isCall || !a.Truth {
							continue
						}
						hc := hp.Common().StaticCallee()
						if hc == nil || hc.String() != "bytes.HasPrefix" {
							continue
						}
						k, isK := w.constBytes(hp.Common().Args[1])
						if !isK || k != "www." {
							continue
						}
						// the subject: slices of the peeked line only
						subj := hp.Common().Args[0]
						raw := true
						for depth := 0; depth < 8; depth++ {
							switch x := subj.(type) {
							case *ssa.Slice:
								subj = x.X
								continue
							case *ssa.Phi:
								// line = line[1:] on one arm
								allSlices := true
								var next ssa.Value
								for _, e := range x.Edges {
									if sl, ok := e.(*ssa.Slice); ok {
										next = sl.X
									} else if next == nil {
										next = e
									} else if e != next {
										allSlices = allSlices && (e == next)
									}
								}
								if next == nil {
									raw = false
								}
								subj = next
								continue
							case *ssa.Extract:
								if pk, ok := x.Tuple.(*ssa.Call); ok && callName(pk) == "PeekLine" && x.Index == 0 {
									depth = 99
									continue
								}
								raw = false
							default:
								raw = false
							}
							break
						}
						if raw && sameValue(c.Common().Args[1], hp.Common().Args[0]) {
							ok2 = true
						}
					}
				}
				if ok2 {
					r.OK(key, w.InstrPos(c), "dominated by bytes.HasPrefix(line, \"www.\") on the raw line")
				} else {
					r.Bad(key, w.InstrPos(c), "the WWW pattern is tried without a dominating case-sensitive test for the prefix \"www.\" on the raw line")
				}
			}
		}
	}
	r.Expect("WWW match attempts", n, 1)
}

// dashMatchDominates: blk is dominated by the true edge of a Match of a package-level regexp, compiled from one
// constant, every match of which contains '-'.
func (w *World) dashMatchDominates(blk *ssa.BasicBlock) bool {
	for _, cf := range dominatingConds(blk) {
		if !cf.Truth {
			continue
		}
		mc, ok := cf.If.Cond.(*ssa.Call)
		if !ok {
			continue
		}
		cal := mc.Common().StaticCallee()
		if cal == nil || !strings.HasPrefix(cal.String(), "(*regexp.Regexp).Match") {
			continue
		}
		ld, ok := mc.Common().Args[0].(*ssa.UnOp)
		if !ok || ld.Op != token.MUL {
			continue
		}
		g, ok := ld.X.(*ssa.Global)
		if !ok {
			continue
		}
		pat, ok := w.globalRegexpPattern(g)
		if !ok {
			continue
		}
		re, err := syntax.Parse(pat, syntax.Perl)
		if err == nil && requiresByte(re.Simplify(), '-') {
			return true
		}
	}
	return false
}

// okOnlyUnderDashMatch: in helper h every return whose idx-th result can be true is dominated by a dash-requiring match.
func (w *World) okOnlyUnderDashMatch(h *ssa.Function, idx int) bool {
	sawTrue := false
	for _, b := range h.Blocks {
		ret, ok := b.Instrs[len(b.Instrs)-1].(*ssa.Return)
		if !ok || idx >= len(ret.Results) {
			continue
		}
		for _, leaf := range phiLeaves(ret.Results[idx]) {
			v, isC := constBool(leaf)
			if isC && !v {
				continue
			}
			sawTrue = true
			if !isC || !w.dashMatchDominates(b) {
				return false
			}
		}
	}
	return sawTrue
}
