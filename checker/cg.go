package main

// cg.go — whole-program call graph (VTA over CHA) refined with pass-site edges
// (DESIGN 2.2): calls through function-typed parameters are dropped and replaced by
// edges from whoever passes a function value to the function passed.

import (
	"go/types"
	"sort"

	"golang.org/x/tools/go/callgraph/cha"
	"golang.org/x/tools/go/callgraph/vta"
	"golang.org/x/tools/go/ssa"
)

type EdgeKind int

const (
	EdgeCall EdgeKind = iota // VTA-resolved call
	EdgePass                 // function value passed as an argument (or stored) at a call site
)

type Edge struct {
	To   *ssa.Function
	Kind EdgeKind
	Site ssa.Instruction // call instruction (may be nil for synthetic)
}

type CallGraph struct {
	Out map[*ssa.Function][]Edge
	In  map[*ssa.Function][]*ssa.Function
	// OnceClosures: functions passed to (*sync.Once).Do
	OnceClosures map[*ssa.Function]ssa.CallInstruction
}

// funcValues returns the functions a value statically denotes (closure, func constant, bound method).
func funcValues(v ssa.Value) []*ssa.Function {
	switch x := v.(type) {
	case *ssa.MakeClosure:
		if f, ok := x.Fn.(*ssa.Function); ok {
			return []*ssa.Function{f}
		}
	case *ssa.Function:
		return []*ssa.Function{x}
	case *ssa.ChangeType:
		return funcValues(x.X)
	}
	return nil
}

// viaFuncParam reports whether v (the callee value of a dynamic call) is a function-typed
// Parameter or FreeVar (possibly through loads/conversions).
func viaFuncParam(v ssa.Value) bool {
	switch x := v.(type) {
	case *ssa.Parameter:
		return true
	case *ssa.FreeVar:
		return true
	case *ssa.ChangeType:
		return viaFuncParam(x.X)
	case *ssa.UnOp:
		// load of a captured variable holding a function
		if _, ok := x.X.(*ssa.FreeVar); ok {
			return true
		}
	}
	return false
}

func (w *World) CG() *CallGraph {
	if w.cg != nil {
		return w.cg
	}
	g := vta.CallGraph(w.AllFns, cha.CallGraph(w.Prog))
	cg := &CallGraph{Out: map[*ssa.Function][]Edge{}, In: map[*ssa.Function][]*ssa.Function{}, OnceClosures: map[*ssa.Function]ssa.CallInstruction{}}
	seen := map[[2]*ssa.Function]bool{}
	add := func(a, b *ssa.Function, k EdgeKind, site ssa.Instruction) {
		key := [2]*ssa.Function{a, b}
		if seen[key] {
			return
		}
		seen[key] = true
		cg.Out[a] = append(cg.Out[a], Edge{To: b, Kind: k, Site: site})
		cg.In[b] = append(cg.In[b], a)
	}
	for fn, n := range g.Nodes {
		if fn == nil {
			continue
		}
		for _, e := range n.Out {
			if e.Site != nil {
				com := e.Site.Common()
				if !com.IsInvoke() {
					if _, isFn := com.Value.Type().Underlying().(*types.Signature); isFn && viaFuncParam(com.Value) {
						continue // call through a function-typed parameter: covered by pass-site edges
					}
				}
			}
			var site ssa.Instruction
			if e.Site != nil {
				site = e.Site
			}
			add(fn, e.Callee.Func, EdgeCall, site)
		}
	}
	for fn := range w.AllFns {
		for _, b := range fn.Blocks {
			for _, ins := range b.Instrs {
				c, ok := ins.(ssa.CallInstruction)
				if !ok {
					continue
				}
				com := c.Common()
				isOnce := false
				if cal := com.StaticCallee(); cal != nil && cal.String() == "(*sync.Once).Do" {
					isOnce = true
				}
				for _, a := range com.Args {
					for _, f := range funcValues(a) {
						add(fn, f, EdgePass, ins)
						if isOnce {
							// once.Do(obj.method): the value is a bound-method wrapper; the initialiser is the method itself
							if real := w.unwrapBound(f); real != f {
								add(fn, real, EdgePass, ins)
								f = real
							}
							cg.OnceClosures[f] = c
						}
					}
				}
			}
		}
	}
	for _, es := range cg.Out {
		sort.Slice(es, func(i, j int) bool { return es[i].To.String() < es[j].To.String() })
	}
	w.cg = cg
	return cg
}

// Reach computes the functions reachable from the roots. skip: functions that are not entered.
// The returned map gives, for each reached function, its BFS parent (nil for roots).
func (cg *CallGraph) Reach(roots []*ssa.Function, skip map[*ssa.Function]bool) map[*ssa.Function]*ssa.Function {
	parent := map[*ssa.Function]*ssa.Function{}
	var q []*ssa.Function
	for _, r := range roots {
		if r == nil {
			continue
		}
		if _, ok := parent[r]; !ok {
			parent[r] = nil
			q = append(q, r)
		}
	}
	for len(q) > 0 {
		f := q[0]
		q = q[1:]
		for _, e := range cg.Out[f] {
			if skip != nil && skip[e.To] {
				continue
			}
			if _, ok := parent[e.To]; ok {
				continue
			}
			parent[e.To] = f
			q = append(q, e.To)
		}
	}
	return parent
}

// PathTo renders the call path root -> ... -> fn from a Reach result.
func (w *World) PathTo(parent map[*ssa.Function]*ssa.Function, fn *ssa.Function) []string {
	var rev []string
	for f := fn; f != nil; f = parent[f] {
		rev = append(rev, w.FnKey(f))
		if parent[f] == nil {
			break
		}
	}
	for i, j := 0, len(rev)-1; i < j; i, j = i+1, j-1 {
		rev[i], rev[j] = rev[j], rev[i]
	}
	return rev
}

// ---- entry points, found by role -----------------------------------------------

type Entries struct {
	Convert []*ssa.Function
	Parse   []*ssa.Function
	Render  []*ssa.Function
}

func (w *World) Entries() Entries {
	if v, ok := w.memo["entries"]; ok {
		return v.(Entries)
	}
	var e Entries
	collect := func(pkg, iface, method string) []*ssa.Function {
		var out []*ssa.Function
		it := w.Iface(pkg, iface)
		for _, t := range w.Implementers(it) {
			if f := w.MethodOf(t, method); f != nil && w.InModule(f) {
				out = append(out, f)
			}
		}
		return out
	}
	e.Convert = collect("", "Markdown", "Convert")
	e.Parse = collect("parser", "Parser", "Parse")
	e.Render = collect("renderer", "Renderer", "Render")
	w.memo["entries"] = e
	return e
}

func (e Entries) All() []*ssa.Function {
	var out []*ssa.Function
	out = append(out, e.Convert...)
	out = append(out, e.Parse...)
	out = append(out, e.Render...)
	return out
}

// OnceSkip returns the set of Once-closures (to be excluded from "per call" reachability).
func (cg *CallGraph) OnceSkip() map[*ssa.Function]bool {
	m := map[*ssa.Function]bool{}
	for f := range cg.OnceClosures {
		m[f] = true
	}
	return m
}
