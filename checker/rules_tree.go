package main

// rules_tree.go — C05 / C13: the intrusive child list of ast.BaseNode and the Walk protocol.
//
// The mutators are small; their CFG is cut at loop headers into acyclic segments, every path of every
// segment is enumerated, and along each path the effects on the link fields are recorded with a
// path-wise value numbering of the accessor calls (x.NextSibling() evaluates to what the same path
// stored in x.next, otherwise to the opaque initial value next0(x)).

import (
	"fmt"
	"go/token"
	"go/types"
	"sort"
	"strings"

	"golang.org/x/tools/go/ssa"
)

// treeRuleSet: the rules about the tree mutators (shared by C05, C13 and — because the footnote list is ordered by
// SortChildren — C16).
var treeRuleSet = []func(*World, *Report){rulePairedEffects, ruleDetachClearsLinks, ruleEndsHaveNoOutwardLink, ruleLinkSymmetry, ruleEndsRecomputed, ruleDetachAliasing, ruleDetachBeforeAttach, ruleRawSetterCallers, ruleNilReference, ruleForeignGuard}

func init() {
	treeRules := treeRuleSet
	_ = []func(*World, *Report){rulePairedEffects, ruleDetachClearsLinks, ruleEndsHaveNoOutwardLink, ruleLinkSymmetry, ruleEndsRecomputed, ruleDetachAliasing, ruleDetachBeforeAttach, ruleRawSetterCallers, ruleNilReference, ruleForeignGuard}
	register(&Property{
		ID:      "C05",
		Level:   "other",
		Explain: "Decides the link/count clause only: (P) along every path of every mutator of ast.BaseNode the change of childCount equals the number of nodes attached (SetParent(self)) minus the number detached (SetParent(nil)); a reset to zero happens only in the function that detaches every child in a loop over the child list; (L) on every path each x.next = y written is matched by y.prev = x (written on the same path or untouched because y was x's neighbour already) and vice versa; (D) a node is detached from its old parent before it is attached; (W) the raw link setters are called only inside package ast, so every other package can change the tree only through the checked mutators. Since Parse builds the tree exclusively through these mutators, ChildCount/Parent/sibling links agree with the child sequence of every parsed tree. Does NOT decide positions within the source, ordering of lines/segments, leftover bookkeeping nodes, legal placement of kinds, link nesting or heading/emphasis levels (values computed from the input).",
		Rules:   append(append([]func(*World, *Report){}, treeRules...), ruleLevelsBounded, ruleStaleCursorModule, ruleLinkSearchComplete, ruleUnlinkedOpenerLeavesTree, ruleReplacementFromCurrentNode),
	})
	register(&Property{
		ID:      "C13",
		Level:   "other",
		Explain: "Decides, for the mutation API: (P) count/attach balance on every path of every mutator; (L) link symmetry on every path, including each iteration of SortChildren; (D) detach-before-attach; (N) a reference node that one insertion method accepts as nil is never dereferenced unguarded by its sibling; (W) raw setters only inside package ast. For Walk: (K) a finite-state check of the walker helper over the abstract outcomes {error, Stop, SkipChildren, Continue}: the first event is walker(n, true); after an error or Stop no further call happens and that error (with the walker's status or Stop) is returned; children are visited only when the status is not SkipChildren, in a loop from FirstChild along NextSibling, each recursive result is tested; exactly one walker(n, false) follows and its error/Stop is propagated; otherwise (Continue, nil). Does NOT decide SortChildren's ordering (depends on the comparator) or insertion into a node's own subtree (excluded by the statement).",
		Rules:   append(append([]func(*World, *Report){}, treeRules...), ruleWalkProtocol, ruleSortInsertionPoint, ruleEndsFollowRemoval, ruleMutatorsDetachOnlyTheirOwn),
	})
}

// ---- mutators by role ------------------------------------------------------------------------------

// treeFields identifies the link fields of ast.BaseNode by type and usage: the int field is the count,
// the Node-typed fields returned by Parent/FirstChild/LastChild/NextSibling/PreviousSibling.
type treeModel struct {
	base   *types.Named
	field  map[string]*types.Var // "count","first","last","next","prev","parent"
	byVar  map[*types.Var]string
	nodeT  *types.Named
	isoFns map[*ssa.Function]bool // isolating helpers (ensureIsolated)
}

func (w *World) treeModel() *treeModel {
	if v, ok := w.memo["treemodel"]; ok {
		if v == nil {
			return nil
		}
		return v.(*treeModel)
	}
	w.memo["treemodel"] = nil
	tm := &treeModel{base: w.Named("ast", "BaseNode"), nodeT: w.Named("ast", "Node"), field: map[string]*types.Var{}, byVar: map[*types.Var]string{}, isoFns: map[*ssa.Function]bool{}}
	if tm.base == nil || tm.nodeT == nil {
		return nil
	}
	getter := func(method, role string) {
		m := w.DeclaredMethod(tm.base, method)
		if m == nil || len(m.Blocks) != 1 {
			return
		}
		ret, ok := m.Blocks[0].Instrs[len(m.Blocks[0].Instrs)-1].(*ssa.Return)
		if !ok || len(ret.Results) != 1 {
			return
		}
		if fa, ok := loadOfField(ret.Results[0]); ok {
			_, f := fieldOfAddr(fa)
			tm.field[role] = f
			tm.byVar[f] = role
		}
	}
	getter("ChildCount", "count")
	getter("FirstChild", "first")
	getter("LastChild", "last")
	getter("NextSibling", "next")
	getter("PreviousSibling", "prev")
	getter("Parent", "parent")
	if len(tm.field) != 6 {
		return nil
	}
	// isolating helpers: functions of package ast with one Node parameter that invoke RemoveChild
	for _, fn := range w.Funcs {
		if w.PkgOf(fn) != modPath+"/ast" || fn.Signature.Recv() != nil || len(fn.Params) != 1 || !types.Identical(fn.Params[0].Type(), tm.nodeT) {
			continue
		}
		for _, b := range fn.Blocks {
			for _, ins := range b.Instrs {
				if c, ok := ins.(ssa.CallInstruction); ok && c.Common().IsInvoke() && c.Common().Method.Name() == "RemoveChild" {
					tm.isoFns[fn] = true
				}
			}
		}
	}
	w.memo["treemodel"] = tm
	return tm
}

// mutators: methods of BaseNode that store to count/first/last (directly).
func (w *World) treeMutators(tm *treeModel) []*ssa.Function {
	var out []*ssa.Function
	for i := 0; i < tm.base.NumMethods(); i++ {
		m := w.Prog.FuncValue(tm.base.Method(i))
		if m == nil || m.Blocks == nil {
			continue
		}
		hit := false
		for _, b := range m.Blocks {
			for _, ins := range b.Instrs {
				if st, ok := ins.(*ssa.Store); ok {
					if fa, ok := st.Addr.(*ssa.FieldAddr); ok && fa.X == ssa.Value(m.Params[0]) {
						if _, f := fieldOfAddr(fa); tm.byVar[f] == "count" || tm.byVar[f] == "first" || tm.byVar[f] == "last" {
							hit = true
						}
					}
				}
				// or re-links children through the raw setters
				if c, ok := ins.(ssa.CallInstruction); ok && c.Common().IsInvoke() {
					switch c.Common().Method.Name() {
					case "SetNextSibling", "SetPreviousSibling", "SetParent":
						hit = true
					}
				}
			}
		}
		if hit {
			out = append(out, m)
		}
	}
	sort.Slice(out, func(i, j int) bool { return out[i].String() < out[j].String() })
	return out
}

// treeLinkHelpers: functions of package ast other than BaseNode's methods that call the raw sibling-link setters (a
// re-linking step factored out of a mutator). Link symmetry is checked inside them as well.
func (w *World) treeLinkHelpers(tm *treeModel) []*ssa.Function {
	isMut := map[*ssa.Function]bool{}
	for _, m := range w.treeMutators(tm) {
		isMut[m] = true
	}
	var out []*ssa.Function
	for _, fn := range w.Funcs {
		if w.PkgOf(fn) != modPath+"/ast" || isMut[fn] || fn.Blocks == nil {
			continue
		}
		if recv := fn.Signature.Recv(); recv != nil {
			if n := namedOf(recv.Type()); n != nil && n.Obj() == tm.base.Obj() {
				continue // the raw setters themselves
			}
		}
		hit := false
		for _, b := range fn.Blocks {
			for _, ins := range b.Instrs {
				if c, ok := ins.(ssa.CallInstruction); ok && c.Common().IsInvoke() {
					switch c.Common().Method.Name() {
					case "SetNextSibling", "SetPreviousSibling":
						hit = true
					}
				}
			}
		}
		if hit {
			out = append(out, fn)
		}
	}
	sort.Slice(out, func(i, j int) bool { return out[i].String() < out[j].String() })
	return out
}

// ---- segments ------------------------------------------------------------------------------------------

type Segment struct {
	Start *ssa.BasicBlock
	Loop  bool // starts at a loop header
}

// segmentsOf cuts fn at loop headers.
func segmentsOf(fn *ssa.Function) ([]Segment, map[*ssa.BasicBlock]bool) {
	headers := map[*ssa.BasicBlock]bool{}
	for _, l := range findLoops(fn) {
		headers[l.Header] = true
	}
	segs := []Segment{{fn.Blocks[0], false}}
	for _, b := range fn.Blocks {
		if headers[b] && b != fn.Blocks[0] {
			segs = append(segs, Segment{b, true})
		}
	}
	return segs, headers
}

// enumSegmentPaths enumerates the acyclic paths of a segment: they end at a return or at (re)entering a loop header.
func enumSegmentPaths(seg Segment, headers map[*ssa.BasicBlock]bool, visit func(Path, map[string]bool)) bool {
	// EnumPaths stops at stop(b); we want to stop when reaching a header that is not the start at position 0.
	first := true
	return EnumPaths(seg.Start, map[string]bool{}, func(b *ssa.BasicBlock) bool {
		if first {
			first = false
			return isReturnBlock(b) && len(b.Succs) == 0
		}
		return headers[b] || isReturnBlock(b)
	}, func(p Path) {
		visit(p, pathFacts(p))
	})
}

// EnumPaths treats a revisit of the start header as a cycle and never reports it; segments that loop back
// to their own header are therefore enumerated with the header duplicated as a virtual end.
func enumSegmentPathsWithBackedge(seg Segment, headers map[*ssa.BasicBlock]bool, visit func(Path, map[string]bool, bool)) bool {
	count := 0
	ok := true
	var blocks []*ssa.BasicBlock
	var edges []int
	on := map[*ssa.BasicBlock]bool{}
	var rec func(b *ssa.BasicBlock, facts map[string]bool, depth int)
	rec = func(b *ssa.BasicBlock, facts map[string]bool, depth int) {
		if !ok {
			return
		}
		if depth > 0 && (headers[b] || on[b]) {
			// reached a loop header (possibly our own): segment ends before it
			count++
			if count > maxPaths {
				ok = false
				return
			}
			visit(Path{append([]*ssa.BasicBlock{}, blocks...), append([]int{}, edges[:len(edges)-1]...), b}, facts, true)
			return
		}
		blocks = append(blocks, b)
		on[b] = true
		defer func() {
			blocks = blocks[:len(blocks)-1]
			on[b] = false
		}()
		if len(b.Succs) == 0 {
			count++
			if count > maxPaths {
				ok = false
				return
			}
			visit(Path{append([]*ssa.BasicBlock{}, blocks...), append([]int{}, edges...), nil}, facts, false)
			return
		}
		var iff *ssa.If
		iff, _ = b.Instrs[len(b.Instrs)-1].(*ssa.If)
		for i, s := range b.Succs {
			nf := facts
			if iff != nil && len(b.Succs) == 2 && b.Succs[0] != b.Succs[1] {
				var conflict bool
				nf, conflict = extendFacts(facts, iff.Cond, i == 0)
				if conflict {
					continue
				}
			}
			edges = append(edges, i)
			rec(s, nf, depth+1)
			edges = edges[:len(edges)-1]
		}
	}
	rec(seg.Start, map[string]bool{}, 0)
	return ok
}

// eqKey canonicalises an equality atom.
func eqKey(a, b ssa.Value) string {
	ka, kb := symKeyStatic(a), symKeyStatic(b)
	if ka > kb {
		ka, kb = kb, ka
	}
	return "eq:" + ka + "," + kb
}

func symKeyStatic(v ssa.Value) string {
	v = stripMakeIface(v)
	if isNilConst(v) {
		return "nil"
	}
	return condKey(v)
}

// extendFacts adds the atoms of cond==truth; reports a contradiction with earlier facts.
func extendFacts(facts map[string]bool, cond ssa.Value, truth bool) (map[string]bool, bool) {
	nf := make(map[string]bool, len(facts)+2)
	for k, v := range facts {
		nf[k] = v
	}
	conflict := false
	set := func(k string, v bool) {
		if old, ok := nf[k]; ok && old != v {
			conflict = true
		}
		nf[k] = v
	}
	for _, a := range condAtoms(cond, truth) {
		set(condKey(a.V), a.Truth)
		if bo, ok := a.V.(*ssa.BinOp); ok && (bo.Op == token.EQL || bo.Op == token.NEQ) {
			set(eqKey(bo.X, bo.Y), (bo.Op == token.EQL) == a.Truth)
		}
	}
	return nf, conflict
}

func pathFacts(p Path) map[string]bool {
	facts := map[string]bool{}
	for i := 0; i < len(p.Edges) && i < len(p.Blocks); i++ {
		b := p.Blocks[i]
		if iff, ok := b.Instrs[len(b.Instrs)-1].(*ssa.If); ok && len(b.Succs) == 2 {
			facts, _ = extendFacts(facts, iff.Cond, p.Edges[i] == 0)
		}
	}
	return facts
}

// ---- path effects with value numbering --------------------------------------------------------------

type pathState struct {
	tm       *treeModel
	fn       *ssa.Function
	facts    map[string]bool
	heap     map[string]string // "sym|field" -> sym
	written  []string          // keys written, in order
	count    int               // delta of childCount
	reset    bool
	attach   []string // symbols whose parent was set to self
	detach   []string // symbols whose parent was set to nil
	calls    []string // balanced mutator calls (for the report)
	isolated map[string]bool
	order    []string // event log
	bad      []string
	eval     map[ssa.Value]string // accessor results as evaluated when reached
	path     Path
}

// symAt gives the value number of v at the end of the path (join phis resolved along the path).
func (ps *pathState) symAt(v ssa.Value) string {
	v0 := stripMakeIface(resolveAlong(stripMakeIface(v), ps.path.Blocks))
	if s, ok := ps.eval[v0]; ok {
		return s
	}
	return ps.sym(v0)
}

func (ps *pathState) self(v ssa.Value) bool {
	v = stripMakeIface(v)
	if v == ssa.Value(ps.fn.Params[0]) {
		return true
	}
	if len(ps.fn.Params) > 1 && v == ssa.Value(ps.fn.Params[1]) && types.Identical(v.Type(), ps.tm.nodeT) && ps.fn.Params[1].Name() == "self" {
		return true
	}
	return false
}

// sym gives the value number of a node-valued expression on this path.
func (ps *pathState) sym(v ssa.Value) string {
	v = stripMakeIface(v)
	if isNilConst(v) {
		return "nil"
	}
	if ps.self(v) {
		return "self"
	}
	switch x := v.(type) {
	case *ssa.Call:
		com := x.Common()
		if com.IsInvoke() && len(com.Args) == 0 {
			role := map[string]string{"NextSibling": "next", "PreviousSibling": "prev", "Parent": "parent", "FirstChild": "first", "LastChild": "last"}[com.Method.Name()]
			if role != "" {
				return ps.read(ps.sym(com.Value), role)
			}
		}
	case *ssa.UnOp:
		if fa, ok := loadOfField(x); ok && ps.self(fa.X) {
			if _, f := fieldOfAddr(fa); ps.tm.byVar[f] != "" {
				return ps.read("self", ps.tm.byVar[f])
			}
		}
	}
	return symName(v)
}

// symName gives a deterministic, address-free name for an opaque node value.
func symName(v ssa.Value) string {
	switch x := v.(type) {
	case *ssa.Parameter:
		return x.Name()
	case *ssa.Phi:
		if x.Comment != "" {
			return x.Comment + "@" + x.Name()
		}
	}
	return v.Name()
}

// The heap is consulted at the time the accessor is evaluated; because path effects are replayed in
// instruction order, each accessor call instruction is evaluated once, when it is reached.
func (ps *pathState) read(s, role string) string {
	if v, ok := ps.heap[s+"|"+role]; ok {
		return v
	}
	return role + "0(" + s + ")"
}

func (ps *pathState) write(s, role, val string) {
	k := s + "|" + role
	ps.heap[k] = val
	ps.written = append(ps.written, k)
}

func (ps *pathState) isNil(s string) bool {
	if s == "nil" {
		return true
	}
	if v, ok := ps.facts["nilsym:"+s]; ok {
		return v
	}
	return false
}

// run replays the instructions of the path in order.
func (w *World) runTreePath(tm *treeModel, fn *ssa.Function, p Path, facts map[string]bool) *pathState {
	ps := &pathState{tm: tm, fn: fn, facts: map[string]bool{}, heap: map[string]string{}, isolated: map[string]bool{}}
	evaluated := map[ssa.Value]string{}
	ps.eval, ps.path = evaluated, p
	symOf := func(v ssa.Value) string {
		v0 := stripMakeIface(resolveAlong(stripMakeIface(v), p.Blocks))
		if s, ok := evaluated[v0]; ok {
			return s
		}
		return ps.sym(v0)
	}
	for i, b := range p.Blocks {
		for _, ins := range b.Instrs {
			switch x := ins.(type) {
			case *ssa.Call:
				com := x.Common()
				if com.IsInvoke() {
					recv := symOf(com.Value)
					switch com.Method.Name() {
					case "NextSibling", "PreviousSibling", "Parent", "FirstChild", "LastChild":
						role := map[string]string{"NextSibling": "next", "PreviousSibling": "prev", "Parent": "parent", "FirstChild": "first", "LastChild": "last"}[com.Method.Name()]
						evaluated[x] = ps.read(recv, role)
					case "SetNextSibling":
						ps.write(recv, "next", symOf(com.Args[0]))
					case "SetPreviousSibling":
						ps.write(recv, "prev", symOf(com.Args[0]))
					case "SetParent":
						val := symOf(com.Args[0])
						ps.write(recv, "parent", val)
						if val == "self" {
							ps.attach = append(ps.attach, recv)
							ps.order = append(ps.order, "attach:"+recv)
						} else if val == "nil" {
							ps.detach = append(ps.detach, recv)
						} else {
							ps.bad = append(ps.bad, "SetParent with a value that is neither self nor nil")
						}
					case "RemoveChild", "AppendChild", "InsertBefore", "InsertAfter", "ReplaceChild", "RemoveChildren":
						ps.calls = append(ps.calls, com.Method.Name()+" on "+recv)
					}
					continue
				}
				cal := com.StaticCallee()
				if cal == nil {
					continue
				}
				if tm.isoFns[cal] {
					s := symOf(com.Args[0])
					ps.isolated[s] = true
					ps.order = append(ps.order, "isolate:"+s)
					// after isolation the node has no parent and no siblings
					ps.heap[s+"|parent"] = "nil"
					ps.heap[s+"|next"] = "nil"
					ps.heap[s+"|prev"] = "nil"
					continue
				}
				// a straight-line helper of package ast that only calls the raw link setters on its parameters (e.g. "forget
				// parent and both siblings"): its effects are replayed with the arguments substituted
				if w.PkgOf(cal) == modPath+"/ast" && len(cal.Blocks) == 1 && cal.Signature.Recv() == nil {
					subst := func(v ssa.Value) (string, bool) {
						v = stripMakeIface(v)
						if isNilConst(v) {
							return "nil", true
						}
						for pi, pp := range cal.Params {
							if v == ssa.Value(pp) && pi < len(com.Args) {
								return symOf(com.Args[pi]), true
							}
						}
						return "", false
					}
					type eff struct{ recv, role, val string }
					var effs []eff
					okInline := true
					for _, hi := range cal.Blocks[0].Instrs {
						hc, isCall := hi.(*ssa.Call)
						if !isCall {
							continue
						}
						hcom := hc.Common()
						role := map[string]string{"SetNextSibling": "next", "SetPreviousSibling": "prev", "SetParent": "parent"}[hcom.Method.Name()]
						if !hcom.IsInvoke() || role == "" {
							okInline = false
							break
						}
						rv, ok1 := subst(hcom.Value)
						av, ok2 := subst(hcom.Args[0])
						if !ok1 || !ok2 {
							okInline = false
							break
						}
						effs = append(effs, eff{rv, role, av})
					}
					if okInline && len(effs) > 0 {
						for _, e := range effs {
							ps.write(e.recv, e.role, e.val)
							if e.role == "parent" {
								if e.val == "self" {
									ps.attach = append(ps.attach, e.recv)
									ps.order = append(ps.order, "attach:"+e.recv)
								} else if e.val == "nil" {
									ps.detach = append(ps.detach, e.recv)
								}
							}
						}
						continue
					}
				}
				if cal.Signature.Recv() != nil && namedOf(cal.Signature.Recv().Type()) == tm.base && len(com.Args) > 0 && com.Args[0] == ssa.Value(fn.Params[0]) {
					switch cal.Name() {
					case "RemoveChild", "AppendChild", "InsertBefore", "InsertAfter", "ReplaceChild", "RemoveChildren":
						ps.calls = append(ps.calls, cal.Name()+" on self")
						if cal.Name() == "AppendChild" || strings.HasPrefix(cal.Name(), "Insert") {
							ps.order = append(ps.order, "delegate-attach")
						}
					}
				}
			case *ssa.UnOp:
				if fa, ok := loadOfField(x); ok && ps.self(fa.X) {
					if _, f := fieldOfAddr(fa); tm.byVar[f] != "" && tm.byVar[f] != "count" {
						evaluated[x] = ps.read("self", tm.byVar[f])
					}
				}
			case *ssa.Store:
				fa, ok := x.Addr.(*ssa.FieldAddr)
				if !ok || !ps.self(fa.X) {
					continue
				}
				_, f := fieldOfAddr(fa)
				switch tm.byVar[f] {
				case "count":
					if c, ok := constInt(x.Val); ok && c == 0 {
						ps.reset = true
					} else if bo, ok := x.Val.(*ssa.BinOp); ok {
						if c, ok := constInt(bo.Y); ok && isLoadOf(bo.X, fa) {
							if bo.Op == token.ADD {
								ps.count += int(c)
							} else if bo.Op == token.SUB {
								ps.count -= int(c)
							} else {
								ps.bad = append(ps.bad, "childCount updated by an unsupported operation")
							}
						} else {
							ps.bad = append(ps.bad, "childCount set to a non-incremental value")
						}
					} else {
						ps.bad = append(ps.bad, "childCount set to a non-incremental value")
					}
				case "first", "last":
					ps.write("self", tm.byVar[f], symOf(x.Val))
				case "next", "prev", "parent":
					ps.write("self*", tm.byVar[f], symOf(x.Val))
				}
			}
		}
		// nil facts of node symbols from the branch taken out of this block
		if i < len(p.Edges) {
			if iff, ok := b.Instrs[len(b.Instrs)-1].(*ssa.If); ok && len(b.Succs) == 2 {
				for _, a := range condAtoms(iff.Cond, p.Edges[i] == 0) {
					if xv, isNil, isT := nilTest(a.V); isT {
						ps.facts["nilsym:"+symOf(xv)] = isNil == a.Truth
					}
				}
			}
		}
	}
	return ps
}

// ---- C05-P / C13-P --------------------------------------------------------------------------------------

func rulePairedEffects(w *World, r *Report) {
	r.Rule("C05-P", "Along every path of every mutator of ast.BaseNode (CFG cut at loop headers): delta(childCount) = #(x.SetParent(self)) - #(x.SetParent(nil)); calls of other mutators are balanced by induction; childCount = 0 is accepted only together with firstChild = lastChild = nil in the function whose loop over firstChild/NextSibling clears the parent of every child.")
	tm := w.treeModel()
	if tm == nil {
		r.Unknown("ast.BaseNode", "", "tree model (count/first/last/next/prev/parent fields and accessors) not recognised")
		return
	}
	muts := w.treeMutators(tm)
	r.Expect("mutators of ast.BaseNode", len(muts), 2)
	nPaths := 0
	for _, fn := range muts {
		key := w.FnKey(fn)
		segs, headers := segmentsOf(fn)
		bad := 0
		hasReset := false
		var loopDetaches, loopPaths int
		for _, seg := range segs {
			complete := enumSegmentPathsWithBackedge(seg, headers, func(p Path, facts map[string]bool, toHeader bool) {
				nPaths++
				ps := w.runTreePath(tm, fn, p, facts)
				for _, b := range ps.bad {
					bad++
					r.Bad(key+": "+b, w.FnPos(fn), b)
				}
				if ps.reset {
					hasReset = true
					// must also clear first/last on the same path
					if ps.heap["self|first"] != "nil" || ps.heap["self|last"] != "nil" {
						bad++
						r.Bad(key+": reset without clearing first/last", w.FnPos(fn), "childCount = 0 on a path that does not set firstChild and lastChild to nil")
					}
					return
				}
				if seg.Loop && len(ps.detach) > 0 && ps.count == 0 && len(ps.attach) == 0 {
					loopDetaches++
				}
				if seg.Loop {
					loopPaths++
				}
				delta := len(ps.attach) - len(ps.detach)
				if ps.count != delta {
					if seg.Loop && ps.count == 0 && len(ps.attach) == 0 {
						return // judged below together with the reset
					}
					bad++
					var ids []string
					for _, b := range p.Blocks {
						ids = append(ids, fmt.Sprint(b.Index))
					}
					last := p.Blocks[len(p.Blocks)-1]
					r.Bad(fmt.Sprintf("%s: path count%+d attach%+d", key, ps.count, delta), w.InstrPos(last.Instrs[len(last.Instrs)-1]),
						fmt.Sprintf("childCount changes by %+d but %d node(s) are attached and %d detached on this path (blocks %s; delegated calls: %s)", ps.count, len(ps.attach), len(ps.detach), strings.Join(ids, ">"), strings.Join(ps.calls, ", ")))
				}
			})
			if !complete {
				r.Unknown(key+": path bound", w.FnPos(fn), "too many paths")
			}
		}
		if loopDetaches > 0 && !hasReset {
			bad++
			r.Bad(key+": detaching loop without reset", w.FnPos(fn), "children are detached in a loop but childCount is not reset")
		}
		if hasReset && loopDetaches == 0 {
			bad++
			r.Bad(key+": reset without detaching loop", w.FnPos(fn), "childCount is reset to 0 but the children's parent is not cleared in a loop over the child list")
		}
		if bad == 0 {
			r.OK(key, w.FnPos(fn), "count and attach/detach effects are paired on every path")
		}
	}
	r.Expect("mutator paths enumerated", nPaths, 12)
}

// ---- C13-X detached nodes carry no links ----------------------------------------------------------------------

// ruleDetachClearsLinks: AppendChild/InsertBefore rely on a detached node having nil sibling links (AppendChild on a
// non-empty parent never touches the insertee's next link). So on every path on which a mutator clears a node's
// parent, that node's next and previous links must be nil when the path ends (written nil on the path, or known nil
// from a branch fact).
func ruleDetachClearsLinks(w *World, r *Report) {
	r.Rule("C13-X", "On every path of every mutator of ast.BaseNode (CFG cut at loop headers) on which x.SetParent(nil) is executed, x's next and previous sibling links are nil at the end of the path: a detached node carries no stale links (AppendChild does not clear the insertee's next link, so a stale link splices the old siblings into the new parent).")
	tm := w.treeModel()
	if tm == nil {
		r.Unknown("ast.BaseNode", "", "tree model not recognised")
		return
	}
	n := 0
	for _, fn := range w.treeMutators(tm) {
		key := w.FnKey(fn)
		segs, headers := segmentsOf(fn)
		bad := map[string]bool{}
		detaches := 0
		for _, seg := range segs {
			complete := enumSegmentPathsWithBackedge(seg, headers, func(p Path, facts map[string]bool, toHeader bool) {
				ps := w.runTreePath(tm, fn, p, facts)
				for _, s := range ps.detach {
					detaches++
					for _, role := range []string{"next", "prev"} {
						v := ps.read(s, role)
						if !ps.isNil(v) {
							k := fmt.Sprintf("%s: %s link of the detached node %s", key, role, shortSym(s))
							if !bad[k] {
								bad[k] = true
								last := p.Blocks[len(p.Blocks)-1]
								r.Bad(k, w.InstrPos(last.Instrs[len(last.Instrs)-1]), fmt.Sprintf("a path clears the parent of %s but leaves its %s link (%s)", s, role, v))
							}
						}
					}
				}
			})
			if !complete {
				r.Unknown(key+": path bound", w.FnPos(fn), "too many paths")
			}
		}
		if detaches > 0 {
			n++
			if len(bad) == 0 {
				r.OK(key, w.FnPos(fn), "every detached node has both sibling links cleared on the same path")
			}
		}
	}
	r.Expect("mutators that detach a node directly", n, 1)
}

// ---- C13-H the ends of the child list have no outward link ------------------------------------------------------

// ruleEndsHaveNoOutwardLink: FirstChild().PreviousSibling() and LastChild().NextSibling() are nil. Path rule with a
// loop invariant for a head carried by a loop (SortChildren keeps its sorted prefix in a variable and stores it into
// firstChild after the loop): the carried head has a nil previous link on every edge into the loop header.
func ruleEndsHaveNoOutwardLink(w *World, r *Report) {
	r.Rule("C13-H", "On every path of every mutator of ast.BaseNode (CFG cut at loop headers): a non-nil node stored into firstChild has a nil previous-sibling link at the end of the path (written nil, isolated, or known nil from a branch), and a non-nil node stored into lastChild outside a loop has a nil next-sibling link. When the stored head is a value carried around a loop (a header phi), the invariant 'its previous link is nil' is checked inductively on every edge into that header: the incoming value is nil, the carried value itself, or a node whose previous link is nil at the end of that path. (lastChild stores inside a loop are the recomputation idiom of C13-E.)")
	tm := w.treeModel()
	if tm == nil {
		r.Unknown("ast.BaseNode", "", "tree model not recognised")
		return
	}
	nStores := 0
	for _, fn := range w.treeMutators(tm) {
		key := w.FnKey(fn)
		segs, headers := segmentsOf(fn)
		bad := map[string]bool{}
		flag := func(k, pos, msg string) {
			if !bad[k] {
				bad[k] = true
				r.Bad(key+": "+k, pos, msg)
			}
		}
		stores := 0
		needInv := map[*ssa.Phi]bool{} // header phis whose "prev is nil" invariant is relied upon
		type pathRec struct {
			p  Path
			ps *pathState
		}
		var toHeaderPaths []pathRec
		for _, seg := range segs {
			seg := seg
			complete := enumSegmentPathsWithBackedge(seg, headers, func(p Path, facts map[string]bool, toHeader bool) {
				ps := w.runTreePath(tm, fn, p, facts)
				if toHeader {
					toHeaderPaths = append(toHeaderPaths, pathRec{p, ps})
				}
				// stores to first/last on this path, with the stored SSA value
				for _, b := range p.Blocks {
					for _, ins := range b.Instrs {
						st, ok := ins.(*ssa.Store)
						if !ok {
							continue
						}
						fa, ok := st.Addr.(*ssa.FieldAddr)
						if !ok || !ps.self(fa.X) {
							continue
						}
						_, f := fieldOfAddr(fa)
						role := tm.byVar[f]
						if role != "first" && role != "last" {
							continue
						}
						stores++
						// only the final value matters
						x := ps.symAt(st.Val)
						if ps.heap["self|"+role] != x {
							continue
						}
						if ps.isNil(x) {
							continue
						}
						if role == "last" && seg.Loop {
							continue // recomputation idiom (C13-E)
						}
						link := map[string]string{"first": "prev", "last": "next"}[role]
						v := ps.read(x, link)
						if ps.isNil(v) {
							continue
						}
						if role == "first" {
							if phi, ok := stripMakeIface(resolveAlong(stripMakeIface(st.Val), p.Blocks)).(*ssa.Phi); ok && headers[phi.Block()] {
								needInv[phi] = true
								continue
							}
						}
						flag(fmt.Sprintf("%sChild = %s", role, x), w.InstrPos(st), fmt.Sprintf("the node stored into %sChild may still have a %s-sibling link (%s) at the end of this path", role, link, v))
					}
				}
			})
			if !complete {
				r.Unknown(key+": path bound", w.FnPos(fn), "too many paths")
			}
		}
		for phi := range needInv {
			h := phi.Block()
			edgesSeen := 0
			for _, pr := range toHeaderPaths {
				if pr.p.Next != h {
					continue
				}
				pred := pr.p.Blocks[len(pr.p.Blocks)-1]
				for pi, pb := range h.Preds {
					if pb != pred {
						continue
					}
					edgesSeen++
					in := stripMakeIface(resolveAlong(stripMakeIface(phi.Edges[pi]), pr.p.Blocks))
					if in == ssa.Value(phi) || isNilConst(in) {
						continue
					}
					s := pr.ps.symAt(in)
					if pr.ps.isNil(s) {
						continue
					}
					if v := pr.ps.read(s, "prev"); !pr.ps.isNil(v) {
						flag(fmt.Sprintf("head carried by the loop at %s", w.blockPos(h)), w.InstrPos(pred.Instrs[len(pred.Instrs)-1]), fmt.Sprintf("the new head %s reaches the loop header with a previous-sibling link that is not known to be nil (%s); it is later stored into firstChild, so FirstChild().PreviousSibling() can be non-nil", s, v))
					}
				}
			}
			if edgesSeen == 0 {
				r.Unknown(key+": loop invariant", w.blockPos(h), "no edge into the loop header was enumerated")
			}
		}
		nStores += stores
		if stores > 0 && len(bad) == 0 {
			r.OK(key, w.FnPos(fn), "every node stored into firstChild/lastChild has no outward sibling link")
		}
	}
	r.Expect("stores to firstChild/lastChild examined on paths", nStores, 6)
}

// ---- C13-O insertion point of the in-place sort ---------------------------------------------------------------------

// ruleSortInsertionPoint: SortChildren is an in-place insertion sort. Whatever the comparator computes, the element e
// being inserted must be linked in front of the very node it was compared with and found "not less than" (or at the
// end of the list). Comparing one node and linking in front of another puts e one position off.
func ruleSortInsertionPoint(w *World, r *Report) {
	r.Rule("C13-O", "In every mutator of ast.BaseNode that takes a comparator: on every path (CFG cut at loop headers) on which the element e under insertion (the comparator's second argument) gets its next-sibling link set to X, either X is nil on that path, or the path contains a comparator call cmp(Y, e) with Y the same node as X (same value number) whose outcome on the path is 'not less' (cmp < 0 false, cmp >= 0 true, or cmp > 0 true). I.e. e is inserted exactly in front of the first node that does not sort before it. A function without direct comparator calls on the inserted element is not an in-place insertion sort and its ordering is not decided here.")
	tm := w.treeModel()
	if tm == nil {
		r.Unknown("ast.BaseNode", "", "tree model not recognised")
		return
	}
	nFn := 0
	for _, fn := range w.treeMutators(tm) {
		var cmp *ssa.Parameter
		for _, p := range fn.Params {
			if sig, ok := p.Type().Underlying().(*types.Signature); ok && sig.Params().Len() == 2 && sig.Results().Len() == 1 && isInteger(sig.Results().At(0).Type()) {
				cmp = p
			}
		}
		if cmp == nil {
			continue
		}
		nFn++
		key := w.FnKey(fn)
		inserted := map[ssa.Value]bool{}
		for _, b := range fn.Blocks {
			for _, ins := range b.Instrs {
				if c, ok := ins.(*ssa.Call); ok && c.Common().Value == ssa.Value(cmp) && len(c.Common().Args) == 2 {
					inserted[stripMakeIface(c.Common().Args[1])] = true
				}
			}
		}
		if len(inserted) == 0 {
			r.OK(key+": ordering", w.FnPos(fn), "no direct comparator call: not an in-place insertion sort; ordering not decided")
			continue
		}
		segs, headers := segmentsOf(fn)
		bad := map[string]bool{}
		links := 0
		for _, seg := range segs {
			complete := enumSegmentPathsWithBackedge(seg, headers, func(p Path, facts map[string]bool, toHeader bool) {
				ps := w.runTreePath(tm, fn, p, facts)
				type cmpCall struct {
					y       string
					notLess bool
				}
				var cmps []cmpCall
				for _, b := range p.Blocks {
					for _, ins := range b.Instrs {
						c, ok := ins.(*ssa.Call)
						if !ok {
							continue
						}
						if c.Common().Value == ssa.Value(cmp) && len(c.Common().Args) == 2 {
							nl := false
							for _, ref := range referrersOf(c) {
								bo, ok := ref.(*ssa.BinOp)
								if !ok || bo.X != ssa.Value(c) {
									continue
								}
								z, isC := constInt(bo.Y)
								if !isC || z != 0 {
									continue
								}
								v, has := facts[condKey(bo)]
								if !has {
									continue
								}
								if (bo.Op == token.LSS && !v) || (bo.Op == token.GEQ && v) || (bo.Op == token.GTR && v) {
									nl = true
								}
							}
							cmps = append(cmps, cmpCall{ps.symAt(c.Common().Args[0]), nl})
							continue
						}
						if !c.Common().IsInvoke() || c.Common().Method.Name() != "SetNextSibling" {
							continue
						}
						recv := stripMakeIface(resolveAlong(stripMakeIface(c.Common().Value), p.Blocks))
						if !inserted[recv] {
							continue
						}
						links++
						x := ps.symAt(c.Common().Args[0])
						ok2 := ps.isNil(x)
						for _, cc := range cmps {
							if cc.y == x && cc.notLess {
								ok2 = true
							}
						}
						if !ok2 {
							k := key + ": insertion point"
							if !bad[k] {
								bad[k] = true
								var seen []string
								for _, cc := range cmps {
									seen = append(seen, fmt.Sprintf("cmp(%s, e) notLess=%v", cc.y, cc.notLess))
								}
								r.Bad(k, w.InstrPos(c), fmt.Sprintf("the inserted element is linked in front of %s, but on this path that node was not the one compared and found not-less (comparisons on the path: %s): the element lands one position off", x, strings.Join(seen, "; ")))
							}
						}
					}
				}
			})
			if !complete {
				r.Unknown(key+": path bound", w.FnPos(fn), "too many paths")
			}
		}
		if len(bad) == 0 {
			r.OK(key+": insertion point", w.FnPos(fn), fmt.Sprintf("%d linking steps on paths: each links the element in front of the node it was compared with (or at the end)", links))
		}
	}
	r.Expect("mutators taking a comparator", nFn, 1)
}

// ---- C13-L ---------------------------------------------------------------------------------------------

func ruleLinkSymmetry(w *World, r *Report) {
	r.Rule("C13-L", "On every path of every mutator (including each iteration of a loop): for every x.next = y written with y non-nil on that path, y.prev is x at the end of the path (written on the path, or untouched and y was x's next before); for every y.prev = x written with x non-nil, x.next is y likewise.")
	tm := w.treeModel()
	if tm == nil {
		r.Unknown("ast.BaseNode", "", "tree model not recognised")
		return
	}
	n := 0
	for _, fn := range append(w.treeMutators(tm), w.treeLinkHelpers(tm)...) {
		key := w.FnKey(fn)
		segs, headers := segmentsOf(fn)
		bad := 0
		reported := map[string]bool{}
		for _, seg := range segs {
			complete := enumSegmentPathsWithBackedge(seg, headers, func(p Path, facts map[string]bool, toHeader bool) {
				n++
				ps := w.runTreePath(tm, fn, p, facts)
				final := func(s, role string) (string, bool) {
					v, ok := ps.heap[s+"|"+role]
					return v, ok
				}
				seen := map[string]bool{}
				for _, k := range ps.written {
					if seen[k] {
						continue
					}
					seen[k] = true
					parts := strings.SplitN(k, "|", 2)
					x, role := parts[0], parts[1]
					if role != "next" && role != "prev" {
						continue
					}
					y := ps.heap[k]
					if ps.isNil(y) || ps.isNil(x) {
						continue
					}
					other := "prev"
					if role == "prev" {
						other = "next"
					}
					back, written := final(y, other)
					ok := false
					if written {
						ok = back == x
					} else {
						// untouched: fine if y was x's neighbour in that direction already
						ok = y == role+"0("+x+")" || x == other+"0("+y+")"
					}
					if !ok {
						msg := fmt.Sprintf("%s.%s = %s is written but %s.%s ends as %s", shortSym(x), role, shortSym(y), shortSym(y), other, map[bool]string{true: shortSym(back), false: "its old value"}[written])
						if !reported[msg] {
							reported[msg] = true
							bad++
							last := p.Blocks[len(p.Blocks)-1]
							r.Bad(key+": "+msg, w.InstrPos(last.Instrs[len(last.Instrs)-1]), "sibling links are not symmetric at the end of a path: forward and backward traversal disagree")
						}
					}
				}
			})
			if !complete {
				r.Unknown(key+": path bound", w.FnPos(fn), "too many paths")
			}
		}
		if bad == 0 {
			r.OK(key, w.FnPos(fn), "every next/prev write is matched on every path")
		}
	}
	r.Expect("paths checked for link symmetry", n, 12)
}

func shortSym(s string) string { return s }

// ---- C13-D ---------------------------------------------------------------------------------------------

func ruleDetachBeforeAttach(w *World, r *Report) {
	r.Rule("C13-D", "In every mutator that attaches an argument node (x.SetParent(self)), the isolating helper is called on x, and every read of x's old neighbours used for re-linking happens after that call (so a node moved inside the same parent is unlinked first).")
	tm := w.treeModel()
	if tm == nil {
		r.Unknown("ast.BaseNode", "", "tree model not recognised")
		return
	}
	if len(tm.isoFns) == 0 {
		r.Unknown("isolating helper", "", "no function of package ast detaching a node from its parent was found")
		return
	}
	n := 0
	for _, fn := range w.treeMutators(tm) {
		var attaches []*ssa.Call
		for _, b := range fn.Blocks {
			for _, ins := range b.Instrs {
				if c, ok := ins.(*ssa.Call); ok && c.Common().IsInvoke() && c.Common().Method.Name() == "SetParent" {
					if a := stripMakeIface(c.Common().Args[0]); len(fn.Params) > 1 && a == ssa.Value(fn.Params[1]) {
						attaches = append(attaches, c)
					}
				}
			}
		}
		for _, at := range attaches {
			n++
			x := at.Common().Value
			key := fmt.Sprintf("%s: attach of %s", w.FnKey(fn), x.Name())
			var iso ssa.Instruction
			for _, b := range fn.Blocks {
				for _, ins := range b.Instrs {
					if c, ok := ins.(*ssa.Call); ok && tm.isoFns[c.Common().StaticCallee()] && c.Common().Args[0] == x && instrDominates(ins, at) {
						iso = ins
					}
				}
			}
			if iso == nil && w.callersIsolate(tm, fn, x) {
				r.OK(key, w.InstrPos(at), "unexported helper: every caller isolates the node before the call")
				continue
			}
			if iso == nil {
				r.Bad(key, w.InstrPos(at), "a node is attached without first being detached from its previous parent")
				continue
			}
			// every accessor read (PreviousSibling/NextSibling/first/last) used on the paths to the attach must come after the isolation
			stale := ""
			for _, b := range fn.Blocks {
				for _, ins := range b.Instrs {
					c, ok := ins.(*ssa.Call)
					if !ok || !c.Common().IsInvoke() {
						continue
					}
					m := c.Common().Method.Name()
					if m != "PreviousSibling" && m != "NextSibling" {
						continue
					}
					if !instrDominates(iso, ins) && instrDominates(ins, at) && len(liveRefs(c)) > 0 {
						// read before the isolation and still used: is it used by a setter after the isolation?
						for _, ref := range liveRefs(c) {
							if rc, ok := ref.(*ssa.Call); ok && rc.Common().IsInvoke() && strings.HasPrefix(rc.Common().Method.Name(), "Set") && instrDominates(iso, rc) {
								stale = m
							}
							if _, isIf := ref.(*ssa.If); isIf {
								continue
							}
							if bo, ok := ref.(*ssa.BinOp); ok {
								// nil test of the stale value deciding how to link
								for _, r2 := range liveRefs(bo) {
									if iff, ok := r2.(*ssa.If); ok && instrDominates(iso, iff) {
										stale = m
									}
								}
							}
						}
					}
				}
			}
			if stale != "" {
				r.Bad(key, w.InstrPos(at), "a neighbour read by "+stale+"() before the node was isolated is used for re-linking afterwards: if the inserted node was that neighbour the list is corrupted")
			} else {
				r.OK(key, w.InstrPos(at), "isolated first; neighbours are read after the isolation")
			}
		}
	}
	r.Expect("attach sites in mutators", n, 1)
}

// ---- C05-W -----------------------------------------------------------------------------------------------

func ruleRawSetterCallers(w *World, r *Report) {
	r.Rule("C05-W", "The raw link setters SetParent, SetNextSibling, SetPreviousSibling are called only from package ast: every other package changes the tree only through the mutators checked by C05-P/C13-L.")
	n := 0
	outside := 0
	for _, fn := range w.Funcs {
		for _, b := range fn.Blocks {
			for _, ins := range b.Instrs {
				c, ok := ins.(ssa.CallInstruction)
				if !ok {
					continue
				}
				name := ""
				if c.Common().IsInvoke() {
					name = c.Common().Method.Name()
				} else if cal := c.Common().StaticCallee(); cal != nil && cal.Signature.Recv() != nil {
					name = cal.Name()
				}
				if name != "SetParent" && name != "SetNextSibling" && name != "SetPreviousSibling" {
					continue
				}
				if fn.Synthetic != "" {
					continue
				}
				n++
				if w.PkgOf(fn) != modPath+"/ast" {
					outside++
					r.Bad(fmt.Sprintf("%s: %s", w.FnKey(fn), name), w.InstrPos(ins), "a raw link setter is called outside package ast: the tree can be changed without the count/link bookkeeping")
				}
			}
		}
	}
	r.Expect("raw link setter call sites", n, 13)
	if outside == 0 {
		r.OK("raw setters confined to package ast", "", fmt.Sprintf("%d call sites, all in package ast", n))
	}
}

// ---- C13-F sibling links of an argument are consulted only when it is our child ------------------------------

// ruleForeignGuard: in a method of BaseNode, the sibling links of a node handed in as an argument say where to
// insert or what to re-link only if that node is a child of the receiver. Reading them for a foreign node positions
// the operation in somebody else's child list ("inserting relative to a foreign reference appends").
func ruleForeignGuard(w *World, r *Report) {
	r.Rule("C13-F", "In every method of ast.BaseNode, a call of NextSibling()/PreviousSibling() on a Node-typed parameter other than self is dominated by the fact param.Parent() == self (true edge of ==, false edge of !=): the sibling links of a foreign node are never used to position an operation on the receiver's child list.")
	tm := w.treeModel()
	if tm == nil {
		r.Unknown("ast.BaseNode", "", "tree model not recognised")
		return
	}
	n := 0
	for i := 0; i < tm.base.NumMethods(); i++ {
		m := w.Prog.FuncValue(tm.base.Method(i))
		if m == nil || m.Blocks == nil || len(m.Params) < 3 {
			continue
		}
		var self ssa.Value
		for _, p := range m.Params[1:] {
			if p.Name() == "self" && types.Identical(p.Type(), tm.nodeT) {
				self = p
			}
		}
		if self == nil {
			continue
		}
		for _, p := range m.Params[1:] {
			if ssa.Value(p) == self || !types.Identical(p.Type(), tm.nodeT) {
				continue
			}
			for _, use := range referrersOf(p) {
				c, ok := use.(*ssa.Call)
				if !ok || !c.Common().IsInvoke() || c.Common().Value != ssa.Value(p) {
					continue
				}
				name := c.Common().Method.Name()
				if name != "NextSibling" && name != "PreviousSibling" {
					continue
				}
				n++
				key := fmt.Sprintf("%s: %s.%s()", w.FnKey(m), p.Name(), name)
				guarded := false
				for _, f := range dominatingConds(c.Block()) {
					for _, a := range condAtoms(f.If.Cond, f.Truth) {
						bo, ok := a.V.(*ssa.BinOp)
						if !ok || (bo.Op != token.EQL && bo.Op != token.NEQ) {
							continue
						}
						isParentOf := func(v ssa.Value) bool {
							pc, ok := v.(*ssa.Call)
							return ok && pc.Common().IsInvoke() && pc.Common().Method.Name() == "Parent" && pc.Common().Value == ssa.Value(p)
						}
						pair := (isParentOf(bo.X) && stripMakeIface(bo.Y) == self) || (isParentOf(bo.Y) && stripMakeIface(bo.X) == self)
						if pair && (bo.Op == token.EQL) == a.Truth {
							guarded = true
						}
					}
				}
				if !guarded && w.callersGuardParentOf(tm, m, p, self) {
					r.OK(key, w.InstrPos(c), "unexported helper: every caller establishes "+p.Name()+".Parent() == self before the call")
					continue
				}
				if guarded {
					r.OK(key, w.InstrPos(c), "dominated by "+p.Name()+".Parent() == self")
				} else {
					r.Bad(key, w.InstrPos(c), fmt.Sprintf("the %s link of the argument %s is read although %s may belong to another parent (no dominating %s.Parent() == self)", name, p.Name(), p.Name(), p.Name()))
				}
			}
		}
	}
	r.Expect("sibling-link reads on argument nodes", n, 2)
}

// ---- C13-N -----------------------------------------------------------------------------------------------

func ruleNilReference(w *World, r *Report) {
	r.Rule("C13-N", "Contradiction rule over the sibling insertion methods of ast.BaseNode (Insert*(self, ref, insertee)): if one of them tests its reference node against nil, every method call on the reference node in each of them is dominated by a ref != nil test.")
	tm := w.treeModel()
	if tm == nil {
		r.Unknown("ast.BaseNode", "", "tree model not recognised")
		return
	}
	var fns []*ssa.Function
	anyTests := false
	for i := 0; i < tm.base.NumMethods(); i++ {
		m := w.Prog.FuncValue(tm.base.Method(i))
		if m == nil || !strings.HasPrefix(m.Name(), "Insert") || len(m.Params) != 4 {
			continue
		}
		fns = append(fns, m)
		ref := m.Params[2]
		for _, ref2 := range referrersOf(ref) {
			if bo, ok := ref2.(*ssa.BinOp); ok {
				if _, _, isT := nilTest(bo); isT {
					anyTests = true
				}
			}
		}
	}
	r.Expect("insertion methods with a reference node", len(fns), 1)
	if !anyTests {
		r.OK("no insertion method treats nil as a legal reference", "", "nothing to cross-check")
		return
	}
	for _, m := range fns {
		ref := m.Params[2]
		bad := false
		for _, use := range referrersOf(ref) {
			c, ok := use.(*ssa.Call)
			if !ok || !c.Common().IsInvoke() || c.Common().Value != ssa.Value(ref) {
				continue
			}
			guarded := false
			for _, cf := range dominatingConds(c.Block()) {
				for _, a := range condAtoms(cf.If.Cond, cf.Truth) {
					if x, isNil, isT := nilTest(a.V); isT && x == ssa.Value(ref) && isNil != a.Truth {
						guarded = true
					}
				}
			}
			if !guarded {
				bad = true
				r.Bad(fmt.Sprintf("%s: %s.%s()", w.FnKey(m), ref.Name(), c.Common().Method.Name()), w.InstrPos(c), "the reference node is dereferenced without a nil test although a sibling method accepts nil as 'append'")
			}
		}
		if !bad {
			r.OK(w.FnKey(m), w.FnPos(m), "every use of the reference node is nil-guarded")
		}
	}
}

// ---- C13-K Walk protocol ---------------------------------------------------------------------------------------

type walkEvent struct {
	kind string // "enter", "leave", "child"
	call *ssa.Call
}

func ruleWalkProtocol(w *World, r *Report) {
	r.Rule("C13-K", "Finite-state check of the walker helper, over every acyclic path of its CFG cut at the child loop: (K1) the first call is walker(n, true); (K2) once a call's error is non-nil or its status is Stop no further walker/recursive call happens and that error is returned together with the walker's status or Stop; (K3) recursive calls are made only when the entering status is not SkipChildren, on the loop variable that starts at n.FirstChild() and advances by NextSibling(), with the same walker; (K4) every path that ends without error/Stop has made exactly one walker(n, false) call after all child calls and returns (Continue, nil); (K5) the error of every call is tested before the next event.")
	walk := w.PkgFunc("ast", "Walk")
	if walk == nil {
		r.Unknown("ast.Walk", "", "not found")
		return
	}
	// the helper: the recursive function Walk calls
	var helper *ssa.Function
	for _, b := range walk.Blocks {
		for _, ins := range b.Instrs {
			if c, ok := ins.(*ssa.Call); ok {
				if cal := c.Common().StaticCallee(); cal != nil && w.InModule(cal) {
					helper = cal
				}
			}
		}
	}
	if helper == nil {
		r.Unknown("ast.Walk: helper", w.FnPos(walk), "Walk does not delegate to a module function; the protocol check does not recognise this shape")
		return
	}
	recursive := false
	for _, b := range helper.Blocks {
		for _, ins := range b.Instrs {
			if c, ok := ins.(*ssa.Call); ok && c.Common().StaticCallee() == helper {
				recursive = true
			}
		}
	}
	if !recursive || len(helper.Params) != 2 {
		// The traversal is split over several mutually recursive functions (or rewritten iteratively). The path-exhaustive
		// protocol check does not apply to that shape; the weaker conditions below are checked instead, and a shape they
		// do not fit either is reported as not decided — not as a violation of the property.
		ruleWalkProtocolWeak(w, r, walk, helper)
		return
	}
	nodeP, walkerP := helper.Params[0], helper.Params[1]
	stopV, _ := constIntVal(w.Obj("ast", "WalkStop").(*types.Const))
	skipV, _ := constIntVal(w.Obj("ast", "WalkSkipChildren").(*types.Const))
	contV, _ := constIntVal(w.Obj("ast", "WalkContinue").(*types.Const))
	key := w.FnKey(helper)
	classify := func(c *ssa.Call) string {
		com := c.Common()
		if com.Value == ssa.Value(walkerP) && len(com.Args) == 2 && com.Args[0] == ssa.Value(nodeP) {
			if b, ok := constBool(com.Args[1]); ok {
				if b {
					return "enter"
				}
				return "leave"
			}
		}
		if com.StaticCallee() == helper {
			return "child"
		}
		return ""
	}
	statusOf := func(c *ssa.Call) (st, er ssa.Value) {
		for _, ref := range referrersOf(c) {
			if ex, ok := ref.(*ssa.Extract); ok {
				if ex.Index == 0 {
					st = ex
				} else {
					er = ex
				}
			}
		}
		return
	}
	// failed: facts say err != nil or status == Stop for call c; tested: both the error and the
	// status-against-Stop have been examined on this path.
	failedOn := func(c *ssa.Call, facts map[string]bool) (failed, tested bool) {
		st, er := statusOf(c)
		testedErr, testedStop := false, false
		if er != nil {
			if v, ok := facts[eqKey(er, nilOf(er))]; ok {
				testedErr = true
				if !v {
					failed = true
				}
			}
		}
		if st != nil {
			if v, ok := facts["stop:"+condKey(st)]; ok {
				testedStop = true
				if v {
					failed = true
				}
			}
		}
		// a path that already failed on the error never evaluates the status test (short-circuit)
		tested = (testedErr && testedStop) || failed
		return
	}
	segs, headers := segmentsOf(helper)
	nPaths := 0
	violations := map[string]bool{}
	flag := func(rule, msg string, pos ssa.Instruction) {
		k := rule + ": " + msg
		if violations[k] {
			return
		}
		violations[k] = true
		r.Bad(key+": "+k, w.InstrPos(pos), msg)
	}
	for _, seg := range segs {
		complete := enumSegmentPathsWithBackedge(seg, headers, func(p Path, facts0 map[string]bool, toHeader bool) {
			nPaths++
			// recompute facts with status comparisons
			facts := map[string]bool{}
			var events []walkEvent
			lastInstr := p.Blocks[len(p.Blocks)-1].Instrs[len(p.Blocks[len(p.Blocks)-1].Instrs)-1]
			var pendingUntested *ssa.Call
			for i, b := range p.Blocks {
				for _, ins := range b.Instrs {
					c, ok := ins.(*ssa.Call)
					if !ok {
						continue
					}
					k := classify(c)
					if k == "" {
						continue
					}
					// K2: no event after a failure
					for _, ev := range events {
						if f, _ := failedOn(ev.call, facts); f {
							flag("K2", "a walker/recursive call is made after an earlier call returned an error or Stop", ins)
						}
					}
					// K5: previous event's error must have been tested
					if pendingUntested != nil {
						if _, tested := failedOn(pendingUntested, facts); !tested {
							flag("K5", "the result of a walker/recursive call is not tested before the next call", ins)
						}
					}
					pendingUntested = c
					events = append(events, walkEvent{k, c})
					if k == "child" {
						// K3
						if seg.Start == helper.Blocks[0] && !seg.Loop {
							// child call outside a loop segment is acceptable only if inside the loop body reached from entry
						}
						a0 := c.Common().Args[0]
						if !isChildCursor(a0, nodeP) {
							flag("K3", "the recursive call is not made on the cursor that starts at n.FirstChild() and advances by NextSibling()", ins)
						}
						if c.Common().Args[1] != ssa.Value(walkerP) {
							flag("K3", "the recursive call passes a different walker", ins)
						}
					}
				}
				if i < len(p.Edges) {
					if iff, ok := b.Instrs[len(b.Instrs)-1].(*ssa.If); ok && len(b.Succs) == 2 {
						facts, _ = extendFacts(facts, iff.Cond, p.Edges[i] == 0)
						for _, a := range condAtoms(iff.Cond, p.Edges[i] == 0) {
							if bo, ok := a.V.(*ssa.BinOp); ok && (bo.Op == token.EQL || bo.Op == token.NEQ) {
								if cv, ok := constInt(bo.Y); ok {
									eq := (bo.Op == token.EQL) == a.Truth
									if cv == stopV {
										facts["stop:"+condKey(bo.X)] = eq
									}
									if cv == skipV {
										facts["skip:"+condKey(bo.X)] = eq
									}
								}
							}
						}
					}
				}
			}
			// K1
			if !seg.Loop {
				if len(events) == 0 || events[0].kind != "enter" {
					flag("K1", "a path from the entry does not start with walker(n, true)", lastInstr)
					return
				}
				// K3: child events on the entry segment require status != SkipChildren
				for _, ev := range events {
					if ev.kind == "child" {
						st, _ := statusOf(events[0].call)
						if st == nil || facts["skip:"+condKey(st)] != false {
							flag("K3", "children are visited without the entering status having been tested against SkipChildren", ev.call)
						} else if _, has := facts["skip:"+condKey(st)]; !has {
							flag("K3", "children are visited without the entering status having been tested against SkipChildren", ev.call)
						}
					}
				}
			}
			// the path's end
			ret, isRet := lastInstr.(*ssa.Return)
			if !isRet {
				// K5 at a cut: a path that goes (back) to the child loop's header must have examined
				// the error and the status of its last call; the next iteration is "the next event".
				if toHeader && pendingUntested != nil {
					if _, tested := failedOn(pendingUntested, facts); !tested {
						flag("K5", "the result of a walker/recursive call is not tested (error and Stop) before the loop continues", pendingUntested)
					}
				}
				if toHeader {
					// reaching the child loop from the entry requires status != SkipChildren (K3)
					if !seg.Loop && len(events) > 0 {
						st, _ := statusOf(events[0].call)
						if v, has := facts["skip:"+condKey(st)]; !has || v {
							flag("K3", "the child loop is entered without the entering status having been tested against SkipChildren", lastInstr)
						}
						if f, _ := failedOn(events[0].call, facts); f {
							flag("K2", "the child loop is entered after walker(n, true) failed", lastInstr)
						}
					}
				}
				return
			}
			// which call failed on this path?
			var failed *ssa.Call
			for _, ev := range events {
				if f, _ := failedOn(ev.call, facts); f {
					failed = ev.call
				}
			}
			if failed != nil {
				st, er := statusOf(failed)
				okErr := false
				for _, leaf := range phiLeaves(ret.Results[1]) {
					if leaf == er {
						okErr = true
					}
				}
				if !okErr {
					flag("K2", "after a failed call the function does not return that call's error", ret)
				}
				okSt := false
				for _, leaf := range phiLeaves(ret.Results[0]) {
					if leaf == st {
						okSt = true
					}
					if c, ok := constInt(leaf); ok && c == stopV {
						okSt = true
					}
				}
				if !okSt {
					flag("K2", "after a failed call the function returns neither the walker's status nor Stop", ret)
				}
				return
			}
			// normal completion: only reachable on paths that include the leave event
			leaves := 0
			for i, ev := range events {
				if ev.kind == "leave" {
					leaves++
					for _, later := range events[i+1:] {
						if later.kind == "child" {
							flag("K4", "a child is visited after walker(n, false)", later.call)
						}
					}
				}
			}
			if leaves != 1 {
				flag("K4", fmt.Sprintf("a path completes normally with %d walker(n, false) calls (expected exactly one)", leaves), ret)
			}
			if c, ok := constInt(ret.Results[0]); !ok || c != contV || !isNilConst(ret.Results[1]) {
				flag("K4", "normal completion does not return (WalkContinue, nil)", ret)
			}
			if pendingUntested != nil {
				if _, tested := failedOn(pendingUntested, facts); !tested {
					flag("K5", "the result of the last call is not tested before returning success", ret)
				}
			}
		})
		if !complete {
			r.Unknown(key+": path bound", w.FnPos(helper), "too many paths")
		}
	}
	r.Expect("paths of the walker helper", nPaths, 6)
	if len(violations) == 0 {
		r.OK(key+": walk protocol", w.FnPos(helper), fmt.Sprintf("%d paths over the abstract outcomes satisfy K1-K5", nPaths))
	}
	// Walk itself returns the helper's error
	for _, b := range walk.Blocks {
		if ret, ok := b.Instrs[len(b.Instrs)-1].(*ssa.Return); ok {
			okRet := false
			if ex, ok := ret.Results[0].(*ssa.Extract); ok {
				if c, ok := ex.Tuple.(*ssa.Call); ok && c.Common().StaticCallee() == helper && c.Common().Args[0] == ssa.Value(walk.Params[0]) && c.Common().Args[1] == ssa.Value(walk.Params[1]) {
					okRet = true
				}
			}
			if okRet {
				r.OK("ast.Walk: returns the helper's error for (n, walker)", w.InstrPos(ret), "")
			} else {
				r.Bad("ast.Walk: returns the helper's error for (n, walker)", w.InstrPos(ret), "Walk does not return the error of helper(n, walker)")
			}
		}
	}
}

// ruleWalkProtocolWeak: Walk's traversal lives in a group of functions of package ast that call each other and the
// walker. Weaker, shape-independent conditions: (W1) the first walker call of the group is walker(n, true) and it
// dominates every other call of its function; a walker(n, false) call exists; (W2) every error result of a walker call
// or of a call inside the group is looked at before the caller goes on: it is compared with nil, or returned; (W3)
// every status result of the walker is compared with Stop. Not decided for this shape: SkipChildren handling and the
// exact-once leave event on every path.
func ruleWalkProtocolWeak(w *World, r *Report, walk, first *ssa.Function) {
	group := map[*ssa.Function]bool{first: true}
	work := []*ssa.Function{first}
	for len(work) > 0 {
		f := work[len(work)-1]
		work = work[:len(work)-1]
		for _, b := range f.Blocks {
			for _, ins := range b.Instrs {
				if c, ok := ins.(*ssa.Call); ok {
					cal := c.Common().StaticCallee()
					if cal == nil || group[cal] || cal.Blocks == nil || w.PkgOf(cal) != modPath+"/ast" {
						continue
					}
					for _, a := range c.Common().Args {
						if _, isF := a.Type().Underlying().(*types.Signature); isF {
							group[cal] = true
							work = append(work, cal)
							break
						}
					}
				}
			}
		}
	}
	key := "ast.Walk: traversal split over helpers"
	stopV, _ := constIntVal(w.Obj("ast", "WalkStop").(*types.Const))
	enters, leaves, untested := 0, 0, 0
	var where ssa.Instruction
	for fn := range group {
		var walker *ssa.Parameter
		for _, p := range fn.Params {
			if _, isF := p.Type().Underlying().(*types.Signature); isF {
				walker = p
			}
		}
		for _, b := range fn.Blocks {
			for _, ins := range b.Instrs {
				c, ok := ins.(*ssa.Call)
				if !ok {
					continue
				}
				isWalker := walker != nil && c.Common().Value == ssa.Value(walker)
				inGroup := c.Common().StaticCallee() != nil && group[c.Common().StaticCallee()]
				if !isWalker && !inGroup {
					continue
				}
				if isWalker && len(c.Common().Args) == 2 {
					if bv, isC := constBool(c.Common().Args[1]); isC {
						if bv {
							enters++
						} else {
							leaves++
						}
					}
				}
				// W2 / W3
				for _, ref := range referrersOf(c) {
					ex, ok := ref.(*ssa.Extract)
					if !ok {
						continue
					}
					looked := false
					for _, use := range referrersOf(ex) {
						switch u := use.(type) {
						case *ssa.BinOp:
							if isErrorType(ex.Type()) {
								if _, _, isT := nilTest(u); isT {
									looked = true
								}
							} else if cv, isC := constInt(u.Y); isC && (cv == stopV || !isWalker) {
								looked = true
							} else if !isWalker {
								looked = true
							}
						case *ssa.Return, *ssa.Phi, *ssa.If:
							looked = true
						}
					}
					if isErrorType(ex.Type()) || isWalker || isBool(ex.Type()) {
						if !looked {
							untested++
							where = c
						}
					}
				}
			}
		}
	}
	switch {
	case enters == 0 || leaves == 0:
		r.Unknown(key, w.FnPos(first), fmt.Sprintf("the traversal does not call walker(n, true) and walker(n, false) with constant flags in a group of %d helper functions: shape not recognised, not decided", len(group)))
	case untested > 0:
		r.Bad(key, w.InstrPos(where), "a result (error or status) of a walker call or of a recursive helper call is neither compared nor returned: an error or Stop can be lost")
	default:
		r.OK(key, w.FnPos(first), fmt.Sprintf("%d functions; weak protocol (W1-W3): entering and leaving calls present, every error and status result is examined or returned", len(group)))
	}
	r.Quiet("C13-K: Walk is split over %d functions; SkipChildren handling and the once-only leave event are not decided for this shape", len(group))
}

func nilOf(v ssa.Value) ssa.Value {
	return ssa.NewConst(nil, v.Type())
}

// isChildCursor: v is a phi whose entry value is n.FirstChild() and whose other values are v.NextSibling().
func isChildCursor(v ssa.Value, n *ssa.Parameter) bool {
	ph, ok := v.(*ssa.Phi)
	if !ok {
		return false
	}
	first, next := false, false
	for _, e := range ph.Edges {
		c, ok := e.(*ssa.Call)
		if !ok || !c.Common().IsInvoke() {
			return false
		}
		switch {
		case c.Common().Method.Name() == "FirstChild" && c.Common().Value == ssa.Value(n):
			first = true
		case c.Common().Method.Name() == "NextSibling" && c.Common().Value == ssa.Value(ph):
			next = true
		default:
			return false
		}
	}
	return first && next
}

// ---- C13-E: after relinking in a loop, the ends are recomputed ---------------------------------------------

// ruleEndsRecomputed: a mutator that re-links siblings inside a loop (a sort) cannot justify firstChild/lastChild
// path by path; the accepted idiom is the one the code uses: store the new head into firstChild and then walk the
// chain with NextSibling to its end, assigning lastChild at every step, after the last re-linking call.
func ruleEndsRecomputed(w *World, r *Report) {
	r.Rule("C13-E", "Every BaseNode mutator that calls SetNextSibling/SetPreviousSibling inside a loop (general re-linking, e.g. SortChildren) ends with the recomputation idiom: firstChild is stored, and a loop whose cursor starts at that value, steps by NextSibling() until nil and stores the cursor into lastChild in its body runs after the last re-linking call (no re-linking call is reachable from it). Otherwise LastChild() can name a node that still has a next sibling, or miss the real tail.")
	tm := w.treeModel()
	if tm == nil {
		r.Unknown("ast.BaseNode", "", "tree model not found")
		return
	}
	n := 0
	for _, fn := range w.treeMutators(tm) {
		loops, _ := naturalLoops(fn)
		relinkInLoop := false
		var relinkBlocks []*ssa.BasicBlock
		for _, l := range loops {
			for b := range l.body {
				for _, ins := range b.Instrs {
					if c, ok := ins.(ssa.CallInstruction); ok && c.Common().IsInvoke() {
						if m := c.Common().Method.Name(); m == "SetNextSibling" {
							relinkInLoop = true
							relinkBlocks = append(relinkBlocks, b)
						}
					}
				}
			}
		}
		if !relinkInLoop {
			continue
		}
		// a loop that only detaches (stores nil links and resets the ends to nil afterwards) is RemoveChildren: accept when
		// the function stores nil to both ends after the loop
		nilEnds := 0
		for _, b := range fn.Blocks {
			for _, ins := range b.Instrs {
				if st, ok := ins.(*ssa.Store); ok && isNilConst(st.Val) {
					if fa, ok := st.Addr.(*ssa.FieldAddr); ok && fa.X == ssa.Value(fn.Params[0]) {
						if _, f := fieldOfAddr(fa); tm.byVar[f] == "first" || tm.byVar[f] == "last" {
							nilEnds++
						}
					}
				}
			}
		}
		n++
		key := w.FnKey(fn) + ": ends after re-linking"
		if nilEnds >= 2 {
			r.OK(key, w.FnPos(fn), "the loop detaches every child and both ends are set to nil")
			continue
		}
		// recomputation loop
		found := false
		for _, l := range loops {
			var cursor *ssa.Phi
			for _, ins := range l.header.Instrs {
				if p, ok := ins.(*ssa.Phi); ok && types.Identical(p.Type(), tm.nodeT) {
					cursor = p
				}
			}
			if cursor == nil {
				continue
			}
			// body stores cursor into lastChild
			storesLast := false
			for b := range l.body {
				for _, ins := range b.Instrs {
					if st, ok := ins.(*ssa.Store); ok && st.Val == ssa.Value(cursor) {
						if fa, ok := st.Addr.(*ssa.FieldAddr); ok && fa.X == ssa.Value(fn.Params[0]) {
							if _, f := fieldOfAddr(fa); tm.byVar[f] == "last" {
								storesLast = true
							}
						}
					}
				}
			}
			if !storesLast {
				continue
			}
			// cursor steps by NextSibling, exits on nil, starts at firstChild (load) or the value stored to firstChild
			stepOK, startOK := false, false
			for i, e := range cursor.Edges {
				pred := l.header.Preds[i]
				if l.body[pred] {
					if c, ok := e.(*ssa.Call); ok && c.Common().IsInvoke() && c.Common().Method.Name() == "NextSibling" && c.Common().Value == ssa.Value(cursor) {
						stepOK = true
					}
				} else {
					if fa, ok := loadOfField(e); ok && fa.X == ssa.Value(fn.Params[0]) {
						if _, f := fieldOfAddr(fa); tm.byVar[f] == "first" {
							startOK = true
						}
					}
					// or the very value that a store into firstChild, dominating the loop, has just written
					for _, sb := range fn.Blocks {
						for _, si := range sb.Instrs {
							st, ok := si.(*ssa.Store)
							if !ok || st.Val != e {
								continue
							}
							if fa, ok := st.Addr.(*ssa.FieldAddr); ok && fa.X == ssa.Value(fn.Params[0]) {
								if _, f := fieldOfAddr(fa); tm.byVar[f] == "first" && (sb == pred || sb.Dominates(pred)) {
									startOK = true
								}
							}
						}
					}
				}
			}
			exitNil := false
			if iff, ok := l.header.Instrs[len(l.header.Instrs)-1].(*ssa.If); ok {
				if x, _, ok := nilTest(iff.Cond); ok && x == ssa.Value(cursor) {
					exitNil = true
				}
			}
			// no re-linking reachable from this loop's header
			after := map[*ssa.BasicBlock]bool{}
			stack := []*ssa.BasicBlock{l.header}
			for len(stack) > 0 {
				x := stack[len(stack)-1]
				stack = stack[:len(stack)-1]
				if after[x] {
					continue
				}
				after[x] = true
				stack = append(stack, x.Succs...)
			}
			relinkAfter := false
			for _, rb := range relinkBlocks {
				if after[rb] {
					relinkAfter = true
				}
			}
			if stepOK && startOK && exitNil && !relinkAfter {
				found = true
			}
		}
		if found {
			r.OK(key, w.FnPos(fn), "lastChild is recomputed by walking the chain from firstChild after the last re-linking call")
		} else {
			r.Unknown(key, w.FnPos(fn), "siblings are re-linked inside a loop but lastChild is not recomputed by a final walk from firstChild along NextSibling(): nothing here justifies that LastChild() is the end of the chain after the call (incremental tail tracking is not decided by this rule and needs review)")
		}
	}
	r.Expect("mutators that re-link inside a loop", n, 1)
}

// ---- C05-V: levels of headings and emphasis are bounded where the node is created -------------------------------

func ruleLevelsBounded(w *World, r *Report) {
	r.Rule("C05-V", "Every call of ast.NewHeading(level) in the library has a level that is a constant in 1..6, a choice among such constants, or a value for which a fact implying level <= 6 (the failed test level > 6, or level < 7) dominates the call. (Emphasis levels are chosen by the delimiter algorithm and handed through an interface call: not decided.)")
	check := func(ctor *ssa.Function, lo, hi int64, what string) int {
		n := 0
		if ctor == nil {
			return 0
		}
		for _, fn := range w.Funcs {
			for _, b := range fn.Blocks {
				for _, ins := range b.Instrs {
					c, ok := ins.(*ssa.Call)
					if !ok || c.Common().StaticCallee() != ctor {
						continue
					}
					n++
					key := fmt.Sprintf("%s: %s #%d", w.FnKey(fn), what, n)
					arg := c.Common().Args[0]
					okAll := true
					why := ""
					for _, leaf := range phiLeaves(arg) {
						if cv, ok := constInt(leaf); ok {
							if cv < lo || cv > hi {
								// a constant outside the range that reaches the argument through a phi (a counter that
								// starts at 0) is fine when a dominating fact on the argument excludes that value
								excluded := false
								for _, cf := range dominatingConds(b) {
									for _, a := range condAtoms(cf.If.Cond, cf.Truth) {
										bo, isB := a.V.(*ssa.BinOp)
										if !isB || stripConv(bo.X) != stripConv(arg) {
											continue
										}
										cy, yc := constInt(bo.Y)
										if !yc {
											continue
										}
										switch {
										case cy == cv && ((bo.Op == token.EQL && !a.Truth) || (bo.Op == token.NEQ && a.Truth)):
											excluded = true
										case cv < lo && ((bo.Op == token.GTR && a.Truth && cy >= cv) || (bo.Op == token.GEQ && a.Truth && cy > cv) || (bo.Op == token.LEQ && !a.Truth && cy >= cv) || (bo.Op == token.LSS && !a.Truth && cy > cv)):
											excluded = true
										}
									}
								}
								if !excluded || leaf == arg {
									okAll, why = false, fmt.Sprintf("constant level %d", cv)
								}
							}
							continue
						}
						// upper bound by a dominating fact on the argument itself (or on this leaf)
						bounded := false
						for _, cf := range dominatingConds(b) {
							for _, v := range []ssa.Value{stripConv(arg), stripConv(leaf)} {
								vv := v
								isV := func(x ssa.Value) bool { return stripConv(x) == vv }
								isBig := func(x ssa.Value) bool { cv, ok := constInt(x); return ok && cv >= hi && cv <= hi+1 }
								// v <= hi  ⇔ !(v > hi) ; v < hi+1
								for _, a := range condAtoms(cf.If.Cond, cf.Truth) {
									bo, ok := a.V.(*ssa.BinOp)
									if !ok {
										continue
									}
									cy, yc := constInt(bo.Y)
									if isV(bo.X) && yc {
										if (bo.Op == token.GTR && !a.Truth && cy <= hi) || (bo.Op == token.LEQ && a.Truth && cy <= hi) || (bo.Op == token.LSS && a.Truth && cy <= hi+1) || (bo.Op == token.GEQ && !a.Truth && cy <= hi+1) {
											bounded = true
										}
									}
								}
								_ = isBig
							}
						}
						if !bounded {
							okAll, why = false, fmt.Sprintf("no dominating fact bounds the level to <= %d", hi)
						}
					}
					if okAll {
						r.OK(key, w.InstrPos(ins), fmt.Sprintf("level within %d..%d", lo, hi))
					} else {
						r.Bad(key, w.InstrPos(ins), fmt.Sprintf("a node is created with a level that is not confined to %d..%d: %s", lo, hi, why))
					}
				}
			}
		}
		return n
	}
	nh := check(w.PkgFunc("ast", "NewHeading"), 1, 6, "NewHeading")
	r.Expect("calls of ast.NewHeading", nh, 1)
}

// ---- C13-S / C13-A: detaching calls and aliasing ------------------------------------------------------------

var linkAccessors = map[string]bool{"PreviousSibling": true, "NextSibling": true, "Parent": true, "FirstChild": true, "LastChild": true}

// detachers: functions of package ast that may detach a node given as parameter from its current position:
// the isolating helpers, RemoveChild, and mutators that call one of these on a parameter.
func (w *World) detachingCall(tm *treeModel, ins ssa.Instruction, mutIso map[*ssa.Function]bool) bool {
	c, ok := ins.(ssa.CallInstruction)
	if !ok {
		return false
	}
	com := c.Common()
	if com.IsInvoke() {
		return com.Method.Name() == "RemoveChild" || com.Method.Name() == "RemoveChildren"
	}
	cal := com.StaticCallee()
	if cal == nil {
		return false
	}
	if tm.isoFns[cal] || mutIso[cal] {
		return true
	}
	return cal.Name() == "RemoveChild" && cal.Signature.Recv() != nil
}

func ruleDetachAliasing(w *World, r *Report) {
	tm := w.treeModel()
	r.Rule("C13-S", "No stale link across a detach: in every tree mutator, a value read through a link accessor (PreviousSibling, NextSibling, Parent, FirstChild, LastChild) before a call that may detach a node (the isolating helper, RemoveChild, or a mutator that isolates its insertee) is not used after that call — the detach may have changed exactly that link (when the moved node is a neighbour of the reference).")
	if tm == nil {
		r.Unknown("ast.BaseNode", "", "tree model not found")
		return
	}
	muts := w.methodsOfType(tm.base) // every method of BaseNode: wrappers such as InsertAfter/ReplaceChild only forward
	// mutators that isolate a parameter
	mutIso := map[*ssa.Function]bool{}
	isoParam := map[*ssa.Function]*ssa.Parameter{}
	var isoCall = map[*ssa.Function]ssa.Instruction{}
	for changed := true; changed; {
		changed = false
		for _, m := range muts {
			if mutIso[m] {
				continue
			}
			for _, b := range m.Blocks {
				for _, ins := range b.Instrs {
					c, ok := ins.(ssa.CallInstruction)
					if !ok {
						continue
					}
					cal := c.Common().StaticCallee()
					if cal == nil || !(tm.isoFns[cal] || mutIso[cal]) {
						continue
					}
					for _, a := range c.Common().Args {
						if p, ok := a.(*ssa.Parameter); ok && types.Identical(p.Type(), tm.nodeT) && (tm.isoFns[cal] || p == a) {
							if tm.isoFns[cal] {
								isoParam[m] = p
								isoCall[m] = ins
							}
							mutIso[m] = true
							changed = true
						}
					}
				}
			}
		}
	}
	n := 0
	for _, m := range muts {
		var dets []ssa.Instruction
		for _, b := range m.Blocks {
			for _, ins := range b.Instrs {
				if w.detachingCall(tm, ins, mutIso) {
					dets = append(dets, ins)
				}
			}
		}
		if len(dets) == 0 {
			continue
		}
		n++
		key := w.FnKey(m) + ": links read before a detach"
		bad := false
		for _, b := range m.Blocks {
			for _, ins := range b.Instrs {
				lc, ok := ins.(*ssa.Call)
				if !ok || !lc.Common().IsInvoke() || !linkAccessors[lc.Common().Method.Name()] {
					continue
				}
				for _, d := range dets {
					if !instrDominates(lc, d) {
						continue
					}
					for _, u := range referrersOf(lc) {
						if u == d {
							continue // handed to the detaching call itself: covered by C13-A
						}
						if _, isDbg := u.(*ssa.DebugRef); isDbg {
							continue
						}
						// a use that is only a comparison (nil test / identity test) before or after is harmless only if before
						after := instrDominates(d, u) || reachesInstr(d, u)
						if after && !bad {
							bad = true
							r.Bad(key, w.InstrPos(u), fmt.Sprintf("the value of %s() read at %s is used after the detaching call at %s: if the detached node was that neighbour, the link is stale (a move that should be a no-op corrupts the sibling chain)", lc.Common().Method.Name(), w.InstrPos(lc), w.InstrPos(d)))
						}
					}
				}
			}
		}
		if !bad {
			r.OK(key, w.FnPos(m), fmt.Sprintf("%d detaching call(s); no link value is carried across them", len(dets)))
		}
	}
	r.Expect("mutators containing a detaching call", n, 2)

	r.Rule("C13-A", "Alias guard: when a mutator M isolates its insertee parameter X and afterwards consults another node parameter Y (the reference), and some mutator in package ast calls M with a reference that is derived from links (e.g. v.NextSibling()) while handing on its own insertee, that derived reference can be the insertee itself. M's isolating call must then be dominated by the fact Y != X (an early return on Y == X): otherwise 'insert b after a' where b already follows a detaches b and never re-attaches it.")
	na := 0
	for _, m := range muts {
		x := isoParam[m]
		if x == nil {
			continue
		}
		for _, y := range m.Params {
			if y == x || !types.Identical(y.Type(), tm.nodeT) || paramIndex(m, y) <= 1 {
				continue
			}
			// is Y consulted after the isolate call?
			consulted := false
			for _, ref := range referrersOf(y) {
				if c, ok := ref.(*ssa.Call); ok && c.Common().IsInvoke() && c.Common().Value == ssa.Value(y) && (instrDominates(isoCall[m], c) || reachesInstr(isoCall[m], c)) {
					consulted = true
				}
			}
			if !consulted {
				continue
			}
			// internal callers passing a derived reference
			var derivedAt ssa.Instruction
			for _, caller := range muts {
				for _, b := range caller.Blocks {
					for _, ins := range b.Instrs {
						c, ok := ins.(ssa.CallInstruction)
						if !ok || c.Common().StaticCallee() != m {
							continue
						}
						ay := c.Common().Args[paramIndex(m, y)]
						ax := c.Common().Args[paramIndex(m, x)]
						_, yIsParam := ay.(*ssa.Parameter)
						_, xIsParam := ax.(*ssa.Parameter)
						if !yIsParam && xIsParam {
							derivedAt = ins
						}
					}
				}
			}
			if derivedAt == nil {
				continue
			}
			na++
			key := fmt.Sprintf("%s: reference %s may be the insertee %s", w.FnKey(m), y.Name(), x.Name())
			guarded := false
			for _, cf := range dominatingConds(isoCall[m].Block()) {
				for _, a := range condAtoms(cf.If.Cond, cf.Truth) {
					bo, ok := a.V.(*ssa.BinOp)
					if !ok {
						continue
					}
					if (bo.X == ssa.Value(x) && bo.Y == ssa.Value(y)) || (bo.X == ssa.Value(y) && bo.Y == ssa.Value(x)) {
						if (bo.Op == token.EQL && !a.Truth) || (bo.Op == token.NEQ && a.Truth) {
							guarded = true
						}
					}
				}
			}
			if guarded {
				r.OK(key, w.InstrPos(isoCall[m]), "the isolating call is dominated by reference != insertee")
			} else {
				r.Bad(key, w.InstrPos(isoCall[m]), fmt.Sprintf("%s is called at %s with a reference read from a sibling link; when that sibling is the insertee itself, the insertee is detached here and then not re-attached because the reference (the same node) no longer belongs to the parent: the node is silently dropped", w.FnKey(m), w.InstrPos(derivedAt)))
			}
		}
	}
	r.Expect("mutators reached with a link-derived reference", na, 1)
}

// reachesInstr: b can execute after a on some path (different blocks; a's block reaches b's block).
func reachesInstr(a, b ssa.Instruction) bool {
	if a.Block() == b.Block() {
		return instrIndex(a) < instrIndex(b)
	}
	seen := map[*ssa.BasicBlock]bool{}
	stack := append([]*ssa.BasicBlock{}, a.Block().Succs...)
	for len(stack) > 0 {
		x := stack[len(stack)-1]
		stack = stack[:len(stack)-1]
		if seen[x] {
			continue
		}
		seen[x] = true
		if x == b.Block() {
			return true
		}
		stack = append(stack, x.Succs...)
	}
	return false
}

// helperCallSites: for an unexported function of package ast, its static call sites in the module (nil when the
// function is exported, used as a value, or never called).
func (w *World) helperCallSites(fn *ssa.Function) []*ssa.Call {
	if obj := fn.Object(); obj == nil || obj.Exported() {
		return nil
	}
	var out []*ssa.Call
	for _, caller := range w.CG().In[fn] {
		if caller.Synthetic != "" {
			continue // promotion wrappers of the embedding node types: unexported methods are not reachable through them from outside
		}
		if !w.InModule(caller) {
			return nil
		}
		for _, b := range caller.Blocks {
			for _, ins := range b.Instrs {
				if c, ok := ins.(*ssa.Call); ok && c.Common().StaticCallee() == fn {
					out = append(out, c)
				}
			}
		}
	}
	return out
}

// callersGuardParentOf: m is an unexported helper; at every call site the argument bound to p satisfies
// arg.Parent() == <argument bound to self> on a dominating edge.
func (w *World) callersGuardParentOf(tm *treeModel, m *ssa.Function, p *ssa.Parameter, self ssa.Value) bool {
	sites := w.helperCallSites(m)
	if len(sites) == 0 {
		return false
	}
	pi := paramIndex(m, p)
	si := -1
	if sp, ok := self.(*ssa.Parameter); ok {
		si = paramIndex(m, sp)
	}
	if pi < 0 || si < 0 {
		return false
	}
	for _, c := range sites {
		args := c.Common().Args
		if pi >= len(args) || si >= len(args) {
			return false
		}
		arg, selfArg := stripMakeIface(args[pi]), stripMakeIface(args[si])
		guarded := false
		for _, f := range dominatingConds(c.Block()) {
			for _, a := range condAtoms(f.If.Cond, f.Truth) {
				bo, ok := a.V.(*ssa.BinOp)
				if !ok || (bo.Op != token.EQL && bo.Op != token.NEQ) {
					continue
				}
				isParentOf := func(v ssa.Value) bool {
					pc, ok := v.(*ssa.Call)
					return ok && pc.Common().IsInvoke() && pc.Common().Method.Name() == "Parent" && stripMakeIface(pc.Common().Value) == arg
				}
				pair := (isParentOf(bo.X) && stripMakeIface(bo.Y) == selfArg) || (isParentOf(bo.Y) && stripMakeIface(bo.X) == selfArg)
				if pair && (bo.Op == token.EQL) == a.Truth {
					guarded = true
				}
			}
		}
		if !guarded {
			return false
		}
	}
	return true
}

// callersIsolate: fn is an unexported helper that attaches its parameter x; at every call site the isolating helper
// was called on the corresponding argument on a dominating path.
func (w *World) callersIsolate(tm *treeModel, fn *ssa.Function, x ssa.Value) bool {
	xp, ok := x.(*ssa.Parameter)
	if !ok {
		return false
	}
	sites := w.helperCallSites(fn)
	if len(sites) == 0 {
		return false
	}
	xi := paramIndex(fn, xp)
	for _, c := range sites {
		if xi >= len(c.Common().Args) {
			return false
		}
		arg := c.Common().Args[xi]
		iso := false
		for _, b := range c.Parent().Blocks {
			for _, ins := range b.Instrs {
				if ic, ok := ins.(*ssa.Call); ok && tm.isoFns[ic.Common().StaticCallee()] && ic.Common().Args[0] == arg && instrDominates(ins, c) {
					iso = true
				}
			}
		}
		if !iso {
			return false
		}
	}
	return true
}
