package main

// report.go — obligations, verdicts, known findings, evidence files, replay files.

import (
	"bufio"
	"encoding/json"
	"fmt"
	"os"
	"path/filepath"
	"regexp"
	"sort"
	"strings"
	"time"
)

type Status string

const (
	Discharged Status = "discharged"
	Violated   Status = "violated"
	Undecided  Status = "undecided"
)

// Obligation is one rule instance. Key = Rule + Construct (never a line number).
type Obligation struct {
	Rule      string   `json:"rule"`
	Construct string   `json:"construct"`
	Pos       string   `json:"pos,omitempty"`
	Status    Status   `json:"status"`
	Detail    string   `json:"detail,omitempty"`
	Path      []string `json:"path,omitempty"`
}

type RuleInfo struct {
	ID   string `json:"id"`
	Text string `json:"text"`
}

type Report struct {
	Property string
	Level    string
	Obls     []Obligation
	Rules    []RuleInfo
	Notes    []string         // "analysed" facts: counts etc.
	Details  []string         // evidence-only facts
	Counts   map[string]int   // named measured counts
	SelfTest []SelfTestResult // mutant self-validation
	Variants []string         // build variants analysed
	Explain  string           // which clauses decided / not decided
	Trusted  []string
	Assumes  []string
	curRule  string
}

type SelfTestResult struct {
	Mutant  string `json:"mutant"`
	Kind    string `json:"kind"` // "breaking" or "neutral"
	Expect  string `json:"expect"`
	Outcome string `json:"outcome"` // caught / missed / silent / alarmed / skipped
	Detail  string `json:"detail,omitempty"`
}

func (r *Report) Rule(id, text string) {
	r.curRule = id
	for _, ri := range r.Rules {
		if ri.ID == id {
			return
		}
	}
	r.Rules = append(r.Rules, RuleInfo{id, text})
}

func (r *Report) add(st Status, construct, pos, detail string, path []string) {
	r.Obls = append(r.Obls, Obligation{Rule: r.curRule, Construct: construct, Pos: pos, Status: st, Detail: detail, Path: path})
}

func (r *Report) OK(construct, pos, detail string) { r.add(Discharged, construct, pos, detail, nil) }
func (r *Report) Bad(construct, pos, detail string, path ...string) {
	r.add(Violated, construct, pos, detail, path)
}
func (r *Report) Unknown(construct, pos, detail string) {
	r.add(Undecided, construct, pos, detail, nil)
}

// Expect records a minimum-instance-count obligation: a rule matching fewer sites than were
// confirmed by hand must not pass vacuously.
func (r *Report) Expect(what string, got, min int) {
	if r.Counts == nil {
		r.Counts = map[string]int{}
	}
	r.Counts[r.curRule+": "+what] = got
	c := fmt.Sprintf("instances(%s)", what)
	if got < min {
		r.add(Undecided, c, "", fmt.Sprintf("unresolved anchor: found %d %s, expected at least %d — the rule cannot find what it is about", got, what, min), nil)
	} else {
		r.add(Discharged, c, "", fmt.Sprintf("%d found (minimum %d)", got, min), nil)
	}
}

func (r *Report) Note(format string, a ...interface{}) {
	r.Notes = append(r.Notes, fmt.Sprintf(format, a...))
}

// Quiet records a fact for the evidence file only (not printed).
func (r *Report) Quiet(format string, a ...interface{}) {
	r.Details = append(r.Details, fmt.Sprintf(format, a...))
}

// ---- known findings -------------------------------------------------------------

type KnownFinding struct {
	Property, Rule, Construct, What string
}

var knownRe = regexp.MustCompile(`^known:\s+property=(\S+)\s+rule=(\S+)\s+construct=(.+?)\s+--\s+(.*)$`)

func loadKnown(path string) ([]KnownFinding, error) {
	f, err := os.Open(path)
	if err != nil {
		if os.IsNotExist(err) {
			return nil, nil
		}
		return nil, err
	}
	defer f.Close()
	var out []KnownFinding
	sc := bufio.NewScanner(f)
	for sc.Scan() {
		l := strings.TrimSpace(sc.Text())
		if m := knownRe.FindStringSubmatch(l); m != nil {
			out = append(out, KnownFinding{m[1], m[2], m[3], m[4]})
		}
	}
	return out, sc.Err()
}

// ---- output --------------------------------------------------------------------

type runMeta struct {
	Tier       string
	Seed       int
	Repo       string
	VerifDir   string
	EvDir      string
	WriteEv    bool
	Started    time.Time
	CheckerCmd string
}

// Finish prints the verdict lines, writes evidence and replay files, and returns the exit code.
func (r *Report) Finish(m runMeta, world *World, known []KnownFinding) int {
	sort.SliceStable(r.Obls, func(i, j int) bool {
		if r.Obls[i].Rule != r.Obls[j].Rule {
			return r.Obls[i].Rule < r.Obls[j].Rule
		}
		return r.Obls[i].Construct < r.Obls[j].Construct
	})
	nViol, nUndec, nKnown, nDis := 0, 0, 0, 0
	exit := 0
	replayDir := filepath.Join(m.EvDir, "replay")
	var lines []string
	for i := range r.Obls {
		o := &r.Obls[i]
		switch o.Status {
		case Discharged:
			nDis++
		case Violated, Undecided:
			isKnown := false
			if o.Status == Violated {
				for _, k := range known {
					if k.Property == r.Property && k.Rule == o.Rule && k.Construct == o.Construct {
						isKnown = true
						lines = append(lines, fmt.Sprintf("KNOWN-FINDING: property=%s rule=%s construct=%s %s", r.Property, o.Rule, o.Construct, k.What))
					}
				}
			}
			if isKnown {
				nKnown++
				continue
			}
			if o.Status == Violated {
				nViol++
			} else {
				nUndec++
			}
			exit = 1
			rp := filepath.Join(replayDir, fmt.Sprintf("%s_%s_%d.json", r.Property, sanitize(o.Rule), nViol+nUndec))
			if m.WriteEv {
				_ = os.MkdirAll(replayDir, 0o755)
				b, _ := json.MarshalIndent(map[string]interface{}{
					"property": r.Property, "rule": o.Rule, "construct": o.Construct, "pos": o.Pos,
					"status": o.Status, "detail": o.Detail, "path": o.Path, "repo": m.Repo,
					"replay": fmt.Sprintf("%s %s --tier quick --only '%s'", m.CheckerCmd, r.Property, o.Rule),
				}, "", " ")
				_ = os.WriteFile(rp, b, 0o644)
			}
			lines = append(lines, fmt.Sprintf("%s rule=%s construct=%s at %s: %s", strings.ToUpper(string(o.Status)), o.Rule, o.Construct, o.Pos, o.Detail))
			if len(o.Path) > 0 {
				lines = append(lines, "    path: "+strings.Join(o.Path, " -> "))
			}
			lines = append(lines, fmt.Sprintf("VIOLATION property=%s replay=%s", r.Property, rp))
		}
	}
	fmt.Printf("== %s tier=%s repo=%s: %d obligations, %d discharged, %d violated, %d undecided, %d known findings\n",
		r.Property, m.Tier, m.Repo, len(r.Obls), nDis, nViol, nUndec, nKnown)
	for _, n := range r.Notes {
		fmt.Println("   " + n)
	}
	for _, st := range r.SelfTest {
		fmt.Printf("   selftest %-8s %-40s expect=%s outcome=%s %s\n", st.Kind, st.Mutant, st.Expect, st.Outcome, st.Detail)
	}
	for _, l := range lines {
		fmt.Println(l)
	}
	if m.WriteEv {
		if err := r.writeEvidence(m, nViol+nUndec, nDis+nKnown); err != nil {
			fmt.Println("ERROR writing evidence:", err)
			return 1
		}
	}
	return exit
}

func sanitize(s string) string {
	return regexp.MustCompile(`[^A-Za-z0-9_.-]`).ReplaceAllString(s, "_")
}

func (r *Report) writeEvidence(m runMeta, bad, good int) error {
	if err := os.MkdirAll(m.EvDir, 0o755); err != nil {
		return err
	}
	perRule := map[string]map[string]int{}
	var samples []interface{}
	perRuleSamples := map[string]int{}
	for _, o := range r.Obls {
		if perRule[o.Rule] == nil {
			perRule[o.Rule] = map[string]int{}
		}
		perRule[o.Rule][string(o.Status)]++
		if perRuleSamples[o.Rule] < 6 || o.Status != Discharged {
			perRuleSamples[o.Rule]++
			samples = append(samples, o)
		}
	}
	distinct := map[string]bool{}
	for _, o := range r.Obls {
		distinct[o.Rule+"|"+o.Construct] = true
	}
	cov := map[string]interface{}{
		"obligations":         len(r.Obls),
		"discharged":          good,
		"evaluations":         len(r.Obls),
		"distinct_nontrivial": len(distinct),
		"rule":                "one obligation per rule instance (rule + program construct); distinct = distinct (rule, construct) keys; every obligation is non-trivial in that it binds to a construct found in the analysed source",
		"checker_cmd":         m.CheckerCmd + " " + r.Property + " --tier " + m.Tier,
		"trusted_base":        r.Trusted,
		"explanation":         r.Explain,
		"rules":               r.Rules,
		"per_rule":            perRule,
		"samples":             samples,
		"analysed":            append(append([]string{}, r.Notes...), r.Details...),
		"counts":              r.Counts,
		"build_variants":      r.Variants,
		"exhaustive":          true,
	}
	if len(r.SelfTest) > 0 {
		cov["self_validation"] = r.SelfTest
	}
	if r.Assumes == nil {
		r.Assumes = []string{"user-supplied extensions, renderers and parsers are out of scope"}
	}
	if r.Trusted == nil {
		r.Trusted = []string{"Go semantics as modelled by go/ssa", "VTA call graph with pass-site refinement (DESIGN 2.2)"}
		cov["trusted_base"] = r.Trusted
	}
	ev := map[string]interface{}{
		"property_id": r.Property,
		"tier":        m.Tier,
		"seed":        m.Seed,
		"level":       r.Level,
		"coverage":    cov,
		"assumptions": r.Assumes,
		"wall_s":      time.Since(m.Started).Seconds(),
		"violations":  bad,
	}
	b, err := json.MarshalIndent(ev, "", " ")
	if err != nil {
		return err
	}
	return os.WriteFile(filepath.Join(m.EvDir, r.Property+".json"), b, 0o644)
}
