package main

// rules_rawtext.go — C02-R: raw text (code span content) is never sent through the decoding text writer.

import (
	"fmt"

	"golang.org/x/tools/go/ssa"
)

func ruleRawTextNotDecoded(w *World, r *Report) {
	r.Rule("C02-R", "In every render function of the module (and the helpers they call), a call of the resolving text writer html.Writer.Write whose bytes come from an *ast.Text node (its Segment, Value or Text) is dominated by the false edge of IsRaw() on that same node: raw text — the content of code spans — keeps its backslashes and character references, in the ordinary output and in an image's alt text alike (sibling sites must agree). Losing the test resolves `x\\*y` inside a code span to x*y.")
	textT := w.Named("ast", "Text")
	if textT == nil {
		r.Unknown("ast.Text", "", "type not found")
		return
	}
	sa := w.Sinks()
	n := 0
	for _, fn := range w.Funcs {
		pk := w.PkgOf(fn)
		if pk != modPath+"/renderer/html" && pk != modPath+"/extension" {
			continue
		}
		for _, b := range fn.Blocks {
			for _, ins := range b.Instrs {
				c, ok := ins.(ssa.CallInstruction)
				if !ok || !c.Common().IsInvoke() || c.Common().Method.Name() != "Write" || !sa.isHTMLWriter(c.Common().Value.Type()) || len(c.Common().Args) != 2 {
					continue
				}
				// the Text node the bytes come from
				var node ssa.Value
				seen := map[ssa.Value]bool{}
				var walk func(v ssa.Value, d int)
				walk = func(v ssa.Value, d int) {
					if v == nil || node != nil || seen[v] || d > 40 {
						return
					}
					seen[v] = true
					switch x := v.(type) {
					case *ssa.FieldAddr:
						if nt := namedOf(x.X.Type()); nt != nil && nt.Obj() == textT.Obj() {
							node = x.X
							return
						}
					case *ssa.Call:
						if cal := x.Common().StaticCallee(); cal != nil && cal.Signature.Recv() != nil && len(x.Common().Args) > 0 {
							if nt := namedOf(cal.Signature.Recv().Type()); nt != nil && nt.Obj() == textT.Obj() {
								node = x.Common().Args[0]
								return
							}
						}
					case *ssa.Alloc:
						// a spilled local (value receiver): follow what was stored into it
						for _, ref := range referrersOf(x) {
							if st, ok := ref.(*ssa.Store); ok && st.Addr == ssa.Value(x) {
								walk(st.Val, d+1)
							}
						}
						return
					}
					if in, ok := v.(ssa.Instruction); ok {
						for _, op := range in.Operands(nil) {
							if *op != nil {
								walk(*op, d+1)
							}
						}
					}
				}
				walk(c.Common().Args[1], 0)
				if node == nil {
					continue
				}
				n++
				key := fmt.Sprintf("%s: Writer.Write of a Text node's bytes", w.FnKey(fn))
				ok2 := false
				for _, cf := range dominatingConds(b) {
					for _, a := range condAtoms(cf.If.Cond, cf.Truth) {
						ic, isCall := a.V.(*ssa.Call)
						if !isCall || a.Truth {
							continue
						}
						if cal := ic.Common().StaticCallee(); cal != nil && cal.Name() == "IsRaw" && len(ic.Common().Args) == 1 && ic.Common().Args[0] == node {
							ok2 = true
						}
					}
				}
				if ok2 {
					r.OK(key, w.InstrPos(ins), "dominated by !IsRaw() on the same node")
				} else {
					r.Bad(key, w.InstrPos(ins), "the bytes of a Text node are written through the decoding writer without IsRaw() having been tested false on it: raw (code span) text has its escapes and character references resolved")
				}
			}
		}
	}
	r.Expect("Writer.Write calls on Text bytes", n, 1)
}
