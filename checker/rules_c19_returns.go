package main

// rules_c19_returns.go — C19-Q (also C03): the rewriting utilities answer through their copy-on-write buffer.

import (
	"fmt"
	"go/token"
	"strings"

	"golang.org/x/tools/go/ssa"
)

func ruleRewritersReturnBuffer(w *World, r *Report) {
	r.Rule("C19-Q", "Every function of package util that wraps its []byte argument in a CopyOnWriteBuffer and scans it (EscapeHTML, URLEscape, UnescapePunctuations, the reference resolvers, case folding) returns the buffer's Bytes() on every return. Handing the argument back directly — a fast path in front of the scanning loop — is accepted only where nothing can need rewriting: under len(argument) == 0, or, for the HTML escaper, under bytes.IndexAny(argument, S) < 0 with S containing every byte that has an entry in the escape table. A fast path with a weaker condition (first special byte at index 0 counted as 'none'; a '%' assumed to start a valid triple) returns unescaped input.")
	cowBytes := w.MethodOf(w.Named("util", "CopyOnWriteBuffer"), "Bytes")
	newCow := w.PkgFunc("util", "NewCopyOnWriteBuffer")
	if cowBytes == nil || newCow == nil {
		r.Unknown("util.CopyOnWriteBuffer", "", "type or constructor not found")
		return
	}
	table, haveTable := w.evalEscapeTable()
	n := 0
	for _, fn := range w.Funcs {
		if w.PkgOf(fn) != modPath+"/util" || fn.Parent() != nil || fn.Signature.Results().Len() != 1 || !isByteSlice(fn.Signature.Results().At(0).Type()) {
			continue
		}
		uses := false
		for _, b := range fn.Blocks {
			for _, ins := range b.Instrs {
				if c, ok := ins.(*ssa.Call); ok && c.Common().StaticCallee() == newCow {
					uses = true
				}
			}
		}
		if !uses || fn.Signature.Recv() != nil {
			continue
		}
		n++
		key := w.FnKey(fn) + ": answers through the copy-on-write buffer"
		var bad []string
		for _, b := range fn.Blocks {
			ret, ok := b.Instrs[len(b.Instrs)-1].(*ssa.Return)
			if !ok || len(ret.Results) != 1 {
				continue
			}
			for _, leaf := range phiLeaves(ret.Results[0]) {
				if c, ok := leaf.(*ssa.Call); ok && c.Common().StaticCallee() == cowBytes {
					continue
				}
				// something else is returned: accept only under a proof that nothing needs rewriting
				okFast := false
				for _, cf := range dominatingConds(b) {
					bo, isB := cf.If.Cond.(*ssa.BinOp)
					if !isB {
						continue
					}
					// len(x) == 0
					if c, isC := constInt(bo.Y); isC && c == 0 && lenOf(bo.X) != nil && ((bo.Op == token.EQL && cf.Truth) || (bo.Op == token.NEQ && !cf.Truth)) {
						okFast = true
					}
					// bytes.IndexAny(v, S) < 0   |  == -1
					if call, isCall := stripConv(bo.X).(*ssa.Call); isCall {
						if cal := call.Common().StaticCallee(); cal != nil && cal.String() == "bytes.IndexAny" {
							c, isC := constInt(bo.Y)
							neg := isC && ((bo.Op == token.LSS && c == 0 && cf.Truth) || (bo.Op == token.EQL && c == -1 && cf.Truth) || (bo.Op == token.GEQ && c == 0 && !cf.Truth) || (bo.Op == token.NEQ && c == -1 && !cf.Truth))
							if neg && haveTable {
								set, isS := constString(call.Common().Args[1])
								covers := isS
								for ch := 0; ch < 256 && covers; ch++ {
									if table[ch] != "" && !strings.ContainsRune(set, rune(ch)) {
										covers = false
									}
								}
								if covers {
									okFast = true
								}
							}
						}
					}
				}
				if !okFast {
					bad = append(bad, fmt.Sprintf("%s returns %s", w.InstrPos(ret), shortVal(leaf)))
				}
			}
		}
		if len(bad) > 0 {
			r.Bad(key, w.FnPos(fn), "a return hands back something other than the buffer's Bytes() without a proof that nothing needs rewriting: "+strings.Join(bad, "; "))
		} else {
			r.OK(key, w.FnPos(fn), "every return is cob.Bytes() (or a proven nothing-to-do fast path)")
		}
	}
	r.Expect("util functions scanning through a CopyOnWriteBuffer", n, 4)
}
