package main

// paths.go — bounded enumeration of acyclic CFG paths with simple correlation of repeated pure
// accessor calls (DESIGN 2.6).

import (
	"fmt"

	"golang.org/x/tools/go/ssa"
)

const maxPaths = 4096

// condKey gives a canonical key for conditions that are the same pure observation: a niladic method
// call on the same receiver value (n.SoftLineBreak(), v.Parent() …) or the same SSA value.
func condKey(v ssa.Value) string {
	if c, ok := v.(*ssa.Call); ok {
		com := c.Common()
		if com.IsInvoke() && len(com.Args) == 0 {
			return fmt.Sprintf("invoke:%s@%p", com.Method.Name(), com.Value)
		}
		if cal := com.StaticCallee(); cal != nil && len(com.Args) == 1 && cal.Signature.Recv() != nil {
			return fmt.Sprintf("call:%s@%p", cal.String(), com.Args[0])
		}
	}
	return fmt.Sprintf("val:%p", v)
}

type Path struct {
	Blocks []*ssa.BasicBlock
	Edges  []int           // Edges[i] = successor index taken out of Blocks[i] (len = len(Blocks)-1)
	Next   *ssa.BasicBlock // for a path cut at a loop header: the header the last block jumps to (nil otherwise)
}

// EnumPaths enumerates acyclic paths starting at `start` (entered with the given initial facts) until
// a block for which stop returns true (inclusive). Contradictory branches on correlated conditions
// are pruned. Returns false if the path bound was exceeded.
func EnumPaths(start *ssa.BasicBlock, facts map[string]bool, stop func(*ssa.BasicBlock) bool, visit func(Path)) bool {
	count := 0
	ok := true
	var blocks []*ssa.BasicBlock
	var edges []int
	on := map[*ssa.BasicBlock]bool{}
	var rec func(b *ssa.BasicBlock, facts map[string]bool)
	rec = func(b *ssa.BasicBlock, facts map[string]bool) {
		if !ok {
			return
		}
		blocks = append(blocks, b)
		on[b] = true
		defer func() {
			blocks = blocks[:len(blocks)-1]
			on[b] = false
		}()
		if stop(b) || len(b.Succs) == 0 {
			count++
			if count > maxPaths {
				ok = false
				return
			}
			visit(Path{append([]*ssa.BasicBlock{}, blocks...), append([]int{}, edges...), nil})
			return
		}
		var iff *ssa.If
		if len(b.Instrs) > 0 {
			iff, _ = b.Instrs[len(b.Instrs)-1].(*ssa.If)
		}
		for i, s := range b.Succs {
			if on[s] {
				continue // acyclic paths only
			}
			nf := facts
			if iff != nil && len(b.Succs) == 2 && b.Succs[0] != b.Succs[1] {
				conflict := false
				nf = map[string]bool{}
				for k, v := range facts {
					nf[k] = v
				}
				for _, a := range condAtoms(iff.Cond, i == 0) {
					k := condKey(a.V)
					if old, has := nf[k]; has && old != a.Truth {
						conflict = true
					}
					nf[k] = a.Truth
					// nil tests also correlate: x == nil / x != nil on the same x
					if x, isNil, isT := nilTest(a.V); isT {
						kk := "nil:" + condKey(x)
						val := isNil == a.Truth
						if old, has := nf[kk]; has && old != val {
							conflict = true
						}
						nf[kk] = val
					}
				}
				if conflict {
					continue
				}
			}
			edges = append(edges, i)
			rec(s, nf)
			edges = edges[:len(edges)-1]
		}
	}
	rec(start, facts)
	return ok
}

func isReturnBlock(b *ssa.BasicBlock) bool {
	if len(b.Instrs) == 0 {
		return false
	}
	_, ok := b.Instrs[len(b.Instrs)-1].(*ssa.Return)
	return ok
}
