package main

// fresh.go — ownership ("freshness") analysis for byte slices (DESIGN 2.4).
//
// Every []byte value gets a set of origins:
//   fresh     allocated by this activation (make, literal, string conversion, append to fresh/nil …)
//   capped    s[a:b:b] of a non-fresh slice: len==cap, so append must reallocate (never writes the base)
//   param k   the k-th parameter of the enclosing function (an obligation on every caller)
//   foreign   anything else (fields, globals, results of unknown calls, sub-slices of those)
// Function summaries (origins of each result, parameters written through) are computed as a
// least fixpoint over the module.

import (
	"fmt"
	"go/token"
	"go/types"
	"sort"
	"strings"

	"golang.org/x/tools/go/ssa"
)

type Origins struct {
	Fresh   bool
	Capped  bool
	Params  map[int]bool
	Foreign string // reason; "" if none
}

func (o *Origins) addParam(k int) {
	if o.Params == nil {
		o.Params = map[int]bool{}
	}
	o.Params[k] = true
}

func (o *Origins) union(p Origins) bool {
	ch := false
	if p.Fresh && !o.Fresh {
		o.Fresh, ch = true, true
	}
	if p.Capped && !o.Capped {
		o.Capped, ch = true, true
	}
	for k := range p.Params {
		if !o.Params[k] {
			o.addParam(k)
			ch = true
		}
	}
	if p.Foreign != "" && o.Foreign == "" {
		o.Foreign, ch = p.Foreign, true
	}
	return ch
}

func (o Origins) String() string {
	var s []string
	if o.Fresh {
		s = append(s, "fresh")
	}
	if o.Capped {
		s = append(s, "capped")
	}
	var ks []int
	for k := range o.Params {
		ks = append(ks, k)
	}
	sort.Ints(ks)
	for _, k := range ks {
		s = append(s, fmt.Sprintf("param#%d", k))
	}
	if o.Foreign != "" {
		s = append(s, "foreign("+o.Foreign+")")
	}
	if len(s) == 0 {
		return "none"
	}
	return strings.Join(s, "|")
}

// stdlib functions returning newly allocated slices
var stdReturnsFresh = map[string]bool{
	"bytes.Repeat": true, "bytes.Replace": true, "bytes.ReplaceAll": true, "bytes.ToLower": true, "bytes.ToUpper": true,
	"bytes.Join": true, "bytes.Clone": true, "bytes.Map": true, "bytes.Title": true, "bytes.ToTitle": true,
	"strconv.AppendInt": false, "(*bytes.Buffer).Bytes": false,
	"slices.Clone": true,
}

// stdlib functions returning a sub-slice of their first argument
var stdReturnsSubslice = map[string]bool{
	"bytes.TrimSpace": true, "bytes.Trim": true, "bytes.TrimLeft": true, "bytes.TrimRight": true, "bytes.TrimPrefix": true,
	"bytes.TrimSuffix": true, "bytes.TrimFunc": true, "bytes.TrimLeftFunc": true, "bytes.TrimRightFunc": true,
}

// stdlib functions that write through a []byte argument (index of the written argument)
var stdWriters = map[string]int{
	"unicode/utf8.EncodeRune": 0, "unicode/utf8.AppendRune": 0,
	"strconv.AppendInt": 0, "strconv.AppendUint": 0, "strconv.AppendQuote": 0, "strconv.AppendBool": 0, "strconv.AppendFloat": 0,
	"strconv.AppendQuoteRune": 0, "strconv.AppendQuoteToASCII": 0,
	"encoding/hex.Encode": 0, "encoding/hex.Decode": 0, "encoding/hex.AppendEncode": 0,
	"io.ReadFull": 1, "io.ReadAtLeast": 1,
	"sort.Slice": 0, "sort.SliceStable": 0, "slices.Sort": 0, "slices.SortFunc": 0, "slices.Reverse": 0, "slices.SortStableFunc": 0,
	"(*encoding/base64.Encoding).Encode": 1, "(*encoding/base64.Encoding).Decode": 1,
	"(*bytes.Buffer).Read": 1, "(*bytes.Reader).Read": 1, "(*bufio.Reader).Read": 1, "(*strings.Reader).Read": 1,
	"(*os.File).Read": 1, "(*os.File).ReadAt": 1,
	"math/rand.Read": 0, "crypto/rand.Read": 0,
}

// stdlib functions whose name matches the writer heuristic but which only read their []byte argument
var stdReaders = map[string]bool{
	"unicode/utf8.DecodeRune": true, "unicode/utf8.DecodeLastRune": true, "unicode/utf8.DecodeRuneInString": true,
}

// package slices: every function taking a slice writes through it (Delete, Insert, Replace, Compact, Sort*, Reverse
// shift or permute the elements in place and zero the freed tail) unless it is in this read-only list.
var slicesReadOnly = map[string]bool{
	"Index": true, "IndexFunc": true, "Contains": true, "ContainsFunc": true, "Equal": true, "EqualFunc": true,
	"Compare": true, "CompareFunc": true, "Max": true, "MaxFunc": true, "Min": true, "MinFunc": true,
	"BinarySearch": true, "BinarySearchFunc": true, "Clone": true, "IsSorted": true, "IsSortedFunc": true,
	"Concat": true, "All": true, "Values": true, "Backward": true, "Chunk": true, "Grow": true, "Clip": true, "Repeat": true,
}

// foreignName gives the name of a function outside the module with generic instantiations folded onto
// their origin ("slices.Delete[[]byte byte]" -> "slices.Delete").
func foreignName(cal *ssa.Function) string {
	if o := cal.Origin(); o != nil {
		return o.String()
	}
	return cal.String()
}

// foreignWriter reports whether a call of the foreign function cal writes through one of its []byte
// arguments, and through which. Beyond the table: package slices (default: writer) and bytes.NewBuffer,
// which takes ownership of the slice — later writes to the buffer overwrite it from index 0 — unless the
// new buffer is only ever read.
func foreignWriter(c ssa.CallInstruction, cal *ssa.Function) (int, string, bool) {
	name := foreignName(cal)
	com := c.Common()
	if k, ok := stdWriters[name]; ok {
		return k, name, true
	}
	if strings.HasPrefix(name, "slices.") && !slicesReadOnly[strings.TrimPrefix(name, "slices.")] {
		return 0, name, true
	}
	if name == "bytes.NewBuffer" && len(com.Args) == 1 {
		v, ok := c.(ssa.Value)
		if !ok {
			return 0, name, false
		}
		for _, ref := range referrersOf(v) {
			rc, ok := ref.(ssa.CallInstruction)
			if ok {
				if m := rc.Common().StaticCallee(); m != nil && len(rc.Common().Args) > 0 && rc.Common().Args[0] == v {
					switch m.Name() {
					case "Read", "ReadByte", "ReadRune", "ReadString", "ReadBytes", "Bytes", "String", "Len", "Cap", "Next", "WriteTo", "UnreadByte", "UnreadRune", "Available":
						continue
					}
				}
			}
			if _, isDbg := ref.(*ssa.DebugRef); isDbg {
				continue
			}
			return 0, name + " (the buffer is written or escapes)", true
		}
	}
	return 0, name, false
}

var writerNamePrefixes = []string{"Append", "Put", "Encode", "Read", "Fill", "Sort", "Reverse", "Decode", "Copy", "Swap"}

type FreshAnalysis struct {
	w       *World
	ret     map[*ssa.Function][]Origins      // per result index
	written map[*ssa.Function]map[int]string // param index -> kind of write ("append" or "store")
	// boundary: the write is direct, or reaches an unexported/dynamic callee — i.e. this function is
	// the outermost place to report it (callers that merely forward to an exported writer are not).
	boundary map[*ssa.Function]map[int]bool
	memo     map[ssa.Value]Origins
	inprog   map[ssa.Value]bool
}

func (w *World) Fresh() *FreshAnalysis {
	if v, ok := w.memo["fresh"]; ok {
		return v.(*FreshAnalysis)
	}
	fa := &FreshAnalysis{w: w, ret: map[*ssa.Function][]Origins{}, written: map[*ssa.Function]map[int]string{}, boundary: map[*ssa.Function]map[int]bool{}}
	fa.solve()
	w.memo["fresh"] = fa
	return fa
}

func paramIndex(fn *ssa.Function, p *ssa.Parameter) int {
	for i, q := range fn.Params {
		if q == p {
			return i
		}
	}
	return -1
}

func (fa *FreshAnalysis) resetMemo() {
	fa.memo = map[ssa.Value]Origins{}
	fa.inprog = map[ssa.Value]bool{}
}

// Of computes the origins of a slice-typed value.
func (fa *FreshAnalysis) Of(v ssa.Value) Origins {
	if o, ok := fa.memo[v]; ok {
		return o
	}
	if fa.inprog[v] {
		return Origins{} // optimistic on cycles; the enclosing union supplies the other edges
	}
	fa.inprog[v] = true
	o := fa.compute(v)
	delete(fa.inprog, v)
	fa.memo[v] = o
	return o
}

func (fa *FreshAnalysis) compute(v ssa.Value) Origins {
	switch x := v.(type) {
	case *ssa.MakeSlice:
		return Origins{Fresh: true}
	case *ssa.Const:
		return Origins{Fresh: true} // nil (or constant): nothing to write into
	case *ssa.Convert:
		if isString(x.X.Type()) {
			return Origins{Fresh: true}
		}
		return fa.Of(x.X)
	case *ssa.ChangeType:
		return fa.Of(x.X)
	case *ssa.Slice:
		if a, ok := x.X.(*ssa.Alloc); ok {
			_ = a
			return Origins{Fresh: true} // slice of a local array (composite literal, varargs)
		}
		if isString(x.X.Type()) {
			return Origins{Fresh: true}
		}
		base := fa.Of(x.X)
		if base.Foreign == "" && !base.Capped && len(base.Params) == 0 {
			return base // fresh stays fresh
		}
		if x.Max != nil && x.High != nil && sameValue(x.Max, x.High) {
			return Origins{Fresh: base.Fresh, Capped: true}
		}
		out := Origins{Fresh: base.Fresh, Foreign: base.Foreign}
		for k := range base.Params {
			out.addParam(k)
		}
		if base.Capped {
			// re-slicing a capped slice may expose capacity again
			out.Foreign = "re-sliced capped slice"
		}
		return out
	case *ssa.Phi:
		var out Origins
		for _, e := range x.Edges {
			out.union(fa.Of(e))
		}
		return out
	case *ssa.Parameter:
		var out Origins
		k := paramIndex(x.Parent(), x)
		if k < 0 {
			out.Foreign = "parameter"
		} else {
			out.addParam(k)
		}
		return out
	case *ssa.UnOp:
		if x.Op == token.MUL {
			if a, ok := x.X.(*ssa.Alloc); ok && cellOnlyLoadStore(a) {
				var out Origins
				n := 0
				for _, ref := range referrersOf(a) {
					if st, ok := ref.(*ssa.Store); ok {
						out.union(fa.Of(st.Val))
						n++
					}
				}
				if n == 0 {
					out.Fresh = true // zero value
				}
				return out
			}
			return Origins{Foreign: "loaded from " + describeAddr(x.X)}
		}
	case *ssa.Extract:
		if c, ok := x.Tuple.(*ssa.Call); ok {
			return fa.callResult(c, x.Index)
		}
	case *ssa.Call:
		return fa.callResult(x, 0)
	case *ssa.FreeVar:
		return Origins{Foreign: "captured variable"}
	case *ssa.Lookup, *ssa.Index, *ssa.Field, *ssa.TypeAssert:
		return Origins{Foreign: fmt.Sprintf("%T", v)}
	}
	return Origins{Foreign: fmt.Sprintf("%T", v)}
}

func describeAddr(a ssa.Value) string {
	switch x := a.(type) {
	case *ssa.FieldAddr:
		t, f := fieldOfAddr(x)
		if f != nil {
			return "field " + typeShort(t) + "." + f.Name()
		}
	case *ssa.Global:
		return "global " + x.Name()
	case *ssa.IndexAddr:
		return "element of " + describeAddr(x.X)
	case *ssa.UnOp:
		return describeAddr(x.X)
	}
	return fmt.Sprintf("%T", a)
}

func (fa *FreshAnalysis) callResult(c *ssa.Call, idx int) Origins {
	com := c.Common()
	if name := builtinName(com); name != "" {
		if name == "append" {
			base := fa.Of(com.Args[0])
			out := Origins{Fresh: base.Fresh || base.Capped, Capped: base.Capped, Foreign: base.Foreign}
			for k := range base.Params {
				out.addParam(k)
			}
			return out
		}
		return Origins{Foreign: "builtin " + name}
	}
	cal := com.StaticCallee()
	if cal == nil {
		return Origins{Foreign: "result of dynamic call"}
	}
	if fa.w.InModule(cal) && cal.Blocks != nil {
		sum := fa.ret[cal]
		var out Origins
		if idx >= len(sum) {
			return Origins{} // not yet computed: optimistic (least fixpoint)
		}
		s := sum[idx]
		out.Fresh = s.Fresh
		out.Capped = s.Capped
		if s.Foreign != "" {
			out.Foreign = s.Foreign
		}
		for k := range s.Params {
			if k < len(com.Args) {
				out.union(fa.Of(com.Args[k]))
			}
		}
		return out
	}
	name := cal.String()
	if stdReturnsFresh[name] {
		return Origins{Fresh: true}
	}
	if stdReturnsSubslice[name] {
		o := fa.Of(com.Args[0])
		if o.Capped {
			o.Foreign = "sub-slice of capped"
		}
		return o
	}
	if k, ok := stdWriters[name]; ok && strings.Contains(name, "Append") {
		return fa.Of(com.Args[k])
	}
	return Origins{Foreign: "result of " + name}
}

// resultSliceIdx lists result indexes of byte-slice type.
func byteSliceResults(fn *ssa.Function) []int {
	var out []int
	res := fn.Signature.Results()
	for i := 0; i < res.Len(); i++ {
		if isByteSlice(res.At(i).Type()) {
			out = append(out, i)
		}
	}
	return out
}

// ByteWrite is one write site through a []byte.
type ByteWrite struct {
	Fn    *ssa.Function
	Instr ssa.Instruction
	Dst   ssa.Value
	Kind  string // "append", "copy", "store", "call <name>"
}

// ByteWritesOf lists the write sites of fn whose destination is a []byte.
func (fa *FreshAnalysis) ByteWritesOf(fn *ssa.Function) []ByteWrite {
	var out []ByteWrite
	for _, b := range fn.Blocks {
		for _, ins := range b.Instrs {
			switch v := ins.(type) {
			case *ssa.Store:
				if ia, ok := v.Addr.(*ssa.IndexAddr); ok && isByteSlice(ia.X.Type()) {
					out = append(out, ByteWrite{fn, ins, ia.X, "store"})
				}
			case *ssa.SliceToArrayPointer:
				if isByteSlice(v.X.Type()) {
					out = append(out, ByteWrite{fn, ins, v.X, "store"})
				}
			case ssa.CallInstruction:
				com := v.Common()
				switch builtinName(com) {
				case "append":
					if isByteSlice(com.Args[0].Type()) {
						out = append(out, ByteWrite{fn, ins, com.Args[0], "append"})
					}
				case "copy":
					if isByteSlice(com.Args[0].Type()) {
						out = append(out, ByteWrite{fn, ins, com.Args[0], "copy"})
					}
				case "clear":
					if isByteSlice(com.Args[0].Type()) {
						out = append(out, ByteWrite{fn, ins, com.Args[0], "store"})
					}
				case "":
					cal := com.StaticCallee()
					if cal == nil || fa.w.InModule(cal) {
						continue
					}
					if k, name, ok := foreignWriter(v, cal); ok && k < len(com.Args) && isByteSlice(com.Args[k].Type()) {
						kind := "store"
						if strings.Contains(name, "Append") {
							kind = "append"
						}
						out = append(out, ByteWrite{fn, ins, com.Args[k], kind + " by " + name})
					}
				}
			}
		}
	}
	return out
}

func writeKindOf(k string) string {
	if strings.HasPrefix(k, "append") {
		return "append"
	}
	return "store"
}

func (fa *FreshAnalysis) solve() {
	w := fa.w
	// least fixpoint of result origins and written-parameter sets
	for iter := 0; iter < 50; iter++ {
		changed := false
		fa.resetMemo()
		for _, fn := range w.Funcs {
			idxs := byteSliceResults(fn)
			if len(idxs) > 0 {
				if fa.ret[fn] == nil {
					fa.ret[fn] = make([]Origins, fn.Signature.Results().Len())
				}
				for _, b := range fn.Blocks {
					ret, ok := b.Instrs[len(b.Instrs)-1].(*ssa.Return)
					if !ok {
						continue
					}
					for _, i := range idxs {
						if i < len(ret.Results) {
							if fa.ret[fn][i].union(fa.Of(ret.Results[i])) {
								changed = true
							}
						}
					}
				}
			}
			mark := func(k int, kind string) {
				if fa.written[fn] == nil {
					fa.written[fn] = map[int]string{}
				}
				old, ok := fa.written[fn][k]
				if !ok || (old == "append" && kind == "store") {
					fa.written[fn][k] = kind
					changed = true
				}
			}
			markB := func(k int) {
				if fa.boundary[fn] == nil {
					fa.boundary[fn] = map[int]bool{}
				}
				fa.boundary[fn][k] = true
			}
			for _, bw := range fa.ByteWritesOf(fn) {
				o := fa.Of(bw.Dst)
				for k := range o.Params {
					mark(k, writeKindOf(bw.Kind))
					markB(k)
				}
			}
			// passing a parameter to a module callee that writes through it
			for _, b := range fn.Blocks {
				for _, ins := range b.Instrs {
					c, ok := ins.(ssa.CallInstruction)
					if !ok {
						continue
					}
					com := c.Common()
					for _, cal := range fa.calleesOf(fn, c) {
						for j, kind := range fa.written[cal] {
							arg := callArg(com, cal, j)
							if arg == nil || !isByteSlice(arg.Type()) {
								continue
							}
							o := fa.Of(arg)
							for k := range o.Params {
								mark(k, kind)
								if fa.boundary[cal][j] && (!isExportedFunc(cal) || dstParamAPIs[fmt.Sprintf("%s#%d", fa.w.FnKey(cal), j)] != "") {
									markB(k)
								}
							}
						}
					}
				}
			}
		}
		if !changed {
			break
		}
	}
	fa.resetMemo()
}

// calleesOf resolves a call site to module functions (static callee, or call-graph edges for dynamic calls).
func (fa *FreshAnalysis) calleesOf(fn *ssa.Function, c ssa.CallInstruction) []*ssa.Function {
	if cal := c.Common().StaticCallee(); cal != nil {
		if fa.w.InModule(cal) {
			return []*ssa.Function{cal}
		}
		return nil
	}
	if builtinName(c.Common()) != "" {
		return nil
	}
	var out []*ssa.Function
	for _, e := range fa.w.CG().Out[fn] {
		if e.Kind == EdgeCall && e.Site == c.(ssa.Instruction) && fa.w.InModule(e.To) {
			out = append(out, e.To)
		}
	}
	return out
}

// callArg maps callee parameter index j to the argument value at the call site.
func callArg(com *ssa.CallCommon, cal *ssa.Function, j int) ssa.Value {
	if com.IsInvoke() {
		// callee Params[0] is the receiver; Args exclude it
		if j == 0 {
			return com.Value
		}
		if j-1 < len(com.Args) {
			return com.Args[j-1]
		}
		return nil
	}
	if j < len(com.Args) {
		return com.Args[j]
	}
	return nil
}

var _ = types.Identical

func isExportedFunc(fn *ssa.Function) bool {
	if fn.Object() == nil || !fn.Object().Exported() {
		return false
	}
	if fn.Signature.Recv() != nil {
		n := namedOf(fn.Signature.Recv().Type())
		return n != nil && n.Obj().Exported()
	}
	return true
}
