package main

// rules_c19_fold.go — C19-K: case folding looks every decodable non-ASCII character up in the folding table.

import (
	"fmt"
	"go/token"
	"go/types"

	"golang.org/x/tools/go/ssa"
)

func ruleFoldingLooksEveryRuneUp(w *World, r *Report) {
	r.Rule("C19-K", "In util.DoFullUnicodeCaseFolding's scanning loop every cycle header→header that does not pass the lookup in the case-folding table is justified by the byte at the index alone or by a failed decode: the branch facts of that path, evaluated for all 256 values of v[i] (comparisons with constants, utf8.RuneStart), admit only bytes below 0xC2 (ASCII — folded arithmetically — or bytes that cannot start a character), or the path passes the true edge of r == utf8.RuneError. A shortcut that skips the table for some class of characters (4-byte sequences, non-letters) leaves cased characters of that class unfolded (Deseret, Adlam, circled letters, Roman numerals), so labels that differ only in case no longer match.")
	fn := w.PkgFunc("util", "DoFullUnicodeCaseFolding")
	if fn == nil || fn.Blocks == nil {
		r.Unknown("util.DoFullUnicodeCaseFolding", "", "function not found")
		return
	}
	// the table lookups: comma-ok (or plain) lookups in a package-level map keyed by rune
	var lookups []*ssa.Lookup
	for _, b := range fn.Blocks {
		for _, ins := range b.Instrs {
			if lk, ok := ins.(*ssa.Lookup); ok {
				if u, ok := lk.X.(*ssa.UnOp); ok && u.Op == token.MUL {
					if _, isG := u.X.(*ssa.Global); isG {
						if m, ok := lk.X.Type().Underlying().(*types.Map); ok && isInteger(m.Key()) {
							lookups = append(lookups, lk)
						}
					}
				}
			}
		}
	}
	if len(lookups) == 0 {
		r.Unknown("util.DoFullUnicodeCaseFolding: table lookup", w.FnPos(fn), "no lookup in a package-level rune-keyed map found")
		return
	}
	lookupBlock := map[*ssa.BasicBlock]bool{}
	for _, lk := range lookups {
		lookupBlock[lk.Block()] = true
	}
	loops, _ := naturalLoops(fn)
	nLoops := 0
	for _, l := range loops {
		if isRangeLoop(l) {
			continue
		}
		has := false
		for b := range l.body {
			if lookupBlock[b] {
				has = true
			}
		}
		if !has {
			continue
		}
		var idx *ssa.Phi
		var base ssa.Value
		for _, ins := range l.header.Instrs {
			p, ok := ins.(*ssa.Phi)
			if !ok {
				break
			}
			for _, ref := range referrersOf(p) {
				if ia, ok := ref.(*ssa.IndexAddr); ok && l.body[ia.Block()] && stripConv(ia.Index) == ssa.Value(p) && isByteSlice(ia.X.Type()) {
					idx, base = p, ia.X
				}
			}
		}
		if idx == nil {
			r.Unknown("util.DoFullUnicodeCaseFolding: scanning index", w.blockPos(l.header), "no loop index used as v[i]")
			continue
		}
		nLoops++
		env := &byteEnv{w: w, base: base, idx: idx}
		nCycles, nSkip := 0, 0
		var path []*ssa.BasicBlock
		on := map[*ssa.BasicBlock]bool{}
		overflow := false
		var dfs func(b *ssa.BasicBlock)
		dfs = func(b *ssa.BasicBlock) {
			if overflow {
				return
			}
			path = append(path, b)
			on[b] = true
			defer func() { path = path[:len(path)-1]; on[b] = false }()
			for _, s := range b.Succs {
				if s == l.header {
					nCycles++
					if nCycles > maxPaths {
						overflow = true
						return
					}
					full := append(append([]*ssa.BasicBlock{}, path...), l.header)
					passes := false
					for _, x := range full {
						if lookupBlock[x] {
							passes = true
						}
					}
					if passes {
						continue
					}
					facts := factsAlong(full)
					// infeasible combinations of byte facts are no cycles at all
					acc := env.acceptedAt(0, facts)
					any := false
					for c := 0; c < 256; c++ {
						if acc[c] {
							any = true
						}
					}
					if !any {
						continue
					}
					nSkip++
					key := fmt.Sprintf("util.DoFullUnicodeCaseFolding: skip cycle #%d", nSkip)
					decodeFailed := false
					for _, f := range facts {
						if bo, ok := f.C().(*ssa.BinOp); ok && bo.Op == token.EQL && f.Truth {
							for _, side := range []ssa.Value{bo.X, bo.Y} {
								if c, ok := constInt(side); ok && c == 0xFFFD {
									decodeFailed = true
								}
							}
						}
					}
					small := true
					for c := 0xC2; c < 256; c++ {
						if acc[c] {
							small = false
						}
					}
					switch {
					case decodeFailed:
						r.OK(key, w.blockPos(full[len(full)-2]), "skips the table because decoding failed (r == utf8.RuneError)")
					case small:
						r.OK(key, w.blockPos(full[len(full)-2]), "skips the table only for bytes "+byteSetString(acc)+" (ASCII or not the start of a character)")
					default:
						r.Bad(key, w.blockPos(full[len(full)-2]), "a cycle skips the case-folding table although v[i] may be "+byteSetString(acc)+" and decoding succeeded: characters of that class are never folded")
					}
					continue
				}
				if !l.body[s] || on[s] {
					continue
				}
				dfs(s)
			}
		}
		dfs(l.header)
		if overflow {
			r.Unknown("util.DoFullUnicodeCaseFolding: cycles", w.blockPos(l.header), "more than 4096 cycles")
		}
		r.Expect("cycles that skip the folding table", nSkip, 2)
	}
	r.Expect("folding loops", nLoops, 1)
}
