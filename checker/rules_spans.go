package main

// rules_spans.go — C08-V: in the inline phase, bytes of a span whose two ends come from different positions (and which
// can therefore cross a line boundary) are read through the block reader, never straight out of the source: between
// the lines of a block inside a container the source holds the container's markers ("> "), which are not content.

import (
	"fmt"
	"go/token"
	"sort"

	"golang.org/x/tools/go/ssa"
)

// posBases: the struct values whose Start/Stop fields an integer expression is computed from.
func posBases(v ssa.Value) map[ssa.Value]bool {
	out := map[ssa.Value]bool{}
	operandsClosure(v, func(x ssa.Value) bool {
		switch y := x.(type) {
		case *ssa.Field:
			if _, f := fieldOfField(y); f != nil && (f.Name() == "Start" || f.Name() == "Stop") {
				out[structRoot(y.X)] = true
				return false
			}
		case *ssa.UnOp:
			if y.Op == token.MUL {
				if fa, ok := y.X.(*ssa.FieldAddr); ok {
					if _, f := fieldOfAddr(fa); f != nil && (f.Name() == "Start" || f.Name() == "Stop") {
						out[structRoot(fa.X)] = true
						return false
					}
				}
			}
		case *ssa.Call:
			return false
		}
		return true
	})
	return out
}

func structRoot(v ssa.Value) ssa.Value {
	for {
		switch x := v.(type) {
		case *ssa.Field:
			v = x.X
		case *ssa.FieldAddr:
			v = x.X
		case *ssa.UnOp:
			if x.Op == token.MUL {
				v = x.X
			} else {
				return v
			}
		default:
			return throughCell(v)
		}
	}
}

func disjointBases(a, b map[ssa.Value]bool) bool {
	if len(a) == 0 || len(b) == 0 {
		return false
	}
	for x := range a {
		if b[x] {
			return false
		}
	}
	return true
}

func isSourceCall(v ssa.Value) bool {
	c, ok := v.(*ssa.Call)
	if !ok {
		return false
	}
	_, _, ok = methodCallOn(c, "Source")
	return ok
}

func ruleSpansThroughReader(w *World, r *Report) {
	r.Rule("C08-V", "In every InlineParser.Parse of the module and the module functions they pass the block reader to: source bytes are never taken for a span whose start and end are computed from two different segment values — neither by slicing reader.Source()[a:b] nor by text.NewSegment(a, b).Value(reader.Source()). Such a span can cross a line boundary (a link label continued on the next line); inside a block quote or list item the raw source between the lines contains the container markers, so the same text yields a different label when quoted. BlockReader.Value(segment) assembles the span from the block's own line segments and is the only accepted reader for it.")
	ipI := w.Iface("parser", "InlineParser")
	seen := map[*ssa.Function]bool{}
	var work []*ssa.Function
	for _, t := range w.Implementers(ipI) {
		if m := w.MethodOf(t, "Parse"); m != nil && w.InModule(m) {
			work = append(work, m)
		}
	}
	nFns, nReads := 0, 0
	var fns []*ssa.Function
	for len(work) > 0 {
		fn := work[len(work)-1]
		work = work[:len(work)-1]
		if seen[fn] || fn.Blocks == nil {
			continue
		}
		seen[fn] = true
		fns = append(fns, fn)
		for _, b := range fn.Blocks {
			for _, ins := range b.Instrs {
				if c, ok := ins.(ssa.CallInstruction); ok {
					if cal := c.Common().StaticCallee(); cal != nil && w.InModule(cal) && cal.Pkg != nil && cal.Pkg == fn.Pkg {
						for _, a := range c.Common().Args {
							ts := typeShort(a.Type())
							if ts == "text.Reader" || ts == "text.BlockReader" {
								work = append(work, cal)
							}
						}
					}
				}
			}
		}
	}
	sort.Slice(fns, func(i, j int) bool { return fns[i].String() < fns[j].String() })
	newSeg := w.PkgFunc("text", "NewSegment")
	for _, fn := range fns {
		nFns++
		for _, b := range fn.Blocks {
			for _, ins := range b.Instrs {
				switch x := ins.(type) {
				case *ssa.Slice:
					if !isSourceCall(x.X) || x.Low == nil || x.High == nil {
						continue
					}
					nReads++
					key := fmt.Sprintf("%s: Source()[%s:%s]", w.FnKey(fn), stableName(x.Low), stableName(x.High))
					if disjointBases(posBases(x.Low), posBases(x.High)) {
						r.Bad(key, w.InstrPos(x), "the raw source is sliced between positions taken from two different segments: a span that crosses a line inside a container includes the container markers")
					} else {
						r.OK(key, w.InstrPos(x), "both bounds derive from one segment")
					}
				case *ssa.Call:
					recv, args, ok := methodCallOn(x, "Value")
					if !ok || len(args) != 1 || !isSourceCall(args[0]) {
						continue
					}
					_ = recv
					var segv ssa.Value
					if x.Common().IsInvoke() {
						continue
					}
					segv = throughCell(x.Common().Args[0])
					if u, isU := segv.(*ssa.UnOp); isU && u.Op == token.MUL {
						segv = throughCell(u)
					}
					if al, isA := x.Common().Args[0].(*ssa.Alloc); isA {
						for _, ref := range referrersOf(al) {
							if st, ok := ref.(*ssa.Store); ok && st.Addr == ssa.Value(al) {
								segv = st.Val
							}
						}
					}
					mk, isCall := segv.(*ssa.Call)
					if !isCall || newSeg == nil || mk.Common().StaticCallee() != newSeg || len(mk.Common().Args) != 2 {
						continue
					}
					nReads++
					key := fmt.Sprintf("%s: NewSegment(%s, %s).Value(Source())", w.FnKey(fn), stableName(mk.Common().Args[0]), stableName(mk.Common().Args[1]))
					if disjointBases(posBases(mk.Common().Args[0]), posBases(mk.Common().Args[1])) {
						r.Bad(key, w.InstrPos(x), "a segment built from two different positions is read straight from the source instead of through BlockReader.Value: across a line boundary inside a container it includes the container markers")
					} else {
						r.OK(key, w.InstrPos(x), "both ends derive from one segment")
					}
				}
			}
		}
	}
	r.Expect("inline-phase functions examined", nFns, 8)
	r.Note("C08-V: %d inline-phase functions, %d direct reads of source spans", nFns, nReads)
}

// ruleRenderersReadPerSegment (C08-R, also under C10): the same for the render side.
func ruleRenderersReadPerSegment(w *World, r *Report) {
	r.Rule("C08-R", "In packages renderer/html and extension, no function slices a []byte parameter (the document source handed to render functions) between positions taken from two different segment values (source[first.Start:last.Stop]). The lines of a node are separate segments because, inside a block quote or list item, the bytes between them are container markers and indentation: written in one piece they leak '> ' into the output — with Unsafe on, multi-line inline raw HTML then differs from its safe rendering by more than the placeholder.")
	n := 0
	for _, fn := range w.Funcs {
		pk := w.PkgOf(fn)
		if pk != modPath+"/renderer/html" && pk != modPath+"/extension" {
			continue
		}
		for _, b := range fn.Blocks {
			for _, ins := range b.Instrs {
				x, ok := ins.(*ssa.Slice)
				if !ok || x.Low == nil || x.High == nil || !isByteSlice(x.X.Type()) {
					continue
				}
				if _, isParam := x.X.(*ssa.Parameter); !isParam {
					continue
				}
				lo, hi := posBases(x.Low), posBases(x.High)
				if len(lo) == 0 || len(hi) == 0 {
					continue
				}
				n++
				key := fmt.Sprintf("%s: %s[%s:%s]", w.FnKey(fn), stableName(x.X), stableName(x.Low), stableName(x.High))
				if disjointBases(lo, hi) {
					r.Bad(key, w.InstrPos(x), "the source is sliced between positions of two different segments: between the lines of a node inside a container it holds the container's markers, which are not content")
				} else {
					r.OK(key, w.InstrPos(x), "both bounds derive from one segment")
				}
			}
		}
	}
	if n == 0 {
		r.OK("no render-side slice of the source between segment positions", "", "nothing to judge: node text is read through Segment.Value / Lines().At(i)")
	}
}
