package main

// rules_c17.go — C17: every rendered table is rectangular (DESIGN 3/C17).
//
//	C17-G header guard: the table is built only under header != nil and len(alignments) == header cell count
//	C17-P the header's cell count is the count of cells written in the source: no padding in header mode
//	C17-R one cell per column index in the row builder: per-iteration accounting, bounded by len(alignments),
//	      every return of a body row has reached the column count
//	C17-A each scanned cell takes alignments[i] for its own column index i
//	C17-H one header, then rows only

import (
	"fmt"
	"go/token"
	"go/types"
	"strings"

	"golang.org/x/tools/go/ssa"
)

func init() {
	register(&Property{
		ID:      "C17",
		Level:   "other",
		Explain: "Decides, for the table paragraph transformer and its row builder (found by role: the ParagraphTransformer that constructs a Table node, and the function it calls that returns a TableRow): (G) the table node is constructed only where the header row is non-nil and len(alignments) equals the header's child count; (P) in header mode the row builder appends only cells scanned from the source — the padding loop is unreachable — so that count is the number of cells written in the header line; (R) in every loop of the row builder each iteration appends exactly one cell allocated in that iteration and advances the column counter by exactly one, a body-row cell is appended only where counter < len(alignments), and every return of a body row is reached only where counter >= len(alignments): by induction every body row has exactly len(alignments) cells — short rows padded, long rows truncated; (A) a scanned cell's alignment is alignments[counter] for the same counter; (I) no loop in the table code advances a sibling cursor through a node it detached in the same iteration (a truncation written as remove-while-iterating stops after the first cell); (H) the transformer appends exactly one header and otherwise only body rows built with the same alignments. Not decided: how cell text is split (escaped pipes, code spans), the delimiter-row grammar, rendering of thead/tbody; relies on C05-P/C13-P for ChildCount being the number of children.",
		Trusted: []string{"AppendChild attaches exactly one child (C05-P)"},
		Assumes: []string{"built-in table extension only"},
		Rules: []func(*World, *Report){ruleTableShape, ruleTableWrappers,
			ruleIterationSafety("C17-I", func(w *World, fn *ssa.Function) bool { return inSourceFile(w, fn, "extension/table.go") }, 0)},
	})
}

type tableModel struct {
	transform *ssa.Function
	rowFn     *ssa.Function
	alignP    *ssa.Parameter // []Alignment parameter of the row builder
	headerP   *ssa.Parameter // bool "header mode" parameter
	headerIdx int
}

func (w *World) tableModel() (*tableModel, string) {
	pt := w.Iface("parser", "ParagraphTransformer")
	tableT := w.Named("extension/ast", "Table")
	rowT := w.Named("extension/ast", "TableRow")
	if pt == nil || tableT == nil || rowT == nil {
		return nil, "ParagraphTransformer / Table / TableRow not found"
	}
	m := &tableModel{}
	for _, t := range w.Implementers(pt) {
		tf := w.MethodOf(t, "Transform")
		if tf == nil || tf.Blocks == nil {
			continue
		}
		for _, b := range tf.Blocks {
			for _, ins := range b.Instrs {
				if c, ok := ins.(*ssa.Call); ok {
					if nt := namedOf(c.Type()); nt != nil && nt.Obj() == tableT.Obj() && c.Common().StaticCallee() != nil {
						m.transform = tf
					}
				}
			}
		}
	}
	if m.transform == nil {
		return nil, "no ParagraphTransformer constructs a Table"
	}
	for _, b := range m.transform.Blocks {
		for _, ins := range b.Instrs {
			if c, ok := ins.(*ssa.Call); ok {
				cal := c.Common().StaticCallee()
				if cal != nil && w.InModule(cal) && cal.Blocks != nil && len(cal.Blocks) > 3 {
					if nt := namedOf(c.Type()); nt != nil && nt.Obj() == rowT.Obj() {
						m.rowFn = cal
					}
				}
			}
		}
	}
	if m.rowFn == nil {
		return nil, "the transformer calls no row builder returning *TableRow"
	}
	for i, p := range m.rowFn.Params {
		if sl, ok := p.Type().Underlying().(*types.Slice); ok {
			if nt, ok := sl.Elem().(*types.Named); ok && nt.Obj().Name() == "Alignment" {
				m.alignP = p
			}
		}
		if isBool(p.Type()) {
			m.headerP, m.headerIdx = p, i
		}
	}
	if m.alignP == nil || m.headerP == nil {
		return nil, "row builder has no alignments / header-mode parameter"
	}
	return m, ""
}

func (m *tableModel) isLenAlign(v ssa.Value) bool {
	c, ok := stripConv(v).(*ssa.Call)
	return ok && builtinName(c.Common()) == "len" && c.Common().Args[0] == ssa.Value(m.alignP)
}

func isIntPhi(v ssa.Value) bool {
	p, ok := stripConv(v).(*ssa.Phi)
	return ok && isInteger(p.Type())
}

// headerFact: the fact says header mode is on (truth) / off.
func (m *tableModel) headerFact(cf CondFact) (bool, bool) {
	for _, a := range condAtoms(cf.If.Cond, cf.Truth) {
		if a.V == ssa.Value(m.headerP) {
			return a.Truth, true
		}
	}
	return false, false
}

func pathCondFacts(p Path) []CondFact {
	var out []CondFact
	for i := 0; i+1 < len(p.Blocks); i++ {
		b := p.Blocks[i]
		if iff, ok := b.Instrs[len(b.Instrs)-1].(*ssa.If); ok && len(b.Succs) == 2 && b.Succs[0] != b.Succs[1] {
			out = append(out, CondFact{If: iff, Truth: p.Edges[i] == 0})
		}
	}
	return out
}

func (w *World) isAppendChildOn(ins ssa.Instruction, isRecv func(ssa.Value) bool) (ssa.Value, bool) {
	c, ok := ins.(ssa.CallInstruction)
	if !ok {
		return nil, false
	}
	com := c.Common()
	if com.IsInvoke() {
		if com.Method.Name() == "AppendChild" && len(com.Args) == 2 && isRecv(com.Value) {
			return com.Args[1], true
		}
		return nil, false
	}
	cal := com.StaticCallee()
	if cal != nil && cal.Name() == "AppendChild" && len(com.Args) == 3 {
		root := com.Args[0]
		for {
			if fa, ok := root.(*ssa.FieldAddr); ok {
				root = fa.X
				continue
			}
			break
		}
		if isRecv(root) || isRecv(com.Args[1]) {
			return com.Args[2], true
		}
	}
	return nil, false
}

func ruleTableShape(w *World, r *Report) {
	m, why := w.tableModel()
	r.Rule("C17-G", "In the table paragraph transformer the call that constructs the Table node is dominated by header != nil and by the equal edge of a comparison of len(alignments) with the header row's ChildCount().")
	if m == nil {
		r.Unknown("table transformer", "", why)
		return
	}
	tf, rf := m.transform, m.rowFn
	tableT := w.Named("extension/ast", "Table")
	// header value: the row-builder call with header-mode constant true
	var headerCall, bodyCall *ssa.Call
	nRowCalls := 0
	rowCallsIn := func(fn *ssa.Function) {
		for _, b := range fn.Blocks {
			for _, ins := range b.Instrs {
				c, ok := ins.(*ssa.Call)
				if !ok || c.Common().StaticCallee() != rf {
					continue
				}
				nRowCalls++
				if bv, ok := constBool(c.Common().Args[m.headerIdx]); ok {
					if bv {
						headerCall = c
					} else {
						bodyCall = c
					}
				}
			}
		}
	}
	rowCallsIn(tf)
	// the construction of the table may be a helper of the transformer that receives the header row and the alignments
	// (builder); guardSite is the instruction in the transformer that the header guard must dominate
	builder := tf
	var guardSite ssa.Instruction
	var newTable *ssa.Call
	findNewTable := func(fn *ssa.Function) *ssa.Call {
		var out *ssa.Call
		for _, b := range fn.Blocks {
			for _, ins := range b.Instrs {
				if c, ok := ins.(*ssa.Call); ok {
					if nt := namedOf(c.Type()); nt != nil && nt.Obj() == tableT.Obj() && c.Common().StaticCallee() != nil && c.Common().StaticCallee().Pkg != fn.Pkg {
						out = c
					}
				}
			}
		}
		return out
	}
	newTable = findNewTable(tf)
	var hv, av ssa.Value // the header row and the alignments as seen inside the builder
	if headerCall != nil {
		hv = headerCall
		av = headerCall.Common().Args[paramIndex(rf, m.alignP)]
	}
	if newTable != nil {
		guardSite = newTable
	} else if headerCall != nil {
		for _, b := range tf.Blocks {
			for _, ins := range b.Instrs {
				c, ok := ins.(*ssa.Call)
				if !ok {
					continue
				}
				cal := c.Common().StaticCallee()
				if cal == nil || !w.InModule(cal) || cal == rf || cal.Blocks == nil || findNewTable(cal) == nil {
					continue
				}
				var ph, pa ssa.Value
				for ai, a := range c.Common().Args {
					if ai >= len(cal.Params) {
						continue
					}
					if stripIfaceConv(a) == ssa.Value(headerCall) {
						ph = cal.Params[ai]
					}
					if a == av {
						pa = cal.Params[ai]
					}
				}
				if ph != nil && pa != nil {
					builder, guardSite, newTable = cal, c, findNewTable(cal)
					hv, av = ph, pa
					rowCallsIn(cal)
				}
			}
		}
	}
	if headerCall == nil || bodyCall == nil || newTable == nil {
		r.Unknown("table transformer: header/body row calls", w.FnPos(tf), "the row builder is not called once with header mode true and once with false (in the transformer or in the helper that builds the table)")
		return
	}
	alignV := headerCall.Common().Args[paramIndex(rf, m.alignP)]
	isHeaderCount := func(v ssa.Value) bool {
		c, ok := stripConv(v).(*ssa.Call)
		if !ok {
			return false
		}
		com := c.Common()
		if com.IsInvoke() {
			return com.Method.Name() == "ChildCount" && stripIfaceConv(com.Value) == ssa.Value(headerCall)
		}
		cal := com.StaticCallee()
		if cal == nil || cal.Name() != "ChildCount" || len(com.Args) != 1 {
			return false
		}
		// promoted method: receiver is &header.BaseBlock.BaseNode
		a := com.Args[0]
		for {
			if fa, ok := a.(*ssa.FieldAddr); ok {
				a = fa.X
				continue
			}
			break
		}
		return a == ssa.Value(headerCall)
	}
	isLenOfAlign := func(v ssa.Value) bool {
		c, ok := stripConv(v).(*ssa.Call)
		return ok && builtinName(c.Common()) == "len" && c.Common().Args[0] == alignV
	}
	nonNil, eq := false, false
	for _, cf := range dominatingConds(guardSite.Block()) {
		for _, a := range condAtoms(cf.If.Cond, cf.Truth) {
			if x, isNil, ok := nilTest(a.V); ok && x == ssa.Value(headerCall) && isNil != a.Truth {
				nonNil = true
			}
			if b, ok := a.V.(*ssa.BinOp); ok {
				if (b.Op == token.EQL && a.Truth) || (b.Op == token.NEQ && !a.Truth) {
					if (isLenOfAlign(b.X) && isHeaderCount(b.Y)) || (isLenOfAlign(b.Y) && isHeaderCount(b.X)) {
						eq = true
					}
				}
			}
		}
	}
	gkey := w.FnKey(tf) + ": table construction"
	if nonNil && eq {
		r.OK(gkey, w.InstrPos(newTable), "dominated by header != nil and len(alignments) == header.ChildCount()")
	} else {
		r.Bad(gkey, w.InstrPos(newTable), fmt.Sprintf("the Table node is constructed without the full header guard (header non-nil: %v, len(alignments) == header.ChildCount(): %v): a header whose cell count differs from the delimiter row can become a table", nonNil, eq))
	}

	// ---- C17-H -----------------------------------------------------------------
	r.Rule("C17-H", "The transformer appends to the table exactly one header node (built from the header-mode row) and otherwise only rows returned by the row builder in body mode with the same alignments value.")
	nHeader, nBody, nOther := 0, 0, 0
	for _, b := range builder.Blocks {
		for _, ins := range b.Instrs {
			child, ok := w.isAppendChildOn(ins, func(v ssa.Value) bool { return stripIfaceConv(v) == ssa.Value(newTable) })
			if !ok {
				continue
			}
			ch := stripIfaceConv(child)
			if c, ok := ch.(*ssa.Call); ok {
				if c.Common().StaticCallee() == rf {
					if bv, ok := constBool(c.Common().Args[m.headerIdx]); ok && !bv && c.Common().Args[paramIndex(rf, m.alignP)] == av {
						nBody++
						continue
					}
				}
				// NewTableHeader(header)
				usesHeader := false
				for _, a := range c.Common().Args {
					if stripIfaceConv(a) == hv {
						usesHeader = true
					}
				}
				if usesHeader {
					nHeader++
					continue
				}
			}
			nOther++
		}
	}
	hkey := w.FnKey(tf) + ": children of the table"
	if nHeader == 1 && nBody >= 1 && nOther == 0 {
		r.OK(hkey, w.FnPos(tf), fmt.Sprintf("1 header append, %d body-row append site(s), nothing else", nBody))
	} else {
		r.Bad(hkey, w.FnPos(tf), fmt.Sprintf("header appends: %d, body-row append sites: %d, other appends: %d", nHeader, nBody, nOther))
	}

	// ---- row builder ---------------------------------------------------------------
	rowT := w.Named("extension/ast", "TableRow")
	isRow := func(v ssa.Value) bool {
		v = stripIfaceConv(v)
		nt := namedOf(v.Type())
		return nt != nil && nt.Obj() == rowT.Obj()
	}
	loops, irr := naturalLoops(rf)
	if irr > 0 {
		r.Unknown(w.FnKey(rf)+": control flow", w.FnPos(rf), "irreducible")
		return
	}
	r.Rule("C17-R", "Row builder: in every loop that appends to the row, every cycle header→header appends exactly one cell, that cell is allocated inside the loop, and the column counter (the integer loop variable compared with len(alignments)) advances by exactly 1; in body mode the append is reached only under counter < len(alignments); every return is reached either in header mode or under counter >= len(alignments).")
	r.Rule("C17-P", "Row builder: a loop whose continuation depends only on counter < len(alignments) (padding) is reached only in body mode — in header mode the row contains exactly the cells scanned from the source line, so the header guard compares the real header width.")
	r.Rule("C17-A", "Row builder: a store into an Alignment-typed field of a cell inside a loop stores either a constant or alignments[counter] for the loop's own counter.")
	nAppendLoops := 0
	counters := map[*ssa.Phi]*natLoop{} // column counter of every loop that appends cells
	counterKeys := map[*ssa.Phi]string{}
	defer func() {
		// counter continuity: the number of cells equals the counter only if every appending loop starts counting where
		// the previous one stopped
		r.curRule = "C17-R"
		for c, l := range counters {
			ckey := counterKeys[c] + ": counter starts at the number of cells appended so far"
			okC, why := true, ""
			for pi, pr := range l.header.Preds {
				if l.body[pr] {
					continue
				}
				var leaves []ssa.Value
				seenPhi := map[*ssa.Phi]bool{}
				var walk func(v ssa.Value)
				walk = func(v ssa.Value) {
					v = stripConv(v)
					if p2, isP := v.(*ssa.Phi); isP && counters[p2] == nil && !seenPhi[p2] {
						seenPhi[p2] = true
						for _, e := range p2.Edges {
							walk(e)
						}
						return
					}
					leaves = append(leaves, v)
				}
				walk(c.Edges[pi])
				for _, leaf := range leaves {
					if z, isC := constInt(leaf); isC && z == 0 {
						// zero is right only if no other appending loop can run before this one
						for c2, l2 := range counters {
							if c2 != c && l2.header.Dominates(l.header) {
								okC, why = false, "it restarts at 0 after an earlier loop has appended cells"
							}
						}
						continue
					}
					if p2, isP := leaf.(*ssa.Phi); isP && counters[p2] != nil && p2 != c {
						continue
					}
					okC, why = false, fmt.Sprintf("its initial value %s is neither 0 nor the column counter of the preceding cell loop", shortVal(leaf))
				}
			}
			if okC {
				r.OK(ckey, w.blockPos(l.header), "0 for the first loop, the previous loop's counter otherwise")
			} else {
				r.Bad(ckey, w.blockPos(l.header), "the column counter no longer counts the cells in the row: "+why+"; short rows are padded to the wrong width")
			}
		}
	}()
	for li, l := range loops {
		hasAppend := false
		for b := range l.body {
			for _, ins := range b.Instrs {
				if _, ok := w.isAppendChildOn(ins, isRow); ok {
					hasAppend = true
				}
			}
		}
		if !hasAppend {
			continue
		}
		// inner loops are visited through their outer loop's cycles; only treat loops whose own cycles contain the append
		var phis []*ssa.Phi
		for _, ins := range l.header.Instrs {
			if p, ok := ins.(*ssa.Phi); ok && isInteger(p.Type()) {
				phis = append(phis, p)
			}
		}
		var counter *ssa.Phi
		for _, p := range phis {
			for _, ref := range referrersOf(p) {
				if b, ok := ref.(*ssa.BinOp); ok && (m.isLenAlign(b.X) || m.isLenAlign(b.Y)) {
					counter = p
				}
			}
		}
		lkey := fmt.Sprintf("%s: loop #%d (%s)", w.FnKey(rf), li+1, l.header.Comment)
		if counter == nil {
			r.Bad(lkey, w.blockPos(l.header), "a loop appends cells to the row but has no column counter compared with len(alignments)")
			continue
		}
		nAppendLoops++
		counters[counter] = l
		counterKeys[counter] = lkey
		r.curRule = "C17-R"
		// padding loop? header condition compares only counter with len(alignments) (possibly after a header-mode test)
		isPadding := false
		if iff, ok := l.header.Instrs[len(l.header.Instrs)-1].(*ssa.If); ok {
			if b, ok := iff.Cond.(*ssa.BinOp); ok && ((stripConv(b.X) == ssa.Value(counter) && m.isLenAlign(b.Y)) || (stripConv(b.Y) == ssa.Value(counter) && m.isLenAlign(b.X))) {
				isPadding = true
			}
		}
		nCycles, bad := 0, false
		var path []*ssa.BasicBlock
		on := map[*ssa.BasicBlock]bool{}
		var dfs func(b *ssa.BasicBlock)
		dfs = func(b *ssa.BasicBlock) {
			if nCycles > maxPaths || bad {
				return
			}
			path = append(path, b)
			on[b] = true
			defer func() { path = path[:len(path)-1]; on[b] = false }()
			for _, s := range b.Succs {
				if s == l.header {
					nCycles++
					full := append(append([]*ssa.BasicBlock{}, path...), l.header)
					facts := factsAlong(full)
					nApp := 0
					var appIns ssa.Instruction
					var child ssa.Value
					for _, pb := range path {
						for _, ins := range pb.Instrs {
							if ch, ok := w.isAppendChildOn(ins, isRow); ok {
								nApp++
								appIns, child = ins, ch
							}
						}
					}
					var inc ssa.Value
					for pi, pr := range l.header.Preds {
						if pr == b {
							inc = resolveAlong(counter.Edges[pi], path)
						}
					}
					step := int64(-99)
					if inc == ssa.Value(counter) {
						step = 0
					} else if bo, ok := stripConv(inc).(*ssa.BinOp); ok && bo.Op == token.ADD && stripConv(bo.X) == ssa.Value(counter) {
						if c, ok := constInt(bo.Y); ok {
							step = c
						}
					}
					if nApp != 1 || step != 1 {
						bad = true
						r.Bad(lkey+": cells per iteration", w.blockPos(b), fmt.Sprintf("an iteration appends %d cell(s) while the column counter advances by %d: cells and column indexes no longer correspond", nApp, step))
						return
					}
					// allocated in this iteration
					chv := stripIfaceConv(child)
					if ins, ok := chv.(ssa.Instruction); !ok || !l.body[ins.Block()] {
						bad = true
						r.Bad(lkey+": fresh cell per iteration", w.InstrPos(appIns), "the appended cell is not created inside the loop: appending the same node again moves it instead of adding a cell")
						return
					}
					// body mode: under counter < len(alignments)
					okBound := false
					for _, cf := range facts {
						if impliesLess(cf.If.Cond, cf.Truth, func(v ssa.Value) bool { return v == ssa.Value(counter) }, m.isLenAlign) {
							okBound = true
						}
						if hv, ok := m.headerFact(cf); ok && hv {
							okBound = true
						}
					}
					if !okBound {
						bad = true
						r.Bad(lkey+": bounded by the column count", w.InstrPos(appIns), "a body-row cell is appended on a path that has not established counter < len(alignments): rows longer than the header keep their excess cells")
						return
					}
					continue
				}
				if !l.body[s] || on[s] {
					continue
				}
				dfs(s)
			}
		}
		dfs(l.header)
		if nCycles > maxPaths {
			r.Unknown(lkey, w.blockPos(l.header), "more than 4096 cycles")
		} else if !bad {
			r.OK(lkey, w.blockPos(l.header), fmt.Sprintf("%d cycles: each appends exactly one fresh cell, advances the counter by 1 and is bounded by len(alignments) in body mode", nCycles))
		}
		// C17-P
		if isPadding {
			r.curRule = "C17-P"
			pkey := lkey + ": padding only in body mode"
			body := l.header.Succs[0]
			okP := false
			for _, cf := range dominatingConds(body) {
				if hv, ok := m.headerFact(cf); ok && !hv {
					okP = true
				}
			}
			if okP {
				r.OK(pkey, w.blockPos(l.header), "the padding loop's body is dominated by header mode == false")
			} else {
				r.Bad(pkey, w.blockPos(l.header), "the padding loop also runs for the header row: a header with fewer cells than the delimiter row is padded to len(alignments), so the header guard can never reject it")
			}
		}
		// C17-A
		r.curRule = "C17-A"
		for b := range l.body {
			for _, ins := range b.Instrs {
				st, ok := ins.(*ssa.Store)
				if !ok {
					continue
				}
				nt, isN := st.Val.Type().(*types.Named)
				if !isN || nt.Obj().Name() != "Alignment" {
					continue
				}
				akey := lkey + ": cell alignment"
				okA := true
				for _, leaf := range phiLeaves(st.Val) {
					if _, isC := leaf.(*ssa.Const); isC {
						continue
					}
					u, ok := leaf.(*ssa.UnOp)
					if ok && u.Op == token.MUL {
						if ia, ok := u.X.(*ssa.IndexAddr); ok && ia.X == ssa.Value(m.alignP) && stripConv(ia.Index) == ssa.Value(counter) {
							continue
						}
					}
					okA = false
				}
				if okA {
					r.OK(akey, w.InstrPos(ins), "constant or alignments[counter]")
				} else {
					r.Bad(akey, w.InstrPos(ins), "a cell's alignment is not alignments[i] for the cell's own column index")
				}
			}
		}
	}
	r.curRule = "C17-R"
	r.Expect("loops of the row builder that append cells", nAppendLoops, 1)
	// returns
	nRet := 0
	okAll := EnumPaths(rf.Blocks[0], map[string]bool{}, isReturnBlock, func(p Path) {
		last := p.Blocks[len(p.Blocks)-1]
		if !isReturnBlock(last) {
			return
		}
		nRet++
		facts := pathCondFacts(p)
		ok := false
		for _, cf := range facts {
			if hv, isH := m.headerFact(cf); isH && hv {
				ok = true
			}
		}
		// the last counter fact must say counter >= len(alignments)
		lastGE := false
		seenAny := false
		for _, cf := range facts {
			lt := impliesLess(cf.If.Cond, cf.Truth, isIntPhi, m.isLenAlign)
			ge := impliesLess(cf.If.Cond, !cf.Truth, isIntPhi, m.isLenAlign)
			if lt {
				lastGE, seenAny = false, true
			}
			if ge {
				lastGE, seenAny = true, true
			}
		}
		if seenAny && lastGE {
			ok = true
		}
		if !ok {
			var bl []string
			for _, b := range p.Blocks {
				bl = append(bl, fmt.Sprint(b.Index))
			}
			r.Bad(fmt.Sprintf("%s: return via blocks %s", w.FnKey(rf), strings.Join(bl, ",")), w.blockPos(last), "a body row can be returned on a path that has not established counter >= len(alignments): the row may have fewer cells than the header")
		}
	})
	if !okAll {
		r.Unknown(w.FnKey(rf)+": returns", w.FnPos(rf), "more than 4096 paths to a return")
	} else {
		r.OK(w.FnKey(rf)+": returns", w.FnPos(rf), fmt.Sprintf("%d acyclic paths to a return examined", nRet))
	}
	r.Expect("paths to a return of the row builder", nRet, 3)
}
