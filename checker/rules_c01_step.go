package main

// rules_c01_step.go — C01-Z: a scanning index that is advanced by a computed amount advances by a positive amount.
// C01-L finds cycles in which nothing changes; a cycle whose index is "advanced" by k with k == 0 is the same hang one
// level down (the truncated multi-byte sequence at the end of a one-byte link destination).

import (
	"fmt"
	"go/token"
	"sort"
	"strings"

	"golang.org/x/tools/go/ssa"
)

// reviewed exceptions: one named function each, with the reason.
var varStepReviewed = map[string]string{
	"text.findSubMatchReader": "the step is the size of a rune read from the reader up to match[1], an offset the regexp engine reached by reading the same reader from the same position: the reader cannot be at its end before that offset",
}

func ruleVariableStepPositive(w *World, r *Report) {
	r.Rule("C01-Z", "For every hand-written loop in code reachable from Convert/Parse/Render outside the once-initialisers, and in every function of packages util and text (public API and its helpers): when a loop-carried integer index is advanced on a back edge by a non-constant amount k (i += k, i = i + k), k is known to be positive: it is read from a constant table all of whose entries are >= 1 (directly or through a module function returning such an entry), or the back edge is dominated by a test excluding zero (k != 0, k > 0, k >= 1; false edge of k == 0 / k <= 0 / k < 1), or it is a phi of such values. Otherwise an input for which k is 0 repeats the same cycle for ever. Reviewed exceptions are listed by function with the reason.")
	e := w.Entries()
	reach := w.CG().Reach(e.All(), w.CG().OnceSkip())
	n := 0
	var fns []*ssa.Function
	for _, fn := range w.Funcs {
		if reach[fn] != nil || isEntry(e, fn) {
			fns = append(fns, fn)
			continue
		}
		if pk := w.PkgOf(fn); pk == modPath+"/util" || pk == modPath+"/text" {
			if fn.Name() == "init" || strings.HasPrefix(fn.Name(), "init#") || (fn.Parent() != nil && strings.HasPrefix(fn.Parent().Name(), "init")) {
				continue // table unpackers run once at start-up on constant data
			}
			fns = append(fns, fn)
		}
	}
	sort.Slice(fns, func(i, j int) bool { return fns[i].String() < fns[j].String() })
	for _, fn := range fns {
		loops, _ := naturalLoops(fn)
		for _, l := range loops {
			if isRangeLoop(l) {
				continue
			}
			for _, ins := range l.header.Instrs {
				ph, ok := ins.(*ssa.Phi)
				if !ok {
					break
				}
				if !isInteger(ph.Type()) || !exitDependsOn(l, ph) {
					continue // a counter that no exit test of the loop reads cannot keep the loop running
				}
				done := map[ssa.Value]bool{}
				for i, p := range l.header.Preds {
					if !l.body[p] {
						continue
					}
					k, at := stepOf(ph, ph.Edges[i])
					if k == nil || done[k] {
						continue
					}
					if _, isC := constInt(k); isC {
						continue
					}
					done[k] = true
					n++
					key := fmt.Sprintf("%s: %s advanced by %s", w.FnKey(fn), ph.Comment, stableName(k))
					if why, ok := varStepReviewed[w.FnKey(fn)]; ok {
						r.OK(key, w.InstrPos(at), "reviewed exception: "+why)
						continue
					}
					if why, ok := w.positiveStep(k, p, 0, map[ssa.Value]bool{}); ok {
						r.OK(key, w.InstrPos(at), why)
					} else {
						r.Bad(key, w.InstrPos(at), "the index is advanced by an amount that is neither taken from an all-positive constant table nor tested against zero on the way to the back edge: when it is 0 the loop repeats the same cycle for ever ("+why+")")
					}
				}
			}
		}
	}
	r.Expect("loop indices advanced by a computed amount", n, 2)
}

func isEntry(e Entries, fn *ssa.Function) bool {
	for _, f := range e.All() {
		if f == fn {
			return true
		}
	}
	return false
}

// stepOf: edge value is ph + k (possibly through one more addition chain ph + k stored in a temporary).
func stepOf(ph *ssa.Phi, e ssa.Value) (ssa.Value, ssa.Instruction) {
	bo, ok := e.(*ssa.BinOp)
	if !ok || bo.Op != token.ADD {
		return nil, nil
	}
	if bo.X == ssa.Value(ph) {
		return bo.Y, bo
	}
	if bo.Y == ssa.Value(ph) {
		return bo.X, bo
	}
	return nil, nil
}

// positiveStep: evidence that k >= 1 (or at least != 0) whenever the latch block `latch` is reached.
func (w *World) positiveStep(k ssa.Value, latch *ssa.BasicBlock, depth int, seen map[ssa.Value]bool) (string, bool) {
	if depth > 6 || seen[k] {
		return "cyclic or too deep", false
	}
	seen[k] = true
	if c, ok := constInt(k); ok {
		if c >= 1 {
			return "constant", true
		}
		return fmt.Sprintf("constant %d", c), false
	}
	// a dominating test excluding zero, on k or on what k is a conversion of
	cands := []ssa.Value{k, stripConv(k)}
	for _, cf := range dominatingConds(latch) {
		bo, ok := cf.If.Cond.(*ssa.BinOp)
		if !ok {
			continue
		}
		for _, kk := range cands {
			var other ssa.Value
			op := bo.Op
			if sameValue(bo.X, kk) {
				other = bo.Y
			} else if sameValue(bo.Y, kk) {
				other = bo.X
				switch op { // mirror
				case token.LSS:
					op = token.GTR
				case token.GTR:
					op = token.LSS
				case token.LEQ:
					op = token.GEQ
				case token.GEQ:
					op = token.LEQ
				}
			} else {
				continue
			}
			c, isC := constInt(other)
			if !isC {
				continue
			}
			t := cf.Truth
			switch {
			case op == token.NEQ && c == 0 && t, op == token.EQL && c == 0 && !t,
				op == token.GTR && c >= 0 && t, op == token.GEQ && c >= 1 && t,
				op == token.LEQ && c >= 0 && !t, op == token.LSS && c >= 1 && !t:
				return "zero excluded by a dominating test at " + w.InstrPos(cf.If), true
			}
		}
	}
	switch x := stripConv(k).(type) {
	case *ssa.Phi:
		for _, ed := range x.Edges {
			if why, ok := w.positiveStep(ed, latch, depth+1, seen); !ok {
				return "phi operand " + shortVal(ed) + ": " + why, false
			}
		}
		return "every phi operand is positive", true
	case *ssa.UnOp:
		if x.Op == token.MUL {
			if ia, ok := x.X.(*ssa.IndexAddr); ok {
				if g, ok := ia.X.(*ssa.Global); ok {
					if tbl, ok := w.constIntTable(g.Object()); ok && len(tbl) > 0 {
						for i, v := range tbl {
							if v < 1 {
								return fmt.Sprintf("table %s has entry %d = %d", g.Name(), i, v), false
							}
						}
						return "entry of constant table " + g.Name() + ", all entries >= 1", true
					}
				}
			}
		}
	case *ssa.Call:
		if cal := x.Common().StaticCallee(); cal != nil && w.InModule(cal) && cal.Blocks != nil {
			for _, b := range cal.Blocks {
				if ret, ok := b.Instrs[len(b.Instrs)-1].(*ssa.Return); ok && len(ret.Results) == 1 {
					if why, ok := w.positiveStep(ret.Results[0], b, depth+1, seen); !ok {
						return "result of " + cal.Name() + ": " + why, false
					}
				}
			}
			return "result of " + cal.Name() + ", positive on every return", true
		}
	}
	return "no evidence for " + shortVal(k), false
}

// exitDependsOn: some branch that can leave the loop has a condition computed from ph.
func exitDependsOn(l *natLoop, ph *ssa.Phi) bool {
	for b := range l.body {
		iff, ok := b.Instrs[len(b.Instrs)-1].(*ssa.If)
		if !ok {
			continue
		}
		leaves := false
		for _, s := range b.Succs {
			if !l.body[s] {
				leaves = true
			}
		}
		if !leaves {
			continue
		}
		found := false
		operandsClosure(iff.Cond, func(v ssa.Value) bool {
			if v == ssa.Value(ph) {
				found = true
			}
			if _, isPhi := v.(*ssa.Phi); isPhi && v != ssa.Value(ph) {
				return false
			}
			return !found
		})
		if found {
			return true
		}
	}
	return false
}
