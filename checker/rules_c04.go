package main

// rules_c04.go — C04: safe mode never emits a script-capable or local-file URL.

import (
	"fmt"
	"go/token"
	"sort"
	"strings"

	"golang.org/x/tools/go/ssa"
)

func init() {
	register(&Property{
		ID:      "C04",
		Level:   "other",
		Explain: "Decides, for every write of non-constant data into an href or src attribute value (found by the lexer-state dataflow of the sink model, all extensions included): (G) every path to the write passes the true edge of Config.Unsafe or the false edge of html.IsDangerousURL(x); (O) the bytes written are exactly EscapeHTML(x) of that same tested value x (or derived from x only by functions of the non-decoding table), written raw — not through the decoding text writer — so no escape or character reference is resolved after the check; (P) the predicate's constant tables are the four schemes and five data:image exemptions, compared case-insensitively. Does NOT decide that the predicate's list suffices for every browser, leading-whitespace/control-character stripping, or percent-decoding semantics.",
		Trusted: []string{"util.EscapeHTML does not decode", "non-decoding table: util.EscapeHTML, util.URLEscape(·, false)"},
		Assumes: []string{"user-supplied renderers out of scope"},
		Rules:   []func(*World, *Report){ruleURLSinks, ruleDangerousPredicate, ruleSchemeTestsUnconditional, ruleOptionValueStored, ruleSanitiserLoops, ruleRewritersReturnBuffer},
	})
}

// decoding functions: if one of these lies between the tested value and the written value,
// the check was applied to a spelling the browser never sees.
var decodingFuncs = map[string]bool{
	"UnescapePunctuations": true, "ResolveNumericReferences": true, "ResolveEntityNames": true,
}

func (w *World) isDangerousCall(v ssa.Value) (*ssa.Call, bool) {
	c, ok := v.(*ssa.Call)
	if !ok {
		return nil, false
	}
	cal := c.Common().StaticCallee()
	if cal == nil || cal != w.PkgFunc("renderer/html", "IsDangerousURL") {
		return nil, false
	}
	return c, true
}

func ruleURLSinks(w *World, r *Report) {
	lr := w.LexAll()
	r.Rule("C04-G", "Every non-constant write into an href/src attribute value is reachable only through the true edge of Config.Unsafe or the false edge of html.IsDangerousURL(x).")
	r.Rule("C04-O", "The value written is EscapeHTML(u) with u the same SSA value x that was tested, or derived from x only by non-decoding functions; the write does not go through the decoding text writer (html.Writer.Write); no URLEscape(·,true)/UnescapePunctuations/Resolve* lies between the tested value and the write.")
	n := 0
	for _, ev := range lr.Events {
		isURL := false
		for _, a := range ev.State.attrNames() {
			if a == "href" || a == "src" || a == "<dynamic>" && false {
				isURL = true
			}
		}
		if !isURL {
			continue
		}
		p := ev.Sink.Pieces[ev.Piece]
		if p.Const || p.Data.Kind == DConst || p.Data.Kind == DInt || p.Data.Kind == DConfig {
			continue
		}
		n++
		key := sinkKey(w, ev)
		pos := w.InstrPos(ev.Sink.Instr)
		fn := ev.Sink.Fn
		// --- G: collect the guards
		var tested []ssa.Value
		reach := w.reachableAvoidingCond(fn, ev.Sink.Instr.Block(), func(cond ssa.Value, truth bool) bool {
			for _, a := range condAtoms(cond, truth) {
				if a.Truth && w.isConfigFlagLoad(a.V, "Unsafe") {
					return true
				}
				if c, ok := w.isDangerousCall(a.V); ok && !a.Truth {
					tested = append(tested, c.Common().Args[0])
					return true
				}
			}
			return false
		})
		r.curRule = "C04-G"
		if reach {
			r.Bad(key, pos, "URL written on a path that passes neither Config.Unsafe==true nor IsDangerousURL(x)==false", ev.Chain...)
			continue
		}
		r.OK(key, pos, "every path passes Unsafe==true or IsDangerousURL(x)==false")
		// --- O
		r.curRule = "C04-O"
		if ev.Sink.Kind == SinkEscaped && ev.Sink.Method == "Writer.Write" {
			r.Bad(key, pos, "URL written through html.Writer.Write, which resolves backslash escapes and character references after the check", ev.Chain...)
			continue
		}
		if p.Data.Kind != DEscaped || len(p.Data.Src) == 0 {
			r.Bad(key, pos, "URL bytes are not the result of EscapeHTML: "+p.Data.Why, ev.Chain...)
			continue
		}
		if len(tested) == 0 {
			r.Bad(key, pos, "no IsDangerousURL test found on the paths to this write (only the Unsafe edge)", ev.Chain...)
			continue
		}
		okAll := true
		why := ""
		for _, src := range p.Data.Src {
			ok, reason := w.derivedWithoutDecoding(src, tested)
			if !ok {
				okAll = false
				why = reason
			}
		}
		if okAll {
			r.OK(key, pos, "writes EscapeHTML of the tested value (no decoding between the check and the write)")
		} else {
			r.Bad(key, pos, "the value written is not the value that was tested: "+why, ev.Chain...)
		}
	}
	r.curRule = "C04-G"
	r.Expect("non-constant href/src writes", n, 1)
}

// derivedWithoutDecoding: v is one of the tested values, or reaches one through non-decoding functions only.
func (w *World) derivedWithoutDecoding(v ssa.Value, tested []ssa.Value) (bool, string) {
	for depth := 0; depth < 8; depth++ {
		for _, t := range tested {
			if v == t {
				return true, ""
			}
		}
		c, ok := v.(*ssa.Call)
		if !ok {
			return false, "written value " + dstDesc(v) + " is not the tested value"
		}
		cal := c.Common().StaticCallee()
		if cal == nil {
			return false, "written value comes from a dynamic call"
		}
		switch {
		case cal == w.PkgFunc("util", "EscapeHTML"):
			v = c.Common().Args[0]
		case cal == w.PkgFunc("util", "URLEscape"):
			if b, ok := constBool(c.Common().Args[1]); ok && !b {
				v = c.Common().Args[0]
			} else {
				return false, "URLEscape(·, true) resolves escapes and references after the check"
			}
		case decodingFuncs[cal.Name()]:
			return false, cal.Name() + " decodes after the check"
		default:
			return false, "written value passes through " + w.FnKey(cal) + " after the check"
		}
	}
	return false, "derivation too deep"
}

func ruleDangerousPredicate(w *World, r *Report) {
	r.Rule("C04-P", "html.IsDangerousURL compares, case-insensitively, against exactly the prefixes javascript:, vbscript:, file:, data: and exempts exactly data:image/{png;,gif;,jpeg;,webp;,svg+xml;} (constants evaluated from the package-level byte-slice literals); the helper lower-cases both operands.")
	fn := w.PkgFunc("renderer/html", "IsDangerousURL")
	if fn == nil {
		r.Unknown("html.IsDangerousURL", "", "function not found")
		return
	}
	consts := map[string]bool{}
	helpers := map[*ssa.Function]bool{}
	for _, b := range fn.Blocks {
		for _, ins := range b.Instrs {
			c, ok := ins.(*ssa.Call)
			if !ok {
				continue
			}
			cal := c.Common().StaticCallee()
			if cal == nil {
				continue
			}
			for _, a := range c.Common().Args {
				if s, ok := w.constBytes(a); ok {
					consts[s] = true
					if w.InModule(cal) {
						helpers[cal] = true
					}
				}
			}
			if pt, ok := w.prefixTestOf(c); ok && len(pt.prefixes) > 1 {
				for _, s := range pt.prefixes {
					consts[s] = true
				}
				// the two-argument test the any-of helper applies
				for _, hb := range cal.Blocks {
					for _, hi := range hb.Instrs {
						if hc, ok := hi.(*ssa.Call); ok && len(hc.Common().Args) == 2 {
							if h := hc.Common().StaticCallee(); h != nil && w.InModule(h) {
								helpers[h] = true
							}
						}
					}
				}
			}
		}
	}
	want := []string{"data:", "data:image/", "file:", "gif;", "javascript:", "jpeg;", "png;", "svg+xml;", "vbscript:", "webp;"}
	got := sortedKeys(consts)
	if strings.Join(got, " ") == strings.Join(want, " ") {
		r.OK("IsDangerousURL: prefix constants", w.FnPos(fn), strings.Join(got, " "))
	} else {
		r.Bad("IsDangerousURL: prefix constants", w.FnPos(fn), fmt.Sprintf("prefix set is %v, expected %v", got, want))
	}
	// case-insensitive helper: both operands pass through bytes.ToLower (or EqualFold)
	var hs []*ssa.Function
	for h := range helpers {
		hs = append(hs, h)
	}
	sort.Slice(hs, func(i, j int) bool { return hs[i].String() < hs[j].String() })
	if len(hs) == 0 {
		r.Unknown("IsDangerousURL: comparison helper", w.FnPos(fn), "no module helper receiving the constant prefixes found")
	}
	for _, h := range hs {
		lower := 0
		fold := false
		for _, b := range h.Blocks {
			for _, ins := range b.Instrs {
				if c, ok := ins.(*ssa.Call); ok {
					if cal := c.Common().StaticCallee(); cal != nil {
						switch cal.String() {
						case "bytes.ToLower":
							lower++
						case "bytes.EqualFold":
							fold = true
						}
					}
				}
			}
		}
		key := w.FnKey(h) + ": case-insensitive comparison"
		if lower >= 2 || fold {
			r.OK(key, w.FnPos(h), "both operands are lower-cased (or EqualFold is used)")
		} else {
			r.Bad(key, w.FnPos(h), "prefix comparison is not case-insensitive on both operands")
		}
	}
	// the four dangerous prefixes must each lead to a `true` result: the call's value flows into the return
	ret := map[string]bool{}
	for _, b := range fn.Blocks {
		for _, ins := range b.Instrs {
			c, ok := ins.(*ssa.Call)
			if !ok || len(c.Common().Args) < 2 {
				continue
			}
			pt, ok := w.prefixTestOf(c)
			if !ok {
				continue
			}
			if flowsToReturnTrue(c) {
				for _, s := range pt.prefixes {
					ret[s] = true
				}
			}
		}
	}
	for _, p := range []string{"javascript:", "vbscript:", "file:", "data:"} {
		key := "IsDangerousURL: " + p + " => true"
		if ret[p] {
			r.OK(key, w.FnPos(fn), "a match makes the function return true")
		} else {
			r.Bad(key, w.FnPos(fn), "a match of this prefix does not lead to a true result")
		}
	}
}

// ruleSchemeTestsUnconditional (C04-P, path clause): the predicate answers "not dangerous" only after all four scheme
// tests have failed (or through the data:image exemption).
func ruleSchemeTestsUnconditional(w *World, r *Report) {
	r.Rule("C04-Q", "Every path through html.IsDangerousURL that returns false has seen each of the four scheme tests — javascript:, vbscript:, file:, data: against the url argument itself — fail on that path, or has passed the data:image/ exemption (prefix data:image/ matched and one of the listed media types matched), or knows the url to be shorter than the shortest scheme (a fact len(url) < c with c <= 5). A length or colon-position shortcut that returns false earlier (url shorter than 'data:image/'; a switch on the index of ':' with a wrong case label) lets 'file:///x', 'data:,x' or 'vbscript:' through.")
	fn := w.PkgFunc("renderer/html", "IsDangerousURL")
	if fn == nil || fn.Blocks == nil || len(fn.Params) != 1 {
		r.Unknown("html.IsDangerousURL", "", "function not found")
		return
	}
	url := fn.Params[0]
	schemes := []string{"javascript:", "vbscript:", "file:", "data:"}
	// prefix test: a call with (url, constant) whose callee is a module helper or bytes.HasPrefix
	prefixOf := func(v ssa.Value) ([]string, bool, bool) { // constants, subject is the url argument itself, ok
		pt, ok := w.prefixTestOf(v)
		if !ok {
			return nil, false, false
		}
		return pt.prefixes, pt.subject == ssa.Value(url), true
	}
	nPaths, nFalse := 0, 0
	bad := ""
	complete := EnumPaths(fn.Blocks[0], map[string]bool{}, isReturnBlock, func(p Path) {
		nPaths++
		last := p.Blocks[len(p.Blocks)-1]
		ret := last.Instrs[len(last.Instrs)-1].(*ssa.Return)
		val := resolveAlong(ret.Results[0], p.Blocks)
		failed := map[string]bool{}
		exempt, short := false, false
		sawImage := false
		note := func(cond ssa.Value, truth bool) {
			for _, a := range condAtoms(cond, truth) {
				if ss, onURL, ok := prefixOf(a.V); ok {
					if onURL && !a.Truth {
						for _, s := range ss {
							failed[s] = true // a failed any-of test means every listed prefix failed
						}
					}
					if onURL && a.Truth && len(ss) == 1 && ss[0] == "data:image/" {
						sawImage = true
					}
					if !onURL && sawImage {
						exempt = true // the media-type decision behind data:image/
					}
				}
				if bo, ok := a.V.(*ssa.BinOp); ok {
					if l := lenOf(bo.X); l == ssa.Value(url) {
						if c, isC := constInt(bo.Y); isC {
							if (bo.Op == token.LSS && a.Truth && c <= 5) || (bo.Op == token.GEQ && !a.Truth && c <= 5) || (bo.Op == token.EQL && a.Truth && c == 0) {
								short = true
							}
						}
					}
				}
			}
		}
		for i := 0; i+1 < len(p.Blocks); i++ {
			if iff, ok := p.Blocks[i].Instrs[len(p.Blocks[i].Instrs)-1].(*ssa.If); ok {
				note(resolveAlong(iff.Cond, p.Blocks[:i+1]), p.Edges[i] == 0)
			}
		}
		// the returned value on this path
		if b, isC := constBool(val); isC {
			if b {
				return
			}
		} else {
			// returned as the value of a last test: the path returns false when that test fails
			if sawImage {
				return // inside the data:image/ arm the result is the media-type decision (constants checked by C04-P)
			}
			note(val, false)
			if _, _, ok := prefixOf(val); !ok {
				if bad == "" {
					bad = w.InstrPos(ret) + ": returns a value that is not a scheme test"
				}
				return
			}
		}
		nFalse++
		if exempt || short {
			return
		}
		for _, sch := range schemes {
			if !failed[sch] && bad == "" {
				bad = fmt.Sprintf("%s: a path returns false without having tested %q against the url", w.InstrPos(ret), sch)
			}
		}
	})
	key := "IsDangerousURL: false only after every scheme test failed"
	switch {
	case !complete:
		r.Unknown(key, w.FnPos(fn), "path bound exceeded")
	case bad != "":
		r.Bad(key, w.FnPos(fn), bad)
	default:
		r.OK(key, w.FnPos(fn), fmt.Sprintf("%d paths, %d of them can return false: each after all four tests failed or through the data:image exemption", nPaths, nFalse))
	}
}

// prefixTest describes a call that tests a subject against constant prefixes: a two-argument test
// (helper(url, K) / bytes.HasPrefix(url, K)) or an "any of" helper taking the prefixes as variadic arguments
// (helper(url, K1, K2, …), a module function that returns true exactly when its two-argument test matches one element).
type prefixTest struct {
	subject  ssa.Value
	prefixes []string
}

func (w *World) prefixTestOf(v ssa.Value) (prefixTest, bool) {
	c, ok := v.(*ssa.Call)
	if !ok || len(c.Common().Args) != 2 {
		return prefixTest{}, false
	}
	args := c.Common().Args
	if s, ok := w.constBytes(args[1]); ok {
		return prefixTest{args[0], []string{s}}, true
	}
	// variadic: the second argument is a slice literal of constants, and the callee is an any-of loop
	cal := c.Common().StaticCallee()
	if cal == nil || !w.InModule(cal) || !cal.Signature.Variadic() || !w.isAnyOfPrefixHelper(cal) {
		return prefixTest{}, false
	}
	ops := w.Sinks().variadicOperands(args[1])
	if len(ops) == 0 {
		return prefixTest{}, false
	}
	var ps []string
	for _, o := range ops {
		s, ok := w.constBytes(o)
		if !ok {
			return prefixTest{}, false
		}
		ps = append(ps, s)
	}
	return prefixTest{args[0], ps}, true
}

// isAnyOfPrefixHelper: func(s []byte, ps ...[]byte) bool that returns the constant true only under the true edge of a
// two-argument call (s, element of ps) and the constant false otherwise.
func (w *World) isAnyOfPrefixHelper(fn *ssa.Function) bool {
	if len(fn.Params) != 2 || fn.Blocks == nil || fn.Signature.Results().Len() != 1 || !isBool(fn.Signature.Results().At(0).Type()) {
		return false
	}
	sawTrue := false
	for _, b := range fn.Blocks {
		ret, ok := b.Instrs[len(b.Instrs)-1].(*ssa.Return)
		if !ok {
			continue
		}
		for _, leaf := range phiLeaves(ret.Results[0]) {
			v, isC := constBool(leaf)
			if !isC {
				return false
			}
			if !v {
				continue
			}
			sawTrue = true
			okEdge := false
			for _, cf := range dominatingConds(b) {
				if !cf.Truth {
					continue
				}
				if tc, ok := cf.If.Cond.(*ssa.Call); ok && len(tc.Common().Args) == 2 && tc.Common().Args[0] == ssa.Value(fn.Params[0]) {
					okEdge = true
				}
			}
			if !okEdge {
				return false
			}
		}
	}
	return sawTrue
}

// flowsToReturnTrue: the boolean call result is returned directly, or branches (true edge) to a block
// that returns true / feeds a phi with true that is returned.
func flowsToReturnTrue(c *ssa.Call) bool {
	for _, ref := range referrersOf(c) {
		switch x := ref.(type) {
		case *ssa.Return:
			return true
		case *ssa.Phi:
			for _, r2 := range referrersOf(x) {
				if _, ok := r2.(*ssa.Return); ok {
					return true
				}
			}
		case *ssa.If:
			succ := x.Block().Succs[0]
			// true edge: a phi in succ receiving constant true from this block, or a return true
			for _, ins := range succ.Instrs {
				switch y := ins.(type) {
				case *ssa.Phi:
					for i, p := range succ.Preds {
						if p == x.Block() {
							if b, ok := constBool(y.Edges[i]); ok && b {
								return true
							}
						}
					}
				case *ssa.Return:
					if len(y.Results) == 1 {
						if b, ok := constBool(y.Results[0]); ok && b {
							return true
						}
					}
				}
			}
		}
	}
	return false
}
