package main

// rules_c18.go — C18: Reader / BlockReader behave as a cursor (DESIGN 3/C18).
//
//	C18-C cache coherence: memoised fields of a reader (found by shape: a store dominated by a
//	      "not yet computed" test of the same field) are reset on every path of every method that
//	      stores to a field the memoised value is computed from.
//	C18-R restore on exit: the search helpers (functions of package text taking a Reader and calling
//	      Position()) return with the position restored, unless the caller asked to advance / a match
//	      was found and exactly the matched length is consumed from the restored position.
//	C18-G guard agreement: Peek and PeekLine of one reader type decide "end of input" by the same tests.
//	C18-S Position/SetPosition are inverse over the same two fields.
//	C18-V Value(seg) delegates to seg.Value(source).
//	C18-U countdown underflow (shared with C01-U).

import (
	"fmt"
	"go/token"
	"go/types"
	"sort"
	"strings"

	"golang.org/x/tools/go/ssa"
)

func init() {
	register(&Property{
		ID:      "C18",
		Level:   "other",
		Explain: "Decides structural necessary conditions of the cursor contract, for both reader implementations: (C) every memoised field (peeked line, line offset — found by the shape of their memoisation, not by name) is reset on every path of every method that changes a field the memoised value is computed from, so no call sequence can observe a stale view after SetPosition/SetPadding/Advance/AdvanceLine/ResetPosition; (R) the closure-search helper returns with the position it saved at entry restored on every path on which the Advance option is false, and the regexp helpers restore the position before returning 'no match' and consume from the restored position otherwise; (H) SetPosition, which may move the cursor to another line, updates every cursor field that AdvanceLine updates (the line-start field LineOffset counts from in particular); (G) Peek and PeekLine of one type decide end-of-input by the same comparisons; (S) SetPosition stores its arguments into exactly the fields Position returns; (V) Value(seg) is seg.Value(source); (U) no countdown loop uses its index after it may have reached -1. Not decided: the arithmetic of Advance across lines and padding, LineOffset's tab expansion, blockReader.Value over non-contiguous segments, absence of out-of-range positions in general.",
		Trusted: []string{"regexp.FindReaderSubmatchIndex consumes runes only through ReadRune", "go/ssa CFG"},
		Assumes: []string{"third-party Reader implementations out of scope", "preconditions of the statement (Advance(n) with n no larger than what remains)"},
		Rules:   []func(*World, *Report){ruleCacheCoherence, ruleLineStateAgreement, ruleRestoreOnExit, rulePeekGuardAgreement, rulePositionInverse, ruleValueDelegates, ruleValueIgnoresCursor, ruleCountdownUnderflowC18},
	})
}

// readerTypes: module struct types implementing text.Reader.
func (w *World) readerTypes() []*types.Named {
	var out []*types.Named
	for _, t := range w.Implementers(w.Iface("text", "Reader")) {
		if _, ok := t.Underlying().(*types.Struct); ok && t.Obj().Pkg() == w.TPkg("text") {
			out = append(out, t)
		}
	}
	return out
}

// fieldPath of an address rooted at a value of (pointer to) struct type T: indices of FieldAddr chain.
// Returns the root value, the path and ok.
func addrFieldPath(v ssa.Value) (ssa.Value, []int, bool) {
	var rev []int
	for {
		fa, ok := v.(*ssa.FieldAddr)
		if !ok {
			break
		}
		rev = append(rev, fa.Field)
		v = fa.X
	}
	if len(rev) == 0 {
		return v, nil, false
	}
	for i, j := 0, len(rev)-1; i < j; i, j = i+1, j-1 {
		rev[i], rev[j] = rev[j], rev[i]
	}
	return v, rev, true
}

func pathKey(p []int) string {
	s := make([]string, len(p))
	for i, x := range p {
		s[i] = fmt.Sprint(x)
	}
	return strings.Join(s, ".")
}

func pathOverlaps(a, b []int) bool {
	n := len(a)
	if len(b) < n {
		n = len(b)
	}
	for i := 0; i < n; i++ {
		if a[i] != b[i] {
			return false
		}
	}
	return true
}

func fieldPathName(t *types.Named, p []int) string {
	var names []string
	var cur types.Type = t
	for _, i := range p {
		st, ok := deref(cur).Underlying().(*types.Struct)
		if !ok || i >= st.NumFields() {
			names = append(names, fmt.Sprint(i))
			break
		}
		names = append(names, st.Field(i).Name())
		cur = st.Field(i).Type()
	}
	return strings.Join(names, ".")
}

// rootedAt: does the address chain root at a pointer to named type t?
func rootIsType(root ssa.Value, t *types.Named) bool {
	n := namedOf(root.Type())
	return n != nil && n.Obj() == t.Obj()
}

type cacheField struct {
	typ     *types.Named
	path    []int
	fillers map[*ssa.Function]bool
	deps    [][]int
	kind    string // "nil" or "neg"
}

// isResetValue: nil for slice/pointer caches, a negative constant for integer caches.
func isResetValue(v ssa.Value) bool {
	if isNilConst(v) {
		return true
	}
	if c, ok := constInt(v); ok && c < 0 {
		return true
	}
	return false
}

// notComputedTest: cond (with truth) says "the field at addr path p holds the reset value".
func notComputedFact(cf CondFact, t *types.Named, p []int) bool {
	for _, a := range condAtoms(cf.If.Cond, cf.Truth) {
		if x, isNil, ok := nilTest(a.V); ok && isNil == a.Truth {
			if u, ok := x.(*ssa.UnOp); ok && u.Op == token.MUL {
				if root, q, ok := addrFieldPath(u.X); ok && rootIsType(root, t) && pathKey(q) == pathKey(p) {
					return true
				}
			}
		}
		if b, ok := a.V.(*ssa.BinOp); ok {
			// x < 0 true, x >= 0 false
			x, y := stripConv(b.X), stripConv(b.Y)
			c, isC := constInt(y)
			if !isC || c != 0 {
				continue
			}
			if (b.Op == token.LSS && a.Truth) || (b.Op == token.GEQ && !a.Truth) {
				if u, ok := x.(*ssa.UnOp); ok && u.Op == token.MUL {
					if root, q, ok := addrFieldPath(u.X); ok && rootIsType(root, t) && pathKey(q) == pathKey(p) {
						return true
					}
				}
			}
		}
	}
	return false
}

// methodsOfType: functions declared as methods on T or *T.
func (w *World) methodsOfType(t *types.Named) []*ssa.Function {
	var out []*ssa.Function
	for i := 0; i < t.NumMethods(); i++ {
		if f := w.Prog.FuncValue(t.Method(i)); f != nil && f.Blocks != nil {
			out = append(out, f)
		}
	}
	sort.Slice(out, func(i, j int) bool { return out[i].Name() < out[j].Name() })
	return out
}

// findCaches finds the memoised fields of reader type t.
func (w *World) findCaches(t *types.Named) []*cacheField {
	byKey := map[string]*cacheField{}
	for _, m := range w.methodsOfType(t) {
		for _, b := range m.Blocks {
			for _, ins := range b.Instrs {
				st, ok := ins.(*ssa.Store)
				if !ok {
					continue
				}
				root, p, ok := addrFieldPath(st.Addr)
				if !ok || !rootIsType(root, t) || isResetValue(st.Val) {
					continue
				}
				memo := false
				for _, cf := range dominatingConds(b) {
					if notComputedFact(cf, t, p) {
						memo = true
					}
				}
				if !memo {
					continue
				}
				k := pathKey(p)
				c := byKey[k]
				if c == nil {
					c = &cacheField{typ: t, path: p, fillers: map[*ssa.Function]bool{}}
					byKey[k] = c
				}
				c.fillers[m] = true
			}
		}
	}
	var out []*cacheField
	for _, c := range byKey {
		// dependencies: every receiver field loaded in a filler (directly, or in same-type methods it calls), except the cache itself
		seen := map[string]bool{}
		var visit func(f *ssa.Function, depth int)
		visit = func(f *ssa.Function, depth int) {
			for _, b := range f.Blocks {
				for _, ins := range b.Instrs {
					switch x := ins.(type) {
					case *ssa.UnOp:
						if x.Op != token.MUL {
							continue
						}
						if root, q, ok := addrFieldPath(x.X); ok && rootIsType(root, t) && pathKey(q) != pathKey(c.path) {
							if !seen[pathKey(q)] {
								seen[pathKey(q)] = true
								c.deps = append(c.deps, q)
							}
						}
					case *ssa.Call:
						// address of a field passed as receiver (e.g. (*Segment).Value(&r.pos, …)) reads the field
						for _, a := range x.Common().Args {
							if root, q, ok := addrFieldPath(a); ok && rootIsType(root, t) && pathKey(q) != pathKey(c.path) {
								if !seen[pathKey(q)] {
									seen[pathKey(q)] = true
									c.deps = append(c.deps, q)
								}
							}
						}
						if cal := x.Common().StaticCallee(); cal != nil && depth < 2 && cal.Signature.Recv() != nil && namedOf(cal.Signature.Recv().Type()) != nil && namedOf(cal.Signature.Recv().Type()).Obj() == t.Obj() {
							visit(cal, depth+1)
						}
					}
				}
			}
		}
		for f := range c.fillers {
			visit(f, 0)
		}
		sort.Slice(c.deps, func(i, j int) bool { return pathKey(c.deps[i]) < pathKey(c.deps[j]) })
		out = append(out, c)
	}
	sort.Slice(out, func(i, j int) bool { return pathKey(out[i].path) < pathKey(out[j].path) })
	return out
}

// cache states (bitmask sets)
const (
	csFilled  = 1 << iota // may hold a value computed from the current dependency values
	csReset               // reset: will be recomputed on demand
	csStale               // may hold a value computed from older dependency values
	csUpdated             // written explicitly in this method with a non-reset value (not verified, accepted)
)

func csString(s int) string {
	var p []string
	if s&csFilled != 0 {
		p = append(p, "valid")
	}
	if s&csReset != 0 {
		p = append(p, "reset")
	}
	if s&csStale != 0 {
		p = append(p, "STALE")
	}
	if s&csUpdated != 0 {
		p = append(p, "updated")
	}
	return strings.Join(p, "|")
}

type cacheAnalysis struct {
	w     *World
	c     *cacheField
	memo  map[string]int // fn|instate -> out set
	stack map[string]bool
	undec []string
}

func mapStates(s int, f func(int) int) int {
	out := 0
	for _, b := range []int{csFilled, csReset, csStale, csUpdated} {
		if s&b != 0 {
			out |= f(b)
		}
	}
	return out
}

// transfer applies one instruction to a state set.
func (ca *cacheAnalysis) transfer(fn *ssa.Function, ins ssa.Instruction, s int) int {
	t := ca.c.typ
	switch x := ins.(type) {
	case *ssa.Store:
		root, p, ok := addrFieldPath(x.Addr)
		if !ok || !rootIsType(root, t) {
			return s
		}
		if pathKey(p) == pathKey(ca.c.path) {
			if isResetValue(x.Val) {
				return csReset
			}
			if ca.c.fillers[fn] {
				return csFilled
			}
			return csUpdated
		}
		for _, d := range ca.c.deps {
			if pathOverlaps(p, d) {
				return mapStates(s, func(b int) int {
					if b == csFilled {
						return csStale
					}
					return b
				})
			}
		}
		return s
	case ssa.CallInstruction:
		com := x.Common()
		if cal := com.StaticCallee(); cal != nil && cal.Blocks != nil && cal.Signature.Recv() != nil {
			if n := namedOf(cal.Signature.Recv().Type()); n != nil && n.Obj() == t.Obj() {
				return mapStates(s, func(b int) int { return ca.summary(cal, b) })
			}
		}
		// the receiver handed to another function (helpers that use the public interface): each public
		// method preserves "not stale" (that is what this rule proves), so a non-stale state stays non-stale.
		for _, a := range com.Args {
			if n := namedOf(a.Type()); n != nil && n.Obj() == t.Obj() {
				return mapStates(s, func(b int) int {
					if b == csStale {
						return csStale
					}
					return csFilled | csReset
				})
			}
			if mi, ok := a.(*ssa.MakeInterface); ok {
				if n := namedOf(mi.X.Type()); n != nil && n.Obj() == t.Obj() {
					return mapStates(s, func(b int) int {
						if b == csStale {
							return csStale
						}
						return csFilled | csReset
					})
				}
			}
		}
	}
	return s
}

// summary: the set of states at the returns of fn when entered in state `in`.
func (ca *cacheAnalysis) summary(fn *ssa.Function, in int) int {
	key := fmt.Sprintf("%p|%d", fn, in)
	if v, ok := ca.memo[key]; ok {
		return v
	}
	if ca.stack[key] {
		ca.undec = append(ca.undec, "recursion through "+fn.String())
		return csFilled | csReset | csStale
	}
	ca.stack[key] = true
	defer delete(ca.stack, key)
	inS := map[*ssa.BasicBlock]int{}
	inS[fn.Blocks[0]] = in
	work := []*ssa.BasicBlock{fn.Blocks[0]}
	out := 0
	for len(work) > 0 {
		b := work[0]
		work = work[1:]
		s := inS[b]
		for _, ins := range b.Instrs {
			s = ca.transfer(fn, ins, s)
			if _, ok := ins.(*ssa.Return); ok {
				out |= s
			}
		}
		for _, su := range b.Succs {
			if inS[su]|s != inS[su] {
				inS[su] |= s
				work = append(work, su)
			}
		}
	}
	ca.memo[key] = out
	return out
}

func ruleCacheCoherence(w *World, r *Report) {
	r.Rule("C18-C", "For every reader type and every memoised field F of it (a field stored under a dominating 'F holds the reset value' test), a forward dataflow over each method's CFG tracks F ∈ {valid, reset, stale, updated}: a store to a field F's value is computed from turns valid into stale, a store of the reset value (nil / negative constant) gives reset, calls on the same receiver apply the callee's summary. No method entered with F valid or reset may return with F possibly stale.")
	rts := w.readerTypes()
	r.Expect("reader implementations in package text", len(rts), 1)
	nCaches, nMethods := 0, 0
	for _, t := range rts {
		caches := w.findCaches(t)
		for _, c := range caches {
			nCaches++
			cname := fieldPathName(t, c.path)
			var deps []string
			for _, d := range c.deps {
				deps = append(deps, fieldPathName(t, d))
			}
			var fl []string
			for f := range c.fillers {
				fl = append(fl, f.Name())
			}
			sort.Strings(fl)
			r.Quiet("C18-C cache %s.%s: filled in %v, computed from fields %v", t.Obj().Name(), cname, fl, deps)
			if len(c.deps) == 0 {
				r.Unknown(t.Obj().Name()+"."+cname+": dependencies", "", "memoised field with no visible dependency fields")
				continue
			}
			ca := &cacheAnalysis{w: w, c: c, memo: map[string]int{}, stack: map[string]bool{}}
			for _, m := range w.methodsOfType(t) {
				nMethods++
				key := fmt.Sprintf("(*%s).%s keeps %s coherent", t.Obj().Name(), m.Name(), cname)
				bad := 0
				for _, in := range []int{csFilled, csReset} {
					out := ca.summary(m, in)
					if out&csStale != 0 {
						bad |= in
					}
				}
				if len(ca.undec) > 0 {
					r.Unknown(key, w.FnPos(m), strings.Join(ca.undec, "; "))
					ca.undec = nil
					continue
				}
				if bad != 0 {
					r.Bad(key, w.FnPos(m), fmt.Sprintf("entered with %s %s, the method can return with a stale %s: it stores to a field the cached value is computed from (%s) without resetting the cache on that path", cname, csString(bad), cname, strings.Join(deps, ", ")))
				} else {
					r.OK(key, w.FnPos(m), "exit states: "+csString(ca.summary(m, csFilled)))
				}
			}
		}
	}
	r.Expect("memoised reader fields (peeked line, line offsets)", nCaches, 1)
	r.Expect("method x cache obligations", nMethods, 29)
}

// ---- C18-R ---------------------------------------------------------------------------------------

// position states for the restore rule
const (
	psUntouched = 1 << iota // nothing moved since entry / restored to the entry position
	psMoved                 // the reader may be anywhere
	psConsumed              // restored, then exactly one Advance
	psAllowed               // moving was requested by the caller (Advance option true)
)

func psString(s int) string {
	var p []string
	for _, x := range []struct {
		b int
		n string
	}{{psUntouched, "at-entry-position"}, {psMoved, "MOVED"}, {psConsumed, "restored+advanced"}, {psAllowed, "advance-requested"}} {
		if s&x.b != 0 {
			p = append(p, x.n)
		}
	}
	return strings.Join(p, "|")
}

var readerMovers = map[string]bool{"Advance": true, "AdvanceLine": true, "AdvanceAndSetPadding": true, "SetPadding": true, "SetPosition": true,
	"ResetPosition": true, "SkipSpaces": true, "SkipBlankLines": true, "Match": true, "FindSubMatch": true, "FindClosure": true, "ReadRune": true, "Reset": true}

func ruleRestoreOnExit(w *World, r *Report) {
	r.Rule("C18-R", "In every function of package text that takes a Reader and saves Position() (the closure search and the regexp helpers), a forward dataflow tracks the reader's position ∈ {at entry position, moved, restored+advanced once}. SetPosition with the two values saved at entry restores; any other moving call or handing the reader to another function moves. Every return must be at the entry position, unless the path passed the true edge of the options' Advance flag, or the function returns a non-zero result after consuming once from the restored position (a match).")
	readerI := w.Named("text", "Reader")
	if readerI == nil {
		r.Unknown("text.Reader", "", "not found")
		return
	}
	n := 0
	for _, fn := range w.Funcs {
		if fn.Pkg == nil || fn.Pkg.Pkg != w.TPkg("text") || fn.Signature.Recv() != nil || fn.Parent() != nil {
			continue
		}
		var rp *ssa.Parameter
		for _, p := range fn.Params {
			if types.Identical(p.Type(), readerI) {
				rp = p
			}
		}
		if rp == nil {
			continue
		}
		// the saved position: an invoke of Position on rp
		var saved *ssa.Call
		for _, b := range fn.Blocks {
			for _, ins := range b.Instrs {
				if c, ok := ins.(*ssa.Call); ok && c.Common().IsInvoke() && c.Common().Value == ssa.Value(rp) && c.Common().Method.Name() == "Position" && saved == nil {
					saved = c
				}
			}
		}
		if saved == nil {
			continue
		}
		n++
		key := w.FnKey(fn)
		if saved.Block() != fn.Blocks[0] {
			r.Unknown(key+": saved position", w.InstrPos(saved), "Position() is not read in the entry block")
			continue
		}
		isSavedExtract := func(v ssa.Value, idx int) bool {
			e, ok := v.(*ssa.Extract)
			return ok && e.Tuple == ssa.Value(saved) && e.Index == idx
		}
		// the Advance option: a bool field named by type — field of a struct parameter whose type has the FindClosureOptions shape;
		// identified as: a Field/FieldAddr load of a bool field of a parameter of struct type, whose name is the one the exported doc
		// gives ("Advance"). Role: the option that permits leaving the reader moved.
		advanceFlag := func(v ssa.Value) bool {
			v = throughCell(v)
			switch x := v.(type) {
			case *ssa.Field:
				_, f := fieldOfField(x)
				_, isP := x.X.(*ssa.Parameter)
				return f != nil && f.Name() == "Advance" && isP
			case *ssa.UnOp:
				if fa, ok := x.X.(*ssa.FieldAddr); ok && x.Op == token.MUL {
					_, f := fieldOfAddr(fa)
					return f != nil && f.Name() == "Advance"
				}
			}
			return false
		}
		transfer := func(ins ssa.Instruction, s int) int {
			c, ok := ins.(ssa.CallInstruction)
			if !ok {
				return s
			}
			com := c.Common()
			if com.IsInvoke() && com.Value == ssa.Value(rp) {
				name := com.Method.Name()
				if name == "SetPosition" && len(com.Args) == 2 && isSavedExtract(com.Args[0], 0) && isSavedExtract(com.Args[1], 1) {
					return (s &^ (psMoved | psConsumed)) | psUntouched
				}
				if name == "Advance" {
					return mapPS(s, func(b int) int {
						if b == psUntouched {
							return psConsumed
						}
						if b == psAllowed {
							return psAllowed
						}
						return psMoved
					})
				}
				if readerMovers[name] {
					return mapPS(s, func(b int) int {
						if b == psAllowed {
							return psAllowed
						}
						return psMoved
					})
				}
				return s
			}
			for _, a := range com.Args {
				if stripIfaceConv(a) == ssa.Value(rp) {
					return mapPS(s, func(b int) int {
						if b == psAllowed {
							return psAllowed
						}
						return psMoved
					})
				}
			}
			return s
		}
		inS := map[*ssa.BasicBlock]int{fn.Blocks[0]: psUntouched}
		work := []*ssa.BasicBlock{fn.Blocks[0]}
		type retInfo struct {
			ins *ssa.Return
			s   int
		}
		rets := map[*ssa.Return]int{}
		for len(work) > 0 {
			b := work[0]
			work = work[1:]
			s := inS[b]
			for _, ins := range b.Instrs {
				s = transfer(ins, s)
				if rt, ok := ins.(*ssa.Return); ok {
					rets[rt] |= s
				}
			}
			for i, su := range b.Succs {
				es := s
				if iff, ok := b.Instrs[len(b.Instrs)-1].(*ssa.If); ok && len(b.Succs) == 2 && b.Succs[0] != b.Succs[1] {
					for _, a := range condAtoms(iff.Cond, i == 0) {
						if advanceFlag(a.V) && a.Truth {
							es = psAllowed
						}
					}
				}
				if inS[su]|es != inS[su] {
					inS[su] |= es
					work = append(work, su)
				}
			}
		}
		var rl []*ssa.Return
		for rt := range rets {
			rl = append(rl, rt)
		}
		sort.Slice(rl, func(i, j int) bool { return rl[i].Pos() < rl[j].Pos() })
		for i, rt := range rl {
			s := rets[rt]
			zero := true // does this return report "nothing found"?
			for _, res := range rt.Results {
				for _, leaf := range phiLeaves(res) {
					if isNilConst(leaf) {
						continue
					}
					if bv, ok := constBool(leaf); ok && !bv {
						continue
					}
					zero = false
				}
			}
			ckey := fmt.Sprintf("%s: return #%d", key, i+1)
			switch {
			case s&psMoved != 0:
				r.Bad(ckey, w.InstrPos(rt), "this return can be reached with the reader moved and not restored to the position saved at entry (state "+psString(s)+")")
			case s&psConsumed != 0 && zero:
				r.Bad(ckey, w.InstrPos(rt), "returns 'not found' after consuming input (state "+psString(s)+")")
			default:
				r.OK(ckey, w.InstrPos(rt), "state at return: "+psString(s))
			}
		}
		if len(rl) == 0 {
			r.Unknown(key+": returns", w.FnPos(fn), "no return found")
		}
	}
	r.Expect("reader helpers that save the position", n, 1)
}

func mapPS(s int, f func(int) int) int {
	out := 0
	for _, b := range []int{psUntouched, psMoved, psConsumed, psAllowed} {
		if s&b != 0 {
			out |= f(b)
		}
	}
	return out
}

// ---- C18-G ---------------------------------------------------------------------------------------

// cmpAtomString renders a comparison over receiver fields in a normal form ("pos.Start < sourceLength").
func (w *World) cmpAtomString(t *types.Named, v ssa.Value, truth bool) (string, bool) {
	b, ok := v.(*ssa.BinOp)
	if !ok {
		return "", false
	}
	side := func(x ssa.Value) (string, bool) {
		x = stripConv(x)
		if c, ok := constInt(x); ok {
			return fmt.Sprint(c), true
		}
		if u, ok := x.(*ssa.UnOp); ok && u.Op == token.MUL {
			if root, p, ok := addrFieldPath(u.X); ok && rootIsType(root, t) {
				return fieldPathName(t, p), true
			}
		}
		return "", false
	}
	l, ok1 := side(b.X)
	rr, ok2 := side(b.Y)
	if !ok1 || !ok2 {
		return "", false
	}
	op := b.Op
	if !truth {
		switch op {
		case token.LSS:
			op = token.GEQ
		case token.GEQ:
			op = token.LSS
		case token.GTR:
			op = token.LEQ
		case token.LEQ:
			op = token.GTR
		case token.EQL:
			op = token.NEQ
		case token.NEQ:
			op = token.EQL
		}
	}
	// orient: > and >= become < and <= with swapped sides
	switch op {
	case token.GTR:
		l, rr, op = rr, l, token.LSS
	case token.GEQ:
		l, rr, op = rr, l, token.LEQ
	}
	return l + " " + op.String() + " " + rr, true
}

func rulePeekGuardAgreement(w *World, r *Report) {
	r.Rule("C18-G", "For each reader type, the comparisons over receiver fields that dominate the data-returning exit of Peek (a loaded source byte) and of PeekLine (a non-nil line) are the same set: Peek is EOF exactly when PeekLine is nil.")
	n := 0
	for _, t := range w.readerTypes() {
		peek := w.DeclaredMethod(t, "Peek")
		pl := w.DeclaredMethod(t, "PeekLine")
		if peek == nil || pl == nil {
			r.Unknown(t.Obj().Name()+": Peek/PeekLine", "", "methods not found")
			continue
		}
		guards := func(fn *ssa.Function, isData func(*ssa.Return) bool) (map[string]bool, bool) {
			var acc map[string]bool
			found := false
			for _, b := range fn.Blocks {
				rt, ok := b.Instrs[len(b.Instrs)-1].(*ssa.Return)
				if !ok || !isData(rt) {
					continue
				}
				g := map[string]bool{}
				for _, cf := range dominatingConds(b) {
					for _, a := range condAtoms(cf.If.Cond, cf.Truth) {
						if s, ok := w.cmpAtomString(t, a.V, a.Truth); ok {
							g[s] = true
						}
						// a predicate method of the same reader (an extracted "at end of input" test) is an atom too
						if c, ok := a.V.(*ssa.Call); ok {
							if cal := c.Common().StaticCallee(); cal != nil && cal.Signature.Recv() != nil && len(c.Common().Args) == 1 {
								if n := namedOf(cal.Signature.Recv().Type()); n != nil && n.Obj() == t.Obj() {
									g[fmt.Sprintf("%s() == %v", cal.Name(), a.Truth)] = true
								}
							}
						}
					}
				}
				if !found {
					acc = g
					found = true
				} else {
					// intersection: what holds on every data return
					for k := range acc {
						if !g[k] {
							delete(acc, k)
						}
					}
				}
			}
			return acc, found
		}
		// Peek: data return = result is not a constant-only value… the EOF return is the constant.
		gPeek, ok1 := guards(peek, func(rt *ssa.Return) bool {
			for _, leaf := range phiLeaves(rt.Results[0]) {
				if _, isC := leaf.(*ssa.Const); !isC {
					return true
				}
			}
			return false
		})
		gLine, ok2 := guards(pl, func(rt *ssa.Return) bool {
			for _, leaf := range phiLeaves(rt.Results[0]) {
				if !isNilConst(leaf) {
					return true
				}
			}
			return false
		})
		key := t.Obj().Name() + ": Peek vs PeekLine end-of-input tests"
		if !ok1 || !ok2 {
			r.Unknown(key, w.FnPos(peek), "could not find the data-returning exits")
			continue
		}
		// drop atoms that mention the padding (Peek distinguishes padding, PeekLine does so inside Segment.Value)
		clean := func(m map[string]bool) []string {
			var out []string
			for k := range m {
				if strings.Contains(k, "Padding") {
					continue
				}
				out = append(out, k)
			}
			sort.Strings(out)
			return out
		}
		a, b := clean(gPeek), clean(gLine)
		n++
		if len(a) == 0 || len(b) == 0 {
			r.Bad(key, w.FnPos(peek), fmt.Sprintf("an end-of-input guard is missing: Peek guarded by %v, PeekLine by %v", a, b))
		} else if strings.Join(a, " && ") != strings.Join(b, " && ") {
			r.Bad(key, w.FnPos(peek), fmt.Sprintf("Peek returns data under {%s} but PeekLine under {%s}: one of them reads past / stops before the other's end of input", strings.Join(a, " && "), strings.Join(b, " && ")))
		} else {
			r.OK(key, w.FnPos(peek), "both guarded by "+strings.Join(a, " && "))
		}
	}
	r.Expect("reader types with Peek and PeekLine", n, 1)
}

// ---- C18-S ---------------------------------------------------------------------------------------

func rulePositionInverse(w *World, r *Report) {
	r.Rule("C18-S", "For each reader type: Position returns the loads of one int field and one Segment field; SetPosition(line, pos) stores its first parameter into that int field on every path and its second parameter into that Segment field on every path not dominated by a test of pos.Start against the negative 'invalid' marker.")
	n := 0
	for _, t := range w.readerTypes() {
		pos := w.DeclaredMethod(t, "Position")
		set := w.DeclaredMethod(t, "SetPosition")
		if pos == nil || set == nil {
			r.Unknown(t.Obj().Name()+": Position/SetPosition", "", "methods not found")
			continue
		}
		key := t.Obj().Name() + ": SetPosition ∘ Position"
		var fields [2]string
		okp := false
		for _, b := range pos.Blocks {
			if rt, ok := b.Instrs[len(b.Instrs)-1].(*ssa.Return); ok && len(rt.Results) == 2 {
				okp = true
				for i, res := range rt.Results {
					u, ok := res.(*ssa.UnOp)
					if !ok || u.Op != token.MUL {
						okp = false
						continue
					}
					root, p, ok := addrFieldPath(u.X)
					if !ok || !rootIsType(root, t) {
						okp = false
						continue
					}
					fields[i] = pathKey(p)
				}
			}
		}
		if !okp {
			r.Bad(key, w.FnPos(pos), "Position does not return two receiver fields")
			continue
		}
		n++
		if len(set.Params) != 3 {
			r.Unknown(key, w.FnPos(set), "unexpected SetPosition signature")
			continue
		}
		// must-store analysis: forward dataflow, bit i set = field i holds param i on every path
		isParamVal := func(v ssa.Value, p *ssa.Parameter) bool {
			v = stripConv(v)
			if v == ssa.Value(p) {
				return true
			}
			// struct params are spilled: load of the alloc that holds the parameter
			if th := throughCell(v); th == ssa.Value(p) {
				return true
			}
			return false
		}
		const top = 3
		inS := map[*ssa.BasicBlock]int{}
		for _, b := range set.Blocks {
			inS[b] = top
		}
		inS[set.Blocks[0]] = 0
		changed := true
		retState := top
		sawRet := false
		for changed {
			changed = false
			retState = top
			for _, b := range set.Blocks {
				s := inS[b]
				if b != set.Blocks[0] {
					s = top
					for _, p := range b.Preds {
						s &= outStateC18(p, inS, set, t, fields, isParamVal)
					}
					if len(b.Preds) == 0 {
						s = 0
					}
				}
				if s != inS[b] {
					inS[b] = s
					changed = true
				}
				if _, ok := b.Instrs[len(b.Instrs)-1].(*ssa.Return); ok {
					sawRet = true
					retState &= outStateC18(b, inS, set, t, fields, isParamVal)
				}
			}
		}
		if !sawRet {
			r.Unknown(key, w.FnPos(set), "no return")
			continue
		}
		// the Segment store may be skipped only under the invalid-marker test
		if retState&1 == 0 {
			r.Bad(key, w.FnPos(set), "SetPosition does not store its line argument into the field Position returns on every path")
			continue
		}
		if retState&2 == 0 {
			// accept when every block that misses the store is dominated by a test "pos.Start == negative const"
			okSkip := w.segmentStoreSkippedOnlyForMarker(set, t, fields[1], isParamVal)
			if !okSkip {
				r.Bad(key, w.FnPos(set), "SetPosition does not store its position argument into the field Position returns on every path (other than the explicit 'invalid position' marker arm)")
				continue
			}
			r.OK(key, w.FnPos(set), "line stored on all paths; position stored on all paths except the invalid-marker arm")
			continue
		}
		r.OK(key, w.FnPos(set), "both arguments are stored into the fields Position returns, on every path")
	}
	r.Expect("reader types with Position/SetPosition", n, 1)
}

func outStateC18(b *ssa.BasicBlock, inS map[*ssa.BasicBlock]int, set *ssa.Function, t *types.Named, fields [2]string, isParamVal func(ssa.Value, *ssa.Parameter) bool) int {
	s := inS[b]
	for _, ins := range b.Instrs {
		st, ok := ins.(*ssa.Store)
		if !ok {
			continue
		}
		root, p, ok := addrFieldPath(st.Addr)
		if !ok || !rootIsType(root, t) {
			continue
		}
		for i := 0; i < 2; i++ {
			if pathKey(p) == fields[i] {
				if isParamVal(st.Val, set.Params[i+1]) {
					s |= 1 << i
				} else {
					s &^= 1 << i
				}
			} else if pathOverlaps(p, splitPath(fields[i])) && len(p) > len(splitPath(fields[i])) {
				// a sub-field overwritten after the store: no longer the argument
				s &^= 1 << i
			}
		}
	}
	return s
}

func splitPath(k string) []int {
	var out []int
	for _, s := range strings.Split(k, ".") {
		var x int
		fmt.Sscan(s, &x)
		out = append(out, x)
	}
	return out
}

func (w *World) segmentStoreSkippedOnlyForMarker(set *ssa.Function, t *types.Named, field string, isParamVal func(ssa.Value, *ssa.Parameter) bool) bool {
	// find the If that tests param.Start against a negative constant / a package constant; the param store must be on its false (NEQ) side,
	// and on the other side the field must be stored from something (the line's own segment) or left alone.
	posParam := set.Params[2]
	for _, b := range set.Blocks {
		iff, ok := b.Instrs[len(b.Instrs)-1].(*ssa.If)
		if !ok {
			continue
		}
		bo, ok := iff.Cond.(*ssa.BinOp)
		if !ok || (bo.Op != token.EQL && bo.Op != token.NEQ) {
			continue
		}
		c, isC := constInt(bo.Y)
		if !isC || c >= 0 {
			continue
		}
		// bo.X must be a load of the Start field of the param (through its spill cell)
		u, ok := bo.X.(*ssa.UnOp)
		if !ok {
			continue
		}
		fa, ok := u.X.(*ssa.FieldAddr)
		if !ok {
			continue
		}
		al, ok := fa.X.(*ssa.Alloc)
		if !ok {
			continue
		}
		isSpill := false
		for _, ref := range referrersOf(al) {
			if st, ok := ref.(*ssa.Store); ok && st.Val == ssa.Value(posParam) {
				isSpill = true
			}
		}
		if !isSpill {
			continue
		}
		neqIdx := 1
		if bo.Op == token.NEQ {
			neqIdx = 0
		}
		// on the "valid position" side the param must be stored before any join
		side := b.Succs[neqIdx]
		for _, ins := range side.Instrs {
			if st, ok := ins.(*ssa.Store); ok {
				if root, p, ok := addrFieldPath(st.Addr); ok && rootIsType(root, t) && pathKey(p) == field && isParamVal(st.Val, posParam) {
					return true
				}
			}
		}
	}
	return false
}

// ---- C18-V ---------------------------------------------------------------------------------------

func ruleValueDelegates(w *World, r *Report) {
	r.Rule("C18-V", "A reader whose Value method is a single delegation must delegate to Segment.Value with its own segment argument and the source field that Source() returns.")
	n := 0
	segVal := w.MethodOf(w.Named("text", "Segment"), "Value")
	for _, t := range w.readerTypes() {
		val := w.DeclaredMethod(t, "Value")
		src := w.DeclaredMethod(t, "Source")
		if val == nil || src == nil {
			r.Unknown(t.Obj().Name()+": Value/Source", "", "methods not found")
			continue
		}
		srcField := ""
		for _, b := range src.Blocks {
			if rt, ok := b.Instrs[len(b.Instrs)-1].(*ssa.Return); ok && len(rt.Results) == 1 {
				if u, ok := rt.Results[0].(*ssa.UnOp); ok {
					if root, p, ok := addrFieldPath(u.X); ok && rootIsType(root, t) {
						srcField = pathKey(p)
					}
				}
			}
		}
		if len(val.Blocks) != 1 {
			r.Quiet("C18-V: %s.Value is not a single delegation (multi-segment reader): not decided", t.Obj().Name())
			continue
		}
		key := t.Obj().Name() + ".Value delegates to Segment.Value"
		okDeleg := false
		for _, ins := range val.Blocks[0].Instrs {
			c, ok := ins.(*ssa.Call)
			if !ok || c.Common().StaticCallee() != segVal || segVal == nil {
				continue
			}
			args := c.Common().Args
			if len(args) != 2 {
				continue
			}
			recvOK := false
			if th := throughCell(args[0]); th == ssa.Value(val.Params[1]) {
				recvOK = true
			}
			if al, ok := args[0].(*ssa.Alloc); ok {
				for _, ref := range referrersOf(al) {
					if st, ok := ref.(*ssa.Store); ok && st.Val == ssa.Value(val.Params[1]) {
						recvOK = true
					}
				}
			}
			srcOK := false
			if u, ok := args[1].(*ssa.UnOp); ok {
				if root, p, ok := addrFieldPath(u.X); ok && rootIsType(root, t) && pathKey(p) == srcField {
					srcOK = true
				}
			}
			if sc, ok := args[1].(*ssa.Call); ok && sc.Common().StaticCallee() == src {
				srcOK = true
			}
			if recvOK && srcOK {
				okDeleg = true
			}
		}
		n++
		if okDeleg {
			r.OK(key, w.FnPos(val), "returns seg.Value(source)")
		} else {
			r.Bad(key, w.FnPos(val), "Value(seg) is a single block but does not return seg.Value(<source field>)")
		}
	}
	r.Expect("readers whose Value is a single delegation", n, 1)
}

func ruleCountdownUnderflowC18(w *World, r *Report) {
	ruleCountdownUnderflow(w, r, "C18-U", func(fn *ssa.Function) bool {
		return fn.Pkg != nil && fn.Pkg.Pkg == w.TPkg("text")
	}, 2)
}

// ---- C18-H ---------------------------------------------------------------------------------------

// storedFields: receiver field paths stored by fn, directly or through calls on the same receiver type.
func (w *World) storedFields(fn *ssa.Function, t *types.Named, seen map[*ssa.Function]bool, out map[string][]int) {
	if seen[fn] || fn.Blocks == nil {
		return
	}
	seen[fn] = true
	for _, b := range fn.Blocks {
		for _, ins := range b.Instrs {
			switch x := ins.(type) {
			case *ssa.Store:
				if root, p, ok := addrFieldPath(x.Addr); ok && rootIsType(root, t) {
					out[pathKey(p)] = p
				}
			case ssa.CallInstruction:
				if cal := x.Common().StaticCallee(); cal != nil && cal.Signature.Recv() != nil {
					if n := namedOf(cal.Signature.Recv().Type()); n != nil && n.Obj() == t.Obj() {
						w.storedFields(cal, t, seen, out)
					}
				}
			}
		}
	}
}

func ruleLineStateAgreement(w *World, r *Report) {
	r.Rule("C18-H", "Sibling agreement inside each reader type: AdvanceLine and SetPosition are the two operations that can move the cursor to a different line. Every receiver field AdvanceLine stores (directly or through calls on the same receiver) must also be stored by SetPosition (a store to an enclosing struct field covers its sub-fields); otherwise some per-line state survives a SetPosition to another line.")
	n := 0
	for _, t := range w.readerTypes() {
		al := w.DeclaredMethod(t, "AdvanceLine")
		sp := w.DeclaredMethod(t, "SetPosition")
		if al == nil || sp == nil {
			r.Unknown(t.Obj().Name()+": AdvanceLine/SetPosition", "", "methods not found")
			continue
		}
		a, b := map[string][]int{}, map[string][]int{}
		w.storedFields(al, t, map[*ssa.Function]bool{}, a)
		w.storedFields(sp, t, map[*ssa.Function]bool{}, b)
		var keys []string
		for k := range a {
			keys = append(keys, k)
		}
		sort.Strings(keys)
		for _, k := range keys {
			n++
			name := fieldPathName(t, a[k])
			key := fmt.Sprintf("(*%s).SetPosition updates %s like AdvanceLine", t.Obj().Name(), name)
			covered := false
			for _, q := range b {
				if len(q) <= len(a[k]) && pathOverlaps(q, a[k]) {
					covered = true
				}
			}
			if covered {
				r.OK(key, w.FnPos(sp), "stored by both")
			} else {
				r.Bad(key, w.FnPos(sp), fmt.Sprintf("AdvanceLine stores %s but SetPosition never does: after SetPosition to a position on another line, %s still describes the old line", name, name))
			}
		}
	}
	// the other direction, for the position itself: AdvanceLine moves to a fresh line, so it must assign every component
	// of the position value that SetPosition assigns as a whole (start, stop, padding …)
	for _, t := range w.readerTypes() {
		al := w.DeclaredMethod(t, "AdvanceLine")
		sp := w.DeclaredMethod(t, "SetPosition")
		pos := w.DeclaredMethod(t, "Position")
		if al == nil || sp == nil || pos == nil {
			continue
		}
		// the position field: the struct-typed field Position returns
		var posPath []int
		for _, b := range pos.Blocks {
			if rt, ok := b.Instrs[len(b.Instrs)-1].(*ssa.Return); ok && len(rt.Results) == 2 {
				if u, ok := rt.Results[1].(*ssa.UnOp); ok {
					if root, p, ok := addrFieldPath(u.X); ok && rootIsType(root, t) {
						posPath = p
					}
				}
			}
		}
		if posPath == nil {
			continue
		}
		a := map[string][]int{}
		w.storedFields(al, t, map[*ssa.Function]bool{}, a)
		// sub-fields of the position struct
		var cur types.Type = t
		for _, i := range posPath {
			st, ok := deref(cur).Underlying().(*types.Struct)
			if !ok {
				break
			}
			cur = st.Field(i).Type()
		}
		st, ok := cur.Underlying().(*types.Struct)
		if !ok {
			continue
		}
		for fi := 0; fi < st.NumFields(); fi++ {
			if !isInteger(st.Field(fi).Type()) {
				continue
			}
			n++
			sub := append(append([]int{}, posPath...), fi)
			name := fieldPathName(t, sub)
			key := fmt.Sprintf("(*%s).AdvanceLine assigns %s", t.Obj().Name(), name)
			covered := false
			for _, q := range a {
				if len(q) <= len(sub) && pathOverlaps(q, sub) {
					covered = true
				}
			}
			if covered {
				r.OK(key, w.FnPos(al), "assigned when moving to the next line")
			} else {
				r.Bad(key, w.FnPos(al), fmt.Sprintf("AdvanceLine moves to a new line without assigning %s: the value of the previous line (e.g. left-over virtual padding) leaks into the next line", name))
			}
		}
	}
	r.Expect("per-line fields checked", n, 8)
}

// ---- C18-P ---------------------------------------------------------------------------------------

// loadedFields: receiver field paths loaded by fn, directly or through calls on the same receiver type.
func (w *World) loadedFields(fn *ssa.Function, t *types.Named, seen map[*ssa.Function]bool, out map[string]ssa.Instruction) {
	if seen[fn] || fn.Blocks == nil {
		return
	}
	seen[fn] = true
	for _, b := range fn.Blocks {
		for _, ins := range b.Instrs {
			switch x := ins.(type) {
			case *ssa.UnOp:
				if x.Op != token.MUL {
					continue
				}
				if root, p, ok := addrFieldPath(x.X); ok && len(p) > 0 && rootIsType(root, t) {
					if _, has := out[pathKey(p)]; !has {
						out[pathKey(p)] = x
					}
				}
			case ssa.CallInstruction:
				if cal := x.Common().StaticCallee(); cal != nil && cal.Signature.Recv() != nil {
					if n := namedOf(cal.Signature.Recv().Type()); n != nil && n.Obj() == t.Obj() {
						w.loadedFields(cal, t, seen, out)
					}
				}
			}
		}
	}
}

// ruleValueIgnoresCursor: Value(seg) is a function of the segment and of what the reader reads from, never of where
// the cursor stands: it loads no receiver field that the cursor-moving operations (AdvanceLine, SetPosition) store.
func ruleValueIgnoresCursor(w *World, r *Report) {
	r.Rule("C18-P", "Value(seg) does not depend on the cursor: for every reader type, Value (and what it calls on the same receiver) loads no receiver field that AdvanceLine or SetPosition store. A Value that starts its search at the current line gives a different answer for the same segment after the cursor moved back.")
	n := 0
	for _, t := range w.readerTypes() {
		val := w.DeclaredMethod(t, "Value")
		if val == nil {
			r.Unknown(t.Obj().Name()+".Value", "", "method not found")
			continue
		}
		cursor := map[string][]int{}
		for _, m := range []string{"AdvanceLine", "SetPosition"} {
			if f := w.DeclaredMethod(t, m); f != nil {
				w.storedFields(f, t, map[*ssa.Function]bool{}, cursor)
			}
		}
		if len(cursor) == 0 {
			r.Unknown(t.Obj().Name()+": cursor fields", "", "AdvanceLine/SetPosition store no receiver field: the rule cannot find the cursor")
			continue
		}
		loads := map[string]ssa.Instruction{}
		w.loadedFields(val, t, map[*ssa.Function]bool{}, loads)
		n++
		key := t.Obj().Name() + ".Value reads no cursor field"
		var bad []string
		var pos ssa.Instruction
		for k, ins := range loads {
			lp := splitPath(k)
			for _, cp := range cursor {
				if pathOverlaps(lp, cp) {
					bad = append(bad, fieldPathName(t, lp))
					pos = ins
				}
			}
		}
		sort.Strings(bad)
		if len(bad) > 0 {
			r.Bad(key, w.InstrPos(pos), "Value loads "+strings.Join(uniqStrings(bad), ", ")+", which the cursor-moving operations store: its result depends on where the cursor stands")
		} else {
			var ks []string
			for k := range loads {
				ks = append(ks, fieldPathName(t, splitPath(k)))
			}
			sort.Strings(ks)
			r.OK(key, w.FnPos(val), "loads only "+strings.Join(ks, ", "))
		}
	}
	r.Expect("reader types with a Value method", n, 1)
}

func uniqStrings(in []string) []string {
	var out []string
	for i, s := range in {
		if i == 0 || s != in[i-1] {
			out = append(out, s)
		}
	}
	return out
}
