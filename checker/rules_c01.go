package main

// rules_c01.go — C01: conversion is total (DESIGN 3/C01). Structural necessary conditions only.
//
//	C01-U countdown underflow (contradiction rule; shared with C18-U)
//	C01-L loop progress: no stuck cycle            (rules_c01_loops.go)
//	C01-A inline parsers advance on success        (rules_c01_loops.go)
//	C01-P explicit panic inventory, C01-K registry/type-assertion agreement (this file)
//	C01-E nil-error discipline = the C14 plumbing rules, re-evaluated under C01

import (
	"fmt"
	"go/token"
	"go/types"
	"sort"
	"strings"

	"golang.org/x/tools/go/ssa"
)

func init() {
	register(&Property{
		ID:      "C01",
		Level:   "other",
		Explain: "The statement as a whole (no index/nil panic for any bytes; a wall-clock bound) is not statically provable here: about 350 bounds checks are left unproven even by the compiler. Decided are structural necessary conditions, each of which, when broken, gives an input that crashes, hangs or returns an error: (L) no loop reachable from Convert has a 'stuck' cycle — a cycle header→header along which every loop-carried value keeps its value, no store and no impure call happens, so the exit tests can never change; (A) every inline parser that returns a node has moved the reader on that path (parseBlock re-peeks the same position otherwise: hang and unbounded growth); (U) no countdown loop whose test admits -1 uses its index afterwards without a sign test; (P) the explicit panics reachable from Convert are exactly the reviewed inventory; (K) every registered render function's unconditional node type assertion agrees with the kind it is registered for; (T) no code reachable from Parse asserts a single dynamic type, without the comma-ok form, on a value looked up from a node's attributes — attribute values written in the source are []byte, float64, bool, nil or lists, and the attribute renderer itself dispatches on the dynamic type; (D) the renderer's dispatch tolerates kinds without a function (= C20-D); (E) render functions return a nil error, Render returns only the walk's or Flush's error, Convert returns Render's (= C14-F/W/N). Not decided: index-out-of-range and nil dereference in general, recursion depth on deep nesting, cycles that change something but not enough, the time bound.",
		Trusted: []string{"purity table for stdlib callees used in loop conditions", "VTA call graph with pass-site refinement (DESIGN 2.2)"},
		Assumes: []string{"the destination writer does not fail (statement)", "user-supplied extensions out of scope"},
		Rules: []func(*World, *Report){ruleCountdownUnderflowC01, ruleStuckCycles, ruleInlineParsersAdvance, rulePanicInventory, ruleRegistryAgreement, ruleAttributeAssertions,
			ruleTolerantDispatch, ruleRenderFuncsNilError, ruleRenderReturnsFlush, ruleWalkErrors, ruleLookaheadCovered, ruleComputedSliceEnd, ruleVariableStepPositive, ruleBlockStateOwner, ruleLinkSearchComplete, ruleParentDereferenceGuarded, ruleFlaggedWindowInvariant, ruleSubParsersProgress, ruleNameComparisonsAgree},
	})
}

// ---- C01-U ---------------------------------------------------------------------------------------

// nonNegFact: does (cond == truth) imply v >= 0 ?
func impliesNonNeg(cond ssa.Value, truth bool, v ssa.Value) bool {
	for _, a := range condAtoms(cond, truth) {
		b, ok := a.V.(*ssa.BinOp)
		if !ok {
			continue
		}
		x, y := stripConv(b.X), stripConv(b.Y)
		cx, xc := constInt(x)
		cy, yc := constInt(y)
		switch {
		case x == v && yc:
			// v >= c (c>=0), v > c (c>=-1), !(v < c) (c>=0), !(v <= c) (c>=-1), v == c (c>=0)
			if (b.Op == token.GEQ && a.Truth && cy >= 0) || (b.Op == token.GTR && a.Truth && cy >= -1) ||
				(b.Op == token.LSS && !a.Truth && cy >= 0) || (b.Op == token.LEQ && !a.Truth && cy >= -1) ||
				(b.Op == token.EQL && a.Truth && cy >= 0) || (b.Op == token.NEQ && !a.Truth && cy >= 0) {
				return true
			}
		case y == v && xc:
			// c <= v, c < v, !(c > v), !(c >= v)
			if (b.Op == token.LEQ && a.Truth && cx >= 0) || (b.Op == token.LSS && a.Truth && cx >= -1) ||
				(b.Op == token.GTR && !a.Truth && cx >= 0) || (b.Op == token.GEQ && !a.Truth && cx >= -1) ||
				(b.Op == token.EQL && a.Truth && cx >= 0) || (b.Op == token.NEQ && !a.Truth && cx >= 0) {
				return true
			}
		}
	}
	return false
}

// isNonNegLoopTest: cond is exactly the test "v >= 0" in one of its spellings (v >= 0, v > -1, 0 <= v, -1 < v, or the
// negated forms v < 0, v <= -1, 0 > v, -1 >= v), so the branch on which it fails admits v == -1.
func isNonNegLoopTest(cond ssa.Value, v ssa.Value) (trueContinues bool, ok bool) {
	neg := false
	for {
		u, isU := cond.(*ssa.UnOp)
		if !isU || u.Op != token.NOT {
			break
		}
		neg = !neg
		cond = u.X
	}
	b, isB := cond.(*ssa.BinOp)
	if !isB {
		return false, false
	}
	x, y := stripConv(b.X), stripConv(b.Y)
	cx, xc := constInt(x)
	cy, yc := constInt(y)
	res, found := false, false
	switch {
	case x == v && yc:
		switch {
		case (b.Op == token.GEQ && cy == 0) || (b.Op == token.GTR && cy == -1):
			res, found = true, true
		case (b.Op == token.LSS && cy == 0) || (b.Op == token.LEQ && cy == -1):
			res, found = false, true
		}
	case y == v && xc:
		switch {
		case (b.Op == token.LEQ && cx == 0) || (b.Op == token.LSS && cx == -1):
			res, found = true, true
		case (b.Op == token.GTR && cx == 0) || (b.Op == token.GEQ && cx == -1):
			res, found = false, true
		}
	}
	if !found {
		return false, false
	}
	if neg {
		res = !res
	}
	return res, true
}

func isDecrementOf(v ssa.Value, phi *ssa.Phi) bool {
	b, ok := stripConv(v).(*ssa.BinOp)
	if !ok {
		return false
	}
	if b.Op == token.SUB && stripConv(b.X) == ssa.Value(phi) {
		if c, ok := constInt(b.Y); ok && c >= 1 {
			return true
		}
	}
	if b.Op == token.ADD {
		if stripConv(b.X) == ssa.Value(phi) {
			if c, ok := constInt(b.Y); ok && c <= -1 {
				return true
			}
		}
		if stripConv(b.Y) == ssa.Value(phi) {
			if c, ok := constInt(b.X); ok && c <= -1 {
				return true
			}
		}
	}
	return false
}

func ruleCountdownUnderflowC01(w *World, r *Report) {
	ruleCountdownUnderflow(w, r, "C01-U", func(fn *ssa.Function) bool { return true }, 4)
}

func ruleCountdownUnderflow(w *World, r *Report, id string, scope func(*ssa.Function) bool, minLoops int) {
	r.Rule(id, "Contradiction rule: a loop variable i that is decremented on the back edge and whose continue test is i >= 0 (any spelling) can be -1 where the loop falls out. Every use of i itself as an index or slice bound must be dominated by an edge that implies i >= 0 (the loop test's own true edge, or a later sign test). The loop test admits -1, such a use forbids it.")
	nLoops := 0
	for _, fn := range w.Funcs {
		if !scope(fn) {
			continue
		}
		for _, b := range fn.Blocks {
			for _, ins := range b.Instrs {
				phi, ok := ins.(*ssa.Phi)
				if !ok {
					break
				}
				if !isInteger(phi.Type()) {
					continue
				}
				dec := false
				for _, e := range phi.Edges {
					if isDecrementOf(e, phi) {
						dec = true
					}
				}
				if !dec {
					continue
				}
				// a test "phi >= 0" somewhere that controls the loop
				hasTest := false
				for _, ref := range referrersOf(phi) {
					bo, ok := ref.(*ssa.BinOp)
					if !ok {
						continue
					}
					for _, ref2 := range referrersOf(bo) {
						if iff, ok := ref2.(*ssa.If); ok {
							if _, ok := isNonNegLoopTest(iff.Cond, phi); ok {
								hasTest = true
							}
						}
					}
				}
				if !hasTest {
					continue
				}
				nLoops++
				key := fmt.Sprintf("%s: countdown variable %s", w.FnKey(fn), phiName(phi))
				nUses := 0
				bad := false
				for _, ref := range referrersOf(phi) {
					var what string
					switch x := ref.(type) {
					case *ssa.IndexAddr:
						if stripConv(x.Index) == ssa.Value(phi) {
							what = "index"
						}
					case *ssa.Index:
						if stripConv(x.Index) == ssa.Value(phi) {
							what = "index"
						}
					case *ssa.Slice:
						if (x.Low != nil && stripConv(x.Low) == ssa.Value(phi)) || (x.High != nil && stripConv(x.High) == ssa.Value(phi)) {
							what = "slice bound"
						}
					case *ssa.Convert, *ssa.ChangeType:
						// conversions of i used as index: follow one level
						for _, r2 := range referrersOf(ref.(ssa.Value)) {
							switch y := r2.(type) {
							case *ssa.IndexAddr:
								if stripConv(y.Index) == ssa.Value(phi) {
									what = "index"
								}
							case *ssa.Slice:
								if (y.Low != nil && stripConv(y.Low) == ssa.Value(phi)) || (y.High != nil && stripConv(y.High) == ssa.Value(phi)) {
									what = "slice bound"
								}
							}
						}
					}
					if what == "" {
						continue
					}
					nUses++
					guarded := false
					for _, cf := range dominatingConds(ref.Block()) {
						if impliesNonNeg(cf.If.Cond, cf.Truth, phi) {
							guarded = true
						}
					}
					if !guarded {
						bad = true
						r.Bad(key, w.InstrPos(ref), fmt.Sprintf("%s is used as %s where it may be -1: the loop ends when %s >= 0 fails, and no sign test dominates this use (slice bounds out of range [-1:] / index -1)", phiName(phi), what, phiName(phi)))
					}
				}
				if !bad {
					r.OK(key, w.InstrPos(phi), fmt.Sprintf("%d index/slice uses, each dominated by a fact implying >= 0", nUses))
				}
			}
		}
	}
	r.Expect("countdown loops with test i >= 0", nLoops, minLoops)
}

func phiName(p *ssa.Phi) string {
	if p.Comment != "" {
		return p.Comment
	}
	return p.Name()
}

// ---- C01-P ---------------------------------------------------------------------------------------

// reviewed explicit panics reachable from Convert/Parse/Render, keyed by package + message shape.
var reviewedPanics = []struct{ pkg, msg, why string }{
	{"ast", "can not call with inline nodes.", "BaseInline's block-only accessors: a programming error of an extension, not reachable with the built-in kinds (block accessors are only called on block nodes)"},
	{"text", "invalid state", "Segment.Between precondition (same Stop): callers pass segments of one line"},
	{"parser", " is not a ", "configuration validation in the parser's one-time initialiser: depends on the configured components, not on the input"},
	{"util", "unsafe", "unused"},
}

func rulePanicInventory(w *World, r *Report) {
	r.Rule("C01-P", "Every explicit panic(...) in a module function reachable from Convert/Parse/Render (Once-initialisers included) has a constant message (or a constant suffix) that belongs to the reviewed inventory for its package. A new reachable explicit panic fails the check: it must be looked at.")
	e := w.Entries()
	reach := w.CG().Reach(e.All(), nil)
	n := 0
	var fns []*ssa.Function
	for fn := range reach {
		if w.InModule(fn) && fn.Blocks != nil {
			fns = append(fns, fn)
		}
	}
	sort.Slice(fns, func(i, j int) bool { return fns[i].String() < fns[j].String() })
	for _, fn := range fns {
		for _, b := range fn.Blocks {
			for _, ins := range b.Instrs {
				p, ok := ins.(*ssa.Panic)
				if !ok {
					continue
				}
				// ignore compiler-synthesised panics (none in go/ssa for source functions)
				n++
				msg := panicMessage(p.X)
				pkg := strings.TrimPrefix(w.PkgOf(fn), modPath+"/")
				key := fmt.Sprintf("%s: panic(%q)", w.FnKey(fn), msg)
				okp := false
				why := ""
				for _, rp := range reviewedPanics {
					if rp.pkg == pkg && msg != "" && strings.Contains(msg, rp.msg) {
						okp, why = true, rp.why
					}
				}
				if okp {
					r.OK(key, w.InstrPos(ins), "reviewed: "+why)
				} else {
					r.Unknown(key, w.InstrPos(ins), "an explicit panic reachable from Convert that is not in the reviewed inventory: "+strings.Join(w.PathTo(reach, fn), " -> "))
				}
			}
		}
	}
	r.Expect("explicit panics reachable from the entry points", n, 3)
}

// panicMessage extracts the constant part of a panic argument (string constant, or concatenation with a constant).
func panicMessage(v ssa.Value) string {
	switch x := v.(type) {
	case *ssa.MakeInterface:
		return panicMessage(x.X)
	case *ssa.Const:
		if s, ok := constString(x); ok {
			return s
		}
	case *ssa.BinOp:
		if x.Op == token.ADD {
			return panicMessage(x.X) + panicMessage(x.Y)
		}
	case *ssa.Call:
		// fmt.Sprintf("...", …) / errors.New("...")
		for _, a := range x.Common().Args {
			if s, ok := constString(a); ok {
				return s
			}
		}
	}
	return ""
}

// ---- C01-K ---------------------------------------------------------------------------------------

func ruleRegistryAgreement(w *World, r *Report) {
	r.Rule("C01-K", "For every Register(K, f) performed by a module RegisterFuncs: an unconditional (non comma-ok) type assertion of f's node parameter to *T requires that (*T).Kind() returns the very global K the function is registered for; otherwise the first node of kind K panics in f.")
	regs := w.Registrations()
	n := 0
	for _, rg := range regs {
		if rg.Func == nil || len(rg.Func.Params) < 3 {
			continue
		}
		// the node parameter: the one of interface type ast.Node
		var nodeParam *ssa.Parameter
		for _, p := range rg.Func.Params {
			if nt, ok := p.Type().(*types.Named); ok && nt.Obj().Name() == "Node" {
				nodeParam = p
			}
		}
		if nodeParam == nil {
			continue
		}
		for _, b := range rg.Func.Blocks {
			for _, ins := range b.Instrs {
				ta, ok := ins.(*ssa.TypeAssert)
				if !ok || ta.CommaOk || ta.X != ssa.Value(nodeParam) {
					continue
				}
				n++
				key := fmt.Sprintf("%s registered for %s asserts %s", w.FnKey(rg.Func), kindName(rg.Kind), typeShort(ta.AssertedType))
				nt := namedOf(ta.AssertedType)
				if nt == nil {
					r.Unknown(key, w.InstrPos(ins), "asserted type is not a named node type")
					continue
				}
				kf := w.MethodOf(nt, "Kind")
				if kf == nil {
					r.Unknown(key, w.InstrPos(ins), "asserted type has no Kind method")
					continue
				}
				kg := kindGlobalReturned(kf)
				if kg == nil {
					r.Unknown(key, w.InstrPos(ins), "Kind() does not return a package-level kind variable")
					continue
				}
				if kg == rg.Kind {
					r.OK(key, w.InstrPos(ins), "Kind() returns the registered kind")
				} else {
					r.Bad(key, w.InstrPos(ins), fmt.Sprintf("the function is registered for %s but unconditionally asserts a type whose Kind() is %s: every %s node panics here", kindName(rg.Kind), kg.Name(), kindName(rg.Kind)))
				}
			}
		}
	}
	r.Expect("unconditional node type assertions in registered render functions", n, 8)
}

func kindGlobalReturned(kf *ssa.Function) *ssa.Global {
	var g *ssa.Global
	for _, b := range kf.Blocks {
		if rt, ok := b.Instrs[len(b.Instrs)-1].(*ssa.Return); ok && len(rt.Results) == 1 {
			if u, ok := rt.Results[0].(*ssa.UnOp); ok && u.Op == token.MUL {
				if gg, ok := u.X.(*ssa.Global); ok {
					if g != nil && g != gg {
						return nil
					}
					g = gg
				}
			}
		}
	}
	return g
}

func kindName(g *ssa.Global) string {
	if g == nil {
		return "<non-global kind>"
	}
	return g.Name()
}

// ---- C01-T ---------------------------------------------------------------------------------------

func ruleAttributeAssertions(w *World, r *Report) {
	r.Rule("C01-T", "Contradiction rule: attribute values are dynamically typed (the attribute parser produces []byte, float64, bool, nil and lists; html.RenderAttributes dispatches on the dynamic type). In every module function reachable from Parse, a type assertion without comma-ok whose operand is the value result of a node attribute lookup (Attribute / AttributeString on an ast.Node) is a panic for a source such as '# a {id=1}'.")
	reach := w.CG().Reach(w.Entries().Parse, nil)
	isLookup := func(v ssa.Value) bool {
		ex, ok := v.(*ssa.Extract)
		if !ok || ex.Index != 0 {
			return false
		}
		c, ok := ex.Tuple.(*ssa.Call)
		if !ok {
			return false
		}
		com := c.Common()
		name := ""
		if com.IsInvoke() {
			name = com.Method.Name()
		} else if cal := com.StaticCallee(); cal != nil && cal.Signature.Recv() != nil {
			name = cal.Name()
		}
		if name != "Attribute" && name != "AttributeString" {
			return false
		}
		sig := com.Signature()
		if sig.Results().Len() != 2 {
			return false
		}
		_, isI := sig.Results().At(0).Type().Underlying().(*types.Interface)
		return isI && isBool(sig.Results().At(1).Type())
	}
	var fns []*ssa.Function
	for fn := range reach {
		if w.InModule(fn) && fn.Blocks != nil {
			fns = append(fns, fn)
		}
	}
	sort.Slice(fns, func(i, j int) bool { return fns[i].String() < fns[j].String() })
	nLookups, nAsserts := 0, 0
	for _, fn := range fns {
		k := 0
		for _, b := range fn.Blocks {
			for _, ins := range b.Instrs {
				if ex, ok := ins.(*ssa.Extract); ok && isLookup(ex) {
					nLookups++
				}
				ta, ok := ins.(*ssa.TypeAssert)
				if !ok || !isLookup(ta.X) {
					continue
				}
				nAsserts++
				k++
				key := fmt.Sprintf("%s: assertion #%d of a looked-up attribute value to %s", w.FnKey(fn), k, typeShort(ta.AssertedType))
				if ta.CommaOk {
					r.OK(key, w.InstrPos(ins), "comma-ok form")
				} else {
					r.Bad(key, w.InstrPos(ins), "unconditional type assertion on an attribute value that the source controls: an attribute written as a number, boolean or list (e.g. {id=1}) panics here: "+strings.Join(w.PathTo(reach, fn), " -> "))
				}
			}
		}
	}
	r.Expect("attribute lookups in code reachable from Parse", nLookups, 2)
	r.Expect("type assertions on looked-up attribute values", nAsserts, 1)
}
