package main

// rules_stalehandle.go — C05-H: a loop that replaces the node it works on builds the replacement from the current node.

import (
	"fmt"
	"go/types"
	"strings"

	"golang.org/x/tools/go/ssa"
)

func stripNodeConv(v ssa.Value) ssa.Value {
	for i := 0; i < 8; i++ {
		switch x := v.(type) {
		case *ssa.MakeInterface:
			v = x.X
		case *ssa.ChangeInterface:
			v = x.X
		case *ssa.ChangeType:
			v = x.X
		case *ssa.TypeAssert:
			v = x.X
		case *ssa.Extract:
			if ta, ok := x.Tuple.(*ssa.TypeAssert); ok && x.Index == 0 {
				v = ta.X
			} else {
				return v
			}
		default:
			return v
		}
	}
	return v
}

func ruleReplacementFromCurrentNode(w *World, r *Report) {
	r.Rule("C05-H", "Replace-in-a-loop: where a loop carries a node variable n that it detaches (RemoveChild/ReplaceChild of n) and re-points to a newly constructed node in the same loop (a text node split at several positions), every node constructor called in that loop takes its arguments from the current n — the data flow from a constructor argument back to its sources, stopped at the loop's own merge points, does not reach the value n had when the loop was entered. A segment remembered from the original node is stale after the first replacement: the second split cuts the original range again, so the pieces overlap, are out of document order, and cover bytes twice.")
	n := 0
	nodeIt := w.Iface("ast", "Node")
	perFn := map[*ssa.Function]int{}
	for _, fn := range w.Funcs {
		if fn.Synthetic != "" {
			continue
		}
		loops, _ := naturalLoops(fn)
		for _, l := range loops {
			for _, ins := range l.header.Instrs {
				phi, ok := ins.(*ssa.Phi)
				if !ok {
					break
				}
				if !isNodeIface(phi.Type()) && !(nodeIt != nil && types.Implements(phi.Type(), nodeIt)) {
					continue
				}
				// re-pointed to a constructed node inside the loop
				rebuilt := false
				entry := map[ssa.Value]bool{}
				for i, e := range phi.Edges {
					if !l.body[l.header.Preds[i]] {
						// the value on entry, and — when that is the same variable carried by an enclosing loop — what
						// that one was entered with
						var add func(v ssa.Value, d int)
						add = func(v ssa.Value, d int) {
							v = stripNodeConv(v)
							if entry[v] || d > 6 || v == ssa.Value(phi) {
								return
							}
							if q, isPhi := v.(*ssa.Phi); isPhi && l.body[q.Block()] {
								return // the loop's own merge points carry the current value
							}
							if c, isCall := v.(*ssa.Call); isCall {
								if cal := c.Common().StaticCallee(); cal != nil && strings.HasPrefix(cal.Name(), "New") {
									return
								}
							}
							entry[v] = true
							if p, isPhi := v.(*ssa.Phi); isPhi && p.Comment == phi.Comment {
								for _, pe := range p.Edges {
									add(pe, d+1)
								}
							}
						}
						add(e, 0)
						continue
					}
					for _, leaf := range phiLeaves(e) {
						if c, ok := stripNodeConv(leaf).(*ssa.Call); ok {
							if cal := c.Common().StaticCallee(); cal != nil && strings.HasPrefix(cal.Name(), "New") && w.InModule(cal) {
								rebuilt = true
							}
						}
					}
				}
				if !rebuilt || len(entry) == 0 {
					continue
				}
				// detached inside the loop
				detached := false
				for b := range l.body {
					for _, bi := range b.Instrs {
						c, ok := bi.(ssa.CallInstruction)
						if !ok {
							continue
						}
						name := ""
						if c.Common().IsInvoke() {
							name = c.Common().Method.Name()
						} else if cal := c.Common().StaticCallee(); cal != nil {
							name = cal.Name()
						}
						if name != "RemoveChild" && name != "ReplaceChild" {
							continue
						}
						for _, a := range c.Common().Args {
							if x := stripNodeConv(a); x == ssa.Value(phi) || isPhiOf(x, phi, l) {
								detached = true
							}
						}
					}
				}
				if !detached {
					continue
				}
				n++
				perFn[fn]++
				key := fmt.Sprintf("%s: loop #%d replacing %s", w.FnKey(fn), perFn[fn], phi.Comment)
				bad := ""
				nCtor := 0
				for b := range l.body {
					for _, bi := range b.Instrs {
						c, ok := bi.(*ssa.Call)
						if !ok {
							continue
						}
						cal := c.Common().StaticCallee()
						if cal == nil || !strings.HasPrefix(cal.Name(), "New") || !w.InModule(cal) {
							continue
						}
						nCtor++
						seen := map[ssa.Value]bool{}
						var reach func(v ssa.Value, d int) bool
						reach = func(v ssa.Value, d int) bool {
							if d > 12 || seen[v] {
								return false
							}
							seen[v] = true
							if entry[stripNodeConv(v)] {
								return true
							}
							if p, isPhi := v.(*ssa.Phi); isPhi && l.body[p.Block()] {
								return false // a merge point of the loop: the current value
							}
							if al, isAlloc := v.(*ssa.Alloc); isAlloc {
								// a local variable: what is stored into it
								for _, ref := range referrersOf(al) {
									if st, isSt := ref.(*ssa.Store); isSt && st.Addr == ssa.Value(al) && reach(st.Val, d+1) {
										return true
									}
								}
								return false
							}
							ins, ok := v.(ssa.Instruction)
							if !ok {
								return false
							}
							for _, op := range ins.Operands(nil) {
								if *op != nil && reach(*op, d+1) {
									return true
								}
							}
							return false
						}
						for _, a := range c.Common().Args {
							if reach(a, 0) {
								bad = fmt.Sprintf("%s(…) at %s is built from the node the loop started with, not from the current one", cal.Name(), w.InstrPos(c))
							}
						}
					}
				}
				if bad != "" {
					r.Bad(key, w.InstrPos(phi), bad+": after the first replacement that node is no longer in the tree and its range has already been cut")
				} else {
					r.OK(key, w.InstrPos(phi), fmt.Sprintf("%d constructor call(s) in the loop, none fed from the node the loop was entered with", nCtor))
				}
			}
		}
	}
	r.Expect("loops that replace the node they work on", n, 1)
}

// isPhiOf: x is a phi inside the loop that merges only values of phi (an inner loop's copy of the same variable).
func isPhiOf(x ssa.Value, phi *ssa.Phi, l *natLoop) bool {
	p, ok := x.(*ssa.Phi)
	if !ok || !l.body[p.Block()] {
		return false
	}
	seen := map[*ssa.Phi]bool{}
	var rec func(q *ssa.Phi) bool
	rec = func(q *ssa.Phi) bool {
		if q == phi {
			return true
		}
		if seen[q] {
			return false
		}
		seen[q] = true
		for _, e := range q.Edges {
			if qq, ok := stripNodeConv(e).(*ssa.Phi); ok && rec(qq) {
				return true
			}
		}
		return false
	}
	return rec(p)
}
