package main

// rules_extend.go — C11-X: an extension's Extend only registers components.

import (
	"fmt"
	"strings"

	"golang.org/x/tools/go/ssa"
)

// extendReviewed: extensions whose purpose is to change global options (not among the extensions C11 speaks about).
var extendReviewed = map[string]string{
	"extension.cjk": "CJK exists to set the East-Asian line-break and escaped-space options of the whole instance; it registers no construct and is not one of the extensions C11 lists",
}

var registrationOptions = map[string]bool{
	"WithBlockParsers": true, "WithInlineParsers": true, "WithParagraphTransformers": true, "WithASTTransformers": true, "WithNodeRenderers": true,
}

func ruleExtendOnlyRegisters(w *World, r *Report) {
	r.Rule("C11-X", "Every Extend method of a module type implementing goldmark.Extender (CJK excepted, with the reason in the table) hands to Parser().AddOptions / Renderer().AddOptions only a literal list of options each of which is the result of a registration constructor — WithBlockParsers, WithInlineParsers, WithParagraphTransformers, WithASTTransformers, WithNodeRenderers. Renderer-wide or parser-wide options (XHTML, Unsafe, HardWraps, attribute parsing) passed along by an extension change how documents that contain none of the extension's constructs are rendered, which is exactly what 'conservative' excludes.")
	it := w.Iface("", "Extender")
	if it == nil {
		r.Unknown("goldmark.Extender", "", "interface not found")
		return
	}
	n := 0
	for _, t := range w.Implementers(it) {
		fn := w.MethodOf(t, "Extend")
		if fn == nil || !w.InModule(fn) || fn.Blocks == nil {
			continue
		}
		if why, ok := extendReviewed[typeShort(t)]; ok {
			r.OK(typeShort(t)+".Extend", w.FnPos(fn), "reviewed exception: "+why)
			continue
		}
		per := 0
		for _, f := range AnonClosure(fn) {
			for _, b := range f.Blocks {
				for _, ins := range b.Instrs {
					c, ok := ins.(ssa.CallInstruction)
					if !ok {
						continue
					}
					name := ""
					if c.Common().IsInvoke() {
						name = c.Common().Method.Name()
					} else if cal := c.Common().StaticCallee(); cal != nil {
						name = cal.Name()
					}
					if name != "AddOptions" || len(c.Common().Args) == 0 {
						continue
					}
					n++
					per++
					key := fmt.Sprintf("%s.Extend: AddOptions #%d", typeShort(t), per)
					list := c.Common().Args[len(c.Common().Args)-1]
					bad := ""
					nEl := 0
					judge := func(v ssa.Value) {
						nEl++
						v = stripMakeIface(v)
						call, isCall := v.(*ssa.Call)
						if !isCall || call.Common().StaticCallee() == nil || !registrationOptions[call.Common().StaticCallee().Name()] {
							bad = "option " + shortVal(v) + " is not the result of a registration constructor"
						}
					}
					// a literal list, possibly grown by append(list, more...)
					var walk func(v ssa.Value, depth int)
					walk = func(v ssa.Value, depth int) {
						if depth > 6 {
							bad = "the option list is built in too many steps to follow"
							return
						}
						switch x := v.(type) {
						case *ssa.Const:
							if !x.IsNil() {
								bad = "the option list is not a literal list"
							}
						case *ssa.Slice:
							arr, ok := x.X.(*ssa.Alloc)
							if !ok {
								bad = "the option list is not a literal list (it is built or passed on as a value)"
								return
							}
							for _, ref := range referrersOf(arr) {
								ia, ok := ref.(*ssa.IndexAddr)
								if !ok {
									continue
								}
								for _, r2 := range referrersOf(ia) {
									if st, ok := r2.(*ssa.Store); ok {
										judge(st.Val)
									}
								}
							}
						case *ssa.Call:
							if builtinName(x.Common()) == "append" && len(x.Common().Args) == 2 {
								walk(x.Common().Args[0], depth+1)
								walk(x.Common().Args[1], depth+1)
								return
							}
							bad = "the option list is the result of a call (it is built or passed on as a value)"
						default:
							bad = "the option list is not a literal list (it is built or passed on as a value)"
						}
					}
					walk(list, 0)
					if bad == "" && nEl == 0 {
						if cst, isC := list.(*ssa.Const); !isC || !cst.IsNil() {
							bad = "no option stored into the list could be identified"
						}
					}
					if bad != "" {
						r.Bad(key, w.InstrPos(ins), bad+": an extension that passes instance-wide options along changes documents that do not use it")
					} else {
						r.OK(key, w.InstrPos(ins), "only registration options")
					}
				}
			}
		}
	}
	r.Expect("AddOptions calls in Extend methods", n, 6)
	_ = strings.TrimSpace
}
