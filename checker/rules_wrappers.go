package main

// rules_wrappers.go — C08-W and C17-W: the render functions of pure wrapper elements (block quote; table, header,
// row, cell) emit their opening tag on every entering path and the matching closing tag on every leaving path,
// always continue into the children, and — for the block quote, whose statement compares a document with its quoted
// form — look at nothing but `entering` and the node's own attributes.

import (
	"fmt"
	"go/types"
	"regexp"
	"sort"
	"strings"

	"golang.org/x/tools/go/ssa"
)

var tagTokenRe = regexp.MustCompile(`</?[A-Za-z§][A-Za-z0-9§]*`)

type wrapperPath struct {
	mode   string // "enter", "leave", "both"
	tokens map[string]bool
}

// wrapperPaths enumerates the paths of a render function and, per path, the tag tokens of its constant writes.
func (w *World) wrapperPaths(fn *ssa.Function) ([]wrapperPath, bool) {
	sa := w.Sinks()
	entering := fn.Params[len(fn.Params)-1]
	var out []wrapperPath
	ok := EnumPaths(fn.Blocks[0], map[string]bool{}, isReturnBlock, func(p Path) {
		wp := wrapperPath{mode: "both", tokens: map[string]bool{}}
		text := ""
		for i, b := range p.Blocks {
			for _, ins := range b.Instrs {
				if s := sa.sinkAt(fn, ins); s != nil {
					for _, pc := range s.Pieces {
						switch {
						case pc.Const:
							text += pc.Text
						case pc.Data.Kind == DConst:
							text += "§"
						default:
							text += "\x00"
						}
					}
				} else if c, isCall := ins.(ssa.CallInstruction); isCall && !c.Common().IsInvoke() {
					// a module helper that writes (RenderAttributes …) separates the constants
					if cal := c.Common().StaticCallee(); cal != nil && w.InModule(cal) {
						text += "\x00"
					}
				}
			}
			if i < len(p.Edges) {
				if iff, isIf := b.Instrs[len(b.Instrs)-1].(*ssa.If); isIf {
					for _, a := range condAtoms(iff.Cond, p.Edges[i] == 0) {
						if a.V == ssa.Value(entering) {
							if a.Truth {
								wp.mode = "enter"
							} else {
								wp.mode = "leave"
							}
						}
					}
				}
			}
		}
		for _, t := range tagTokenRe.FindAllString(text, -1) {
			wp.tokens[strings.ToLower(t[1:])] = true
		}
		out = append(out, wp)
	})
	return out, ok
}

func coreTokens(paths []wrapperPath, mode string, closing bool) (map[string]bool, int) {
	var core map[string]bool
	n := 0
	for _, p := range paths {
		if p.mode != mode && p.mode != "both" {
			continue
		}
		n++
		cur := map[string]bool{}
		for t := range p.tokens {
			if strings.HasPrefix(t, "/") == closing {
				cur[strings.TrimPrefix(t, "/")] = true
			}
		}
		if core == nil {
			core = cur
			continue
		}
		for t := range core {
			if !cur[t] {
				delete(core, t)
			}
		}
	}
	if core == nil {
		core = map[string]bool{}
	}
	return core, n
}

func (w *World) renderFuncsForKinds(kinds map[string]bool) []Registration {
	var out []Registration
	for _, reg := range w.Registrations() {
		if reg.Kind != nil && reg.Func != nil && kinds[reg.Kind.Name()] {
			out = append(out, reg)
		}
	}
	return out
}

func (w *World) checkWrapper(r *Report, reg Registration) {
	fn := reg.Func
	name := w.FnKey(fn)
	if len(fn.Params) < 4 || fn.Blocks == nil {
		r.Unknown(name, w.FnPos(fn), "not a render function with a body")
		return
	}
	// (a) always continue into the children
	wc, _ := w.Obj("ast", "WalkContinue").(*types.Const)
	contV, okc := int64(0), false
	if wc != nil {
		contV, okc = constIntVal(wc)
	}
	bad := ""
	for _, b := range fn.Blocks {
		ret, ok := b.Instrs[len(b.Instrs)-1].(*ssa.Return)
		if !ok || len(ret.Results) == 0 {
			continue
		}
		for _, leaf := range phiLeaves(ret.Results[0]) {
			if v, isC := constInt(leaf); !okc || !isC || v != contV {
				bad = w.InstrPos(ret)
			}
		}
	}
	if bad != "" {
		r.Bad(name+": always WalkContinue", bad, "the wrapper's render function can return a status other than WalkContinue: the children (cells, rows, quoted blocks) are skipped for some node")
	} else {
		r.OK(name+": always WalkContinue", w.FnPos(fn), "every return carries the constant WalkContinue")
	}
	// (b) opening tag on every entering path, matching closing tag on every leaving path
	paths, ok := w.wrapperPaths(fn)
	if !ok {
		r.Unknown(name+": tags on every path", w.FnPos(fn), "path bound exceeded")
		return
	}
	open, nEnter := coreTokens(paths, "enter", false)
	clos, nLeave := coreTokens(paths, "leave", true)
	switch {
	case nEnter == 0 || nLeave == 0:
		r.Unknown(name+": tags on every path", w.FnPos(fn), "no entering or no leaving path found")
	case len(open) == 0:
		r.Bad(name+": tags on every path", w.FnPos(fn), "no opening tag is written on every entering path: for some node the element is opened on one path and not on another")
	case len(clos) == 0:
		r.Bad(name+": tags on every path", w.FnPos(fn), "no closing tag is written on every leaving path")
	default:
		a, b := sortedKeys(open), sortedKeys(clos)
		if strings.Join(a, ",") == strings.Join(b, ",") {
			r.OK(name+": tags on every path", w.FnPos(fn), fmt.Sprintf("%d entering path(s) all open <%s>, %d leaving path(s) all close it", nEnter, strings.Join(a, "> <"), nLeave))
		} else {
			r.Bad(name+": tags on every path", w.FnPos(fn), fmt.Sprintf("elements opened on every entering path (%s) differ from those closed on every leaving path (%s)", strings.Join(a, ","), strings.Join(b, ",")))
		}
	}
}

func ruleTableWrappers(w *World, r *Report) {
	r.Rule("C17-W", "The render functions registered for Table, TableHeader, TableRow and TableCell always return WalkContinue (skipping children would drop rows or cells of some table), write their opening tag on every entering path and the matching closing tag on every leaving path (path enumeration over the constant writes; optional extra tags such as <tbody> are allowed): a header row or cell that is emitted for one table and silently omitted for another makes the rendered grid non-rectangular although the tree is.")
	regs := w.renderFuncsForKinds(map[string]bool{"KindTable": true, "KindTableHeader": true, "KindTableRow": true, "KindTableCell": true})
	for _, reg := range regs {
		w.checkWrapper(r, reg)
	}
	r.Expect("table render functions", len(regs), 2)
}

func ruleQuoteWrapper(w *World, r *Report) {
	r.Rule("C08-W", "The render function registered for Blockquote is a constant wrapper: it always returns WalkContinue, opens <blockquote> on every entering path and closes it on every leaving path, and its branch conditions depend on nothing but `entering` and the node's own attributes (not on the children, the source bytes or renderer flags) — otherwise the rendering of a quoted document is not the rendering of the document inside a fixed wrapper.")
	regs := w.renderFuncsForKinds(map[string]bool{"KindBlockquote": true})
	for _, reg := range regs {
		w.checkWrapper(r, reg)
		fn := reg.Func
		if len(fn.Params) < 4 || fn.Blocks == nil {
			continue
		}
		entering := fn.Params[len(fn.Params)-1]
		node := fn.Params[len(fn.Params)-2]
		var offending []string
		for _, b := range fn.Blocks {
			iff, ok := b.Instrs[len(b.Instrs)-1].(*ssa.If)
			if !ok {
				continue
			}
			okCond := true
			operandsClosure(iff.Cond, func(v ssa.Value) bool {
				switch x := v.(type) {
				case *ssa.Const, *ssa.BinOp, *ssa.UnOp, *ssa.Phi:
					if u, isU := x.(*ssa.UnOp); isU && u.Op.String() == "*" {
						okCond = false // a load: a field of something
					}
					return true
				case *ssa.Parameter:
					if x != entering && x != node {
						okCond = false
					}
					return false
				case *ssa.Call:
					com := x.Common()
					if com.IsInvoke() && com.Value == ssa.Value(node) && com.Method.Name() == "Attributes" {
						return false
					}
					if builtinName(com) == "len" {
						return true
					}
					okCond = false
					return false
				default:
					okCond = false
					return false
				}
			})
			if p, isP := iff.Cond.(*ssa.Parameter); isP && p == node {
				okCond = false
			}
			if !okCond {
				offending = append(offending, w.InstrPos(iff))
			}
		}
		sort.Strings(offending)
		key := w.FnKey(fn) + ": branches only on entering and the node's attributes"
		if len(offending) > 0 {
			r.Bad(key, offending[0], "the block quote wrapper's output depends on something else (children, source bytes or a renderer flag): "+strings.Join(offending, ", "))
		} else {
			r.OK(key, w.FnPos(fn), "all branch conditions are `entering` or n.Attributes() tests")
		}
	}
	r.Expect("Blockquote render functions", len(regs), 1)
}
