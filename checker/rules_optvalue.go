package main

// rules_optvalue.go — C10-V (also run under C03 and C04): a renderer option given by name keeps the value it was
// given. renderer.WithOption("Unsafe", false) is the spelling configuration-file driven set-ups use; a by-name
// setter that treats the presence of the name as "enabled" turns an explicit false into true.

import (
	"fmt"
	"go/types"

	"golang.org/x/tools/go/ssa"
)

func ruleOptionValueStored(w *World, r *Report) {
	r.Rule("C10-V", "In every SetOption(name, value) method of a module type implementing renderer.SetOptioner, each store into a receiver field stores the value parameter (through a type assertion, plain or comma-ok), never a constant or anything else: an option spelled out by name with the value false (Unsafe, XHTML, HardWraps) must stay false.")
	so := w.Iface("renderer", "SetOptioner")
	if so == nil {
		r.Unknown("renderer.SetOptioner", "", "interface not found")
		return
	}
	seen := map[*ssa.Function]bool{}
	n, stores := 0, 0
	for _, t := range w.Implementers(so) {
		fn := w.MethodOf(t, "SetOption")
		if fn == nil || seen[fn] || len(fn.Params) != 3 || fn.Blocks == nil {
			continue
		}
		seen[fn] = true
		n++
		valueP := fn.Params[2]
		for _, b := range fn.Blocks {
			for _, ins := range b.Instrs {
				st, ok := ins.(*ssa.Store)
				if !ok {
					continue
				}
				root, p, ok := addrFieldPath(st.Addr)
				if !ok || root != ssa.Value(fn.Params[0]) || len(p) == 0 {
					continue
				}
				stores++
				recvT := namedOf(fn.Params[0].Type())
				key := fmt.Sprintf("%s: store to %s", w.FnKey(fn), fieldPathName(recvT, p))
				if fromOptionValue(st.Val, valueP, 0) {
					r.OK(key, w.InstrPos(st), "stores the type-asserted value parameter")
				} else {
					r.Bad(key, w.InstrPos(st), "the by-name setter stores "+shortVal(st.Val)+" instead of the value it was given: an option spelled out with an explicit value (e.g. Unsafe=false) is not honoured")
				}
			}
		}
	}
	r.Expect("SetOption methods of renderer.SetOptioner types", n, 2)
	r.Expect("receiver-field stores in them", stores, 5)
}

// fromOptionValue: v is the value parameter looked at through type assertions / conversions / phis of such.
func fromOptionValue(v ssa.Value, p *ssa.Parameter, depth int) bool {
	if depth > 8 {
		return false
	}
	switch x := v.(type) {
	case *ssa.Parameter:
		return x == p
	case *ssa.TypeAssert:
		return fromOptionValue(x.X, p, depth+1)
	case *ssa.Extract:
		if ta, ok := x.Tuple.(*ssa.TypeAssert); ok && x.Index == 0 {
			return fromOptionValue(ta.X, p, depth+1)
		}
	case *ssa.ChangeType:
		return fromOptionValue(x.X, p, depth+1)
	case *ssa.Convert:
		return fromOptionValue(x.X, p, depth+1)
	case *ssa.ChangeInterface:
		return fromOptionValue(x.X, p, depth+1)
	case *ssa.MakeInterface:
		return fromOptionValue(x.X, p, depth+1)
	case *ssa.Phi:
		for _, e := range x.Edges {
			if !fromOptionValue(e, p, depth+1) {
				return false
			}
		}
		return len(x.Edges) > 0
	case *ssa.Call:
		// a conversion helper applied to the asserted value (e.g. a func-typed option wrapped in an adapter)
		if cal := x.Call.StaticCallee(); cal != nil && len(x.Call.Args) == 1 {
			if _, isSig := cal.Type().(*types.Signature); isSig {
				return fromOptionValue(x.Call.Args[0], p, depth+1)
			}
		}
	}
	return false
}
