package main

// rules_lowerkeys.go — C02-L: a table keyed by lower-case words is looked up with lower-cased keys.

import (
	"fmt"
	"go/ast"
	"go/constant"
	"go/token"
	"go/types"
	"strings"

	"golang.org/x/tools/go/ssa"
)

// lowerWordMaps: package-level map variables initialised by a literal all of whose keys are constant strings made of
// lower-case letters and digits (at least one key, at least one letter), never written elsewhere.
func (w *World) lowerWordMaps() map[*ssa.Global]int {
	out := map[*ssa.Global]int{}
	for path, pkg := range w.Pkgs {
		for _, f := range pkg.Syntax {
			for _, d := range f.Decls {
				gd, ok := d.(*ast.GenDecl)
				if !ok || gd.Tok != token.VAR {
					continue
				}
				for _, sp := range gd.Specs {
					vs := sp.(*ast.ValueSpec)
					for i, n := range vs.Names {
						if i >= len(vs.Values) {
							continue
						}
						cl, ok := vs.Values[i].(*ast.CompositeLit)
						if !ok {
							continue
						}
						mt, ok := pkg.TypesInfo.TypeOf(cl).Underlying().(*types.Map)
						if !ok {
							continue
						}
						if b, ok := mt.Key().Underlying().(*types.Basic); !ok || b.Kind() != types.String {
							continue
						}
						all, letters := len(cl.Elts) > 0, false
						for _, el := range cl.Elts {
							kv, ok := el.(*ast.KeyValueExpr)
							if !ok {
								all = false
								break
							}
							tv := pkg.TypesInfo.Types[kv.Key]
							if tv.Value == nil || tv.Value.Kind() != constant.String {
								all = false
								break
							}
							for _, c := range constant.StringVal(tv.Value) {
								switch {
								case c >= 'a' && c <= 'z':
									letters = true
								case c >= '0' && c <= '9':
								default:
									all = false
								}
							}
						}
						if !all || !letters {
							continue
						}
						if g, _ := w.SPkgs[path].Members[n.Name].(*ssa.Global); g != nil {
							out[g] = len(cl.Elts)
						}
					}
				}
			}
		}
	}
	return out
}

func lowerCased(v ssa.Value) bool {
	found := false
	operandsClosure(v, func(x ssa.Value) bool {
		if c, ok := x.(*ssa.Call); ok {
			if cal := c.Common().StaticCallee(); cal != nil {
				switch cal.String() {
				case "strings.ToLower", "bytes.ToLower":
					found = true
				}
				if strings.HasSuffix(cal.Name(), "ToLower") || strings.HasSuffix(cal.Name(), "ToLowerASCII") {
					found = true
				}
			}
		}
		return !found
	})
	return found
}

func ruleLowerCaseTables(w *World, r *Report) {
	r.Rule("C02-L", "A package-level map whose literal keys are all lower-case words (the table of HTML block tag names) holds names that the specification matches case-insensitively. Every lookup in such a map uses a key that went through strings.ToLower / bytes.ToLower (or is a constant): a lookup keyed by the raw bytes of the line finds <div but not <DIV, so the upper-case spelling of a start condition no longer opens the block. Sibling lookups of the same table must agree.")
	maps := w.lowerWordMaps()
	n := 0
	for _, fn := range w.Funcs {
		per := 0
		for _, b := range fn.Blocks {
			for _, ins := range b.Instrs {
				lk, ok := ins.(*ssa.Lookup)
				if !ok {
					continue
				}
				ld, ok := lk.X.(*ssa.UnOp)
				if !ok || ld.Op != token.MUL {
					continue
				}
				g, ok := ld.X.(*ssa.Global)
				if !ok || maps[g] == 0 {
					continue
				}
				n++
				per++
				key := fmt.Sprintf("%s: %s[…] #%d", w.FnKey(fn), g.Name(), per)
				if _, isC := lk.Index.(*ssa.Const); isC || lowerCased(lk.Index) {
					r.OK(key, w.InstrPos(lk), "key is lower-cased")
				} else {
					r.Bad(key, w.InstrPos(lk), fmt.Sprintf("the table %s has only lower-case keys (%d of them) and is looked up here with a key that was not lower-cased: names written in upper or mixed case are not found", g.Name(), maps[g]))
				}
			}
		}
	}
	r.Expect("lookups in lower-case word tables", n, 1)
}
