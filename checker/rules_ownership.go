package main

// rules_ownership.go — C10-O (also under C06 and C07): a component that the owning parser/renderer configures in
// place (it implements renderer.SetOptioner or parser.SetOptioner; the instance's once-initialiser calls SetOption on
// it) belongs to exactly one instance: wherever the module wraps one with util.Prioritized to register it, the object
// was allocated by that very activation.

import (
	"fmt"
	"go/token"
	"go/types"
	"strings"

	"golang.org/x/tools/go/ssa"
)

type ownLeaf struct {
	fresh bool
	typ   types.Type
	what  string
}

func (w *World) ownershipLeaves(v ssa.Value, depth int, seen map[ssa.Value]bool) []ownLeaf {
	v = stripMakeIface(v)
	if depth > 8 || seen[v] {
		return nil
	}
	seen[v] = true
	switch x := v.(type) {
	case *ssa.Alloc:
		return []ownLeaf{{fresh: x.Heap || true, typ: x.Type(), what: "allocated here"}}
	case *ssa.Phi:
		var out []ownLeaf
		for _, e := range x.Edges {
			out = append(out, w.ownershipLeaves(e, depth+1, seen)...)
		}
		return out
	case *ssa.ChangeType:
		return w.ownershipLeaves(x.X, depth+1, seen)
	case *ssa.Call:
		cal := x.Common().StaticCallee()
		if cal == nil || !w.InModule(cal) || cal.Blocks == nil {
			return []ownLeaf{{fresh: false, typ: x.Type(), what: "result of " + x.Common().String()}}
		}
		var out []ownLeaf
		for _, b := range cal.Blocks {
			if ret, ok := b.Instrs[len(b.Instrs)-1].(*ssa.Return); ok && len(ret.Results) >= 1 {
				out = append(out, w.ownershipLeaves(ret.Results[0], depth+1, seen)...)
			}
		}
		return out
	case *ssa.UnOp:
		if x.Op == token.MUL {
			if g, ok := x.X.(*ssa.Global); ok {
				return []ownLeaf{{fresh: false, typ: x.Type(), what: "package-level " + g.Name()}}
			}
			if fa, ok := x.X.(*ssa.FieldAddr); ok {
				_, f := fieldOfAddr(fa)
				name := "?"
				if f != nil {
					name = f.Name()
				}
				return []ownLeaf{{fresh: false, typ: x.Type(), what: "field " + name}}
			}
		}
	case *ssa.Const:
		return nil
	}
	return []ownLeaf{{fresh: false, typ: v.Type(), what: shortVal(v)}}
}

func ruleConfiguredComponentsOwned(w *World, r *Report) {
	r.Rule("C10-O", "Every value the module wraps with util.Prioritized whose type is configured in place by the instance it is registered with (a module type implementing renderer.SetOptioner or parser.SetOptioner, or an interface value that may hold one) was allocated by the registering activation itself (a constructor call returning a new object on every return). A node renderer built once per extension value and handed to every Markdown instance keeps the options (XHTML, Unsafe, …) an earlier instance pushed into it, and is written by two instances' initialisers.")
	var setOpt []*types.Named
	for _, p := range []string{"renderer", "parser"} {
		setOpt = append(setOpt, w.Implementers(w.Iface(p, "SetOptioner"))...)
	}
	isSetOpt := func(t types.Type) (bool, string) {
		if n := namedOf(t); n != nil {
			if _, isI := n.Underlying().(*types.Interface); !isI {
				for _, s := range setOpt {
					if s.Obj() == n.Obj() {
						return true, typeShort(n)
					}
				}
				return false, ""
			}
			// interface: may hold any implementer
			it := n.Underlying().(*types.Interface)
			for _, s := range setOpt {
				if types.Implements(types.NewPointer(s), it) || types.Implements(s, it) {
					return true, "a " + typeShort(n) + " (may be " + typeShort(s) + ")"
				}
			}
		}
		return false, ""
	}
	prio := w.PkgFunc("util", "Prioritized")
	if prio == nil {
		r.Unknown("util.Prioritized", "", "function not found")
		return
	}
	n, nConf := 0, 0
	for _, fn := range w.Funcs {
		for _, b := range fn.Blocks {
			for _, ins := range b.Instrs {
				c, ok := ins.(*ssa.Call)
				if !ok || c.Common().StaticCallee() != prio || len(c.Common().Args) != 2 {
					continue
				}
				n++
				leaves := w.ownershipLeaves(c.Common().Args[0], 0, map[ssa.Value]bool{})
				var bad []string
				conf := false
				for _, l := range leaves {
					is, what := isSetOpt(l.typ)
					if !is {
						continue
					}
					conf = true
					if !l.fresh {
						bad = append(bad, fmt.Sprintf("%s is %s, not allocated by this activation", what, l.what))
					}
				}
				if !conf {
					continue
				}
				nConf++
				key := fmt.Sprintf("%s: %s", w.FnKey(fn), shortVal(stripMakeIface(c.Common().Args[0])))
				if len(bad) > 0 {
					r.Bad(key, w.InstrPos(c), "a component that its owner configures in place is shared between instances: "+strings.Join(bad, "; "))
				} else {
					r.OK(key, w.InstrPos(c), "configured-in-place component constructed by this activation")
				}
			}
		}
	}
	r.Expect("util.Prioritized registrations", n, 10)
	r.Expect("of which configured in place", nConf, 3)
}
