package main

// rules_c01_flag.go — C01-I: a slice s[n:i-c] that is taken only while a loop-carried flag is set is safe because of an
// invariant "flag => n <= i-c"; the invariant is checked to be inductive, cycle by cycle.

import (
	"fmt"
	"go/token"

	"golang.org/x/tools/go/ssa"
)

func ruleFlaggedWindowInvariant(w *World, r *Report) {
	r.Rule("C01-I", "Scanners that remember 'the previous byte was a backslash' in a loop-carried flag and, while it is set, cut the pending range one byte short (s[n:i-1], n being the loop-carried start of the pending range) rely on the invariant  flag ⇒ n ≤ i-1. For every such slice, every feasible cycle of the loop (header to header; cycles whose byte facts — evaluated for all 256 values of s[i] with the source's own one-byte predicates — admit no byte are dropped) that ends with the flag set either leaves n unchanged while the index advances, or sets n to X+k and the index to X+d with k ≤ d-1. A cycle that moves n past the escaped byte and keeps the flag (an arm that lost its `flag = false`) makes the next cut s[n:i-1] run backwards: slice bounds out of range. Assumes n ≤ i at the loop header.")
	n := 0
	for _, fn := range w.Funcs {
		if fn.Synthetic != "" {
			continue
		}
		loops, _ := naturalLoops(fn)
		for _, l := range loops {
			if isRangeLoop(l) {
				continue
			}
			var phis []*ssa.Phi
			for _, ins := range l.header.Instrs {
				if p, ok := ins.(*ssa.Phi); ok {
					phis = append(phis, p)
				}
			}
			// candidate slices in the loop body: s[mark : idx-c] under flag == true (blocks in function order, so that the
			// numbering of the obligations is stable)
			nth := 0
			for _, b := range fn.Blocks {
				if !l.body[b] {
					continue
				}
				for _, ins := range b.Instrs {
					sl, ok := ins.(*ssa.Slice)
					if !ok || sl.Low == nil || sl.High == nil || !isByteSlice(sl.X.Type()) {
						continue
					}
					mark, ok := sl.Low.(*ssa.Phi)
					if !ok || mark.Block() != l.header {
						continue
					}
					hb, ok := stripConv(sl.High).(*ssa.BinOp)
					if !ok || hb.Op != token.SUB {
						continue
					}
					idx, ok := hb.X.(*ssa.Phi)
					c, okc := constInt(hb.Y)
					if !ok || !okc || idx.Block() != l.header || c < 1 {
						continue
					}
					var flag *ssa.Phi
					for _, cf := range dominatingConds(b) {
						if p, ok := cf.If.Cond.(*ssa.Phi); ok && cf.Truth && p.Block() == l.header && isBool(p.Type()) {
							flag = p
						}
					}
					if flag == nil {
						continue
					}
					n++
					nth++
					key := fmt.Sprintf("%s: %s[%s:%s-%d] under %s #%d", w.FnKey(fn), stableName(sl.X), mark.Comment, idx.Comment, c, flag.Comment, nth)
					bad, nCycles, nFlagged := w.checkFlagInvariant(l, sl.X, idx, mark, flag, c, false)
					_ = phis
					if bad != "" {
						r.Bad(key, w.InstrPos(sl), bad)
					} else {
						r.OK(key, w.InstrPos(sl), fmt.Sprintf("%d feasible cycles, %d end with the flag set: each keeps the pending start at least %d behind the index", nCycles, nFlagged, c))
					}
				}
			}
		}
	}
	r.Expect("flag-guarded short cuts of a pending range", n, 1)
}

func (w *World) checkFlagInvariant(l *natLoop, base ssa.Value, idx, mark, flag *ssa.Phi, c int64, skipMode bool) (string, int, int) {
	env := &byteEnv{w: w, base: base, idx: idx}
	nCycles, nFlagged := 0, 0
	bad := ""
	var path []*ssa.BasicBlock
	on := map[*ssa.BasicBlock]bool{}
	count := 0
	var dfs func(b *ssa.BasicBlock)
	dfs = func(b *ssa.BasicBlock) {
		if bad != "" || count > maxPaths {
			return
		}
		path = append(path, b)
		on[b] = true
		defer func() { path = path[:len(path)-1]; on[b] = false }()
		for _, s := range b.Succs {
			if s == l.header {
				count++
				full := append(append([]*ssa.BasicBlock{}, path...), l.header)
				facts := factsAlong(full)
				// the flag at the start of the cycle, from the branch on the flag phi itself
				escIn, known := false, false
				for _, f := range facts {
					if f.C() == ssa.Value(flag) {
						escIn, known = f.Truth, true
					}
				}
				acc := env.acceptedAt(0, facts)
				any := false
				for v := 0; v < 256; v++ {
					if acc[v] {
						any = true
					}
				}
				if !any {
					continue // infeasible combination of byte tests
				}
				nCycles++
				edgeVal := func(p *ssa.Phi) ssa.Value {
					for i, pr := range l.header.Preds {
						if pr == b {
							return resolveAlong(p.Edges[i], full[:len(full)-1])
						}
					}
					return nil
				}
				if skipMode {
					// a cycle that leaves the pending range alone moves on by exactly one byte
					no, io := edgeVal(mark), edgeVal(idx)
					if no != ssa.Value(mark) {
						continue
					}
					nFlagged++
					ix, d := splitOffset(io)
					ix = resolveAlong(ix, full[:len(full)-1])
					if x2, d2 := splitOffset(ix); x2 != ix {
						ix, d = resolveAlong(x2, full[:len(full)-1]), d+d2
					}
					if x3, d3 := splitOffset(ix); x3 != ix {
						ix, d = resolveAlong(x3, full[:len(full)-1]), d+d3
					}
					if ix == ssa.Value(idx) && d == 1 {
						continue
					}
					bad = fmt.Sprintf("a cycle ending at %s writes nothing and keeps the pending range, yet moves the index to %s instead of one byte on: the bytes in between are neither pending nor written", w.blockPos(b), exprOfOffset(io))
					return
				}
				fo := edgeVal(flag)
				escOut := false
				switch {
				case fo == ssa.Value(flag):
					escOut = !known || escIn
				default:
					if cb, isC := constBool(fo); isC {
						escOut = cb
					} else {
						escOut = true // unknown: assume set
					}
				}
				if !escOut {
					continue
				}
				nFlagged++
				no, io := edgeVal(mark), edgeVal(idx)
				// index: X + d
				ix, d := splitOffset(io)
				ix = resolveAlong(ix, full[:len(full)-1])
				if x2, d2 := splitOffset(ix); x2 != ix {
					ix, d = resolveAlong(x2, full[:len(full)-1]), d+d2
				}
				if no == ssa.Value(mark) {
					// unchanged start: needs n <= i_out - c; with n <= i (assumed) it suffices that the index is the old
					// index advanced by d >= c
					if ix == ssa.Value(idx) && d >= c {
						continue
					}
					bad = fmt.Sprintf("a cycle ending at %s keeps the flag and the pending start but moves the index to %s: the cut [n:i-%d] is not known to be well formed afterwards", w.blockPos(b), exprOfOffset(io), c)
					return
				}
				nx, k := splitOffset(no)
				nx = resolveAlong(nx, full[:len(full)-1])
				if x2, k2 := splitOffset(nx); x2 != nx {
					nx, k = resolveAlong(x2, full[:len(full)-1]), k+k2
				}
				if nx == ix && k <= d-c {
					continue
				}
				bad = fmt.Sprintf("a cycle ending at %s leaves the flag set while the pending start becomes %s and the index %s: on the next cycle the cut [n:i-%d] has n > i-%d (slice bounds out of range)", w.blockPos(b), exprOfOffset(no), exprOfOffset(io), c, c)
				return
			}
			if !l.body[s] || on[s] {
				continue
			}
			dfs(s)
		}
	}
	dfs(l.header)
	if count > maxPaths {
		return "more than 4096 cycles", nCycles, nFlagged
	}
	return bad, nCycles, nFlagged
}

// ruleNoByteSkipped (C02-S): the same loops, another obligation of every cycle.
func ruleNoByteSkipped(w *World, r *Report) {
	r.Rule("C02-S", "In the scanners that keep a pending range [n, i) and a backslash flag (the resolving writer), every feasible cycle of the loop that leaves n unchanged — nothing was written, the byte joins the pending range — ends with the index exactly one byte further (resolved along the cycle: an index set to the end of a failed look-ahead must be rewound). Otherwise the byte after an unterminated '&#123' is swallowed by the look-ahead: its backslash escape or character reference is written undecoded.")
	n := 0
	for _, fn := range w.Funcs {
		if fn.Synthetic != "" {
			continue
		}
		loops, _ := naturalLoops(fn)
		for _, l := range loops {
			if isRangeLoop(l) {
				continue
			}
			done := false
			for _, b := range fn.Blocks {
				if !l.body[b] {
					continue
				}
				for _, ins := range b.Instrs {
					sl, ok := ins.(*ssa.Slice)
					if !ok || done || sl.Low == nil || sl.High == nil || !isByteSlice(sl.X.Type()) {
						continue
					}
					mark, ok := sl.Low.(*ssa.Phi)
					if !ok || mark.Block() != l.header {
						continue
					}
					hb, ok := stripConv(sl.High).(*ssa.BinOp)
					if !ok || hb.Op != token.SUB {
						continue
					}
					idx, ok := hb.X.(*ssa.Phi)
					c, okc := constInt(hb.Y)
					if !ok || !okc || idx.Block() != l.header || c < 1 {
						continue
					}
					var flag *ssa.Phi
					for _, cf := range dominatingConds(b) {
						if p, ok := cf.If.Cond.(*ssa.Phi); ok && cf.Truth && p.Block() == l.header && isBool(p.Type()) {
							flag = p
						}
					}
					if flag == nil {
						continue
					}
					done = true
					n++
					key := fmt.Sprintf("%s: cycles that write nothing advance by one byte", w.FnKey(fn))
					bad, nCycles, nKept := w.checkFlagInvariant(l, sl.X, idx, mark, flag, c, true)
					if bad != "" {
						r.Bad(key, w.FnPos(fn), bad)
					} else {
						r.OK(key, w.FnPos(fn), fmt.Sprintf("%d feasible cycles, %d keep the pending range: each moves the index by exactly one", nCycles, nKept))
					}
				}
			}
		}
	}
	r.Expect("scanners with a pending range and a backslash flag", n, 1)
}
