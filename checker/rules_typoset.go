package main

// rules_typoset.go — C11-Y: the typographer substitutes only at the bytes the property lists.

import (
	"fmt"
	"strings"

	"golang.org/x/tools/go/ssa"
)

func ruleTypographerByteSet(w *World, r *Report) {
	r.Rule("C11-Y", "The typographer's Parse returns a node only when the byte under the cursor is one of ' \" - . < > — the characters the extension's syntax needs. A forward data-flow over the function carries, per block, the set of values the first byte of the peeked line can still have (256-bit sets; on every branch whose condition can be evaluated for a byte value — comparisons of line[0] with constants, one-byte predicates — only the values consistent with the edge pass); the set that reaches a return of a non-nil node must lie inside the six bytes. The parser's trigger list also holds ',', '*' and '[', which the specification of the extension gives no meaning: an arm that defaults to some substitution for 'any other doubled punctuation' rewrites ',,' in documents that contain none of the six characters.")
	it := w.Iface("parser", "InlineParser")
	n := 0
	for _, t := range w.Implementers(it) {
		if !strings.Contains(strings.ToLower(t.Obj().Name()), "typographer") {
			continue
		}
		fn := w.MethodOf(t, "Parse")
		if fn == nil || fn.Blocks == nil {
			continue
		}
		// the peeked line
		var line ssa.Value
		for _, b := range fn.Blocks {
			for _, ins := range b.Instrs {
				if ex, ok := ins.(*ssa.Extract); ok && ex.Index == 0 {
					if c, ok := ex.Tuple.(*ssa.Call); ok && c.Common().IsInvoke() && c.Common().Method.Name() == "PeekLine" && line == nil {
						line = ex
					}
				}
			}
		}
		key := typeShort(t) + ".Parse substitutes only at ' \" - . < >"
		if line == nil {
			r.Unknown(key, w.FnPos(fn), "the peeked line was not found")
			continue
		}
		n++
		env := &byteEnv{w: w, base: line, idx: nil}
		// per-edge sets: a condition computed as a value (`a && c == '-' && …` in a tagless switch) arrives as a phi in
		// the branching block and is judged per incoming edge
		type edge struct {
			from *ssa.BasicBlock
			succ int
		}
		edgeSet := map[edge]*[256]bool{}
		var all [256]bool
		for c := range all {
			all[c] = true
		}
		incoming := func(b *ssa.BasicBlock) []struct {
			set  *[256]bool
			pred int // index into b.Preds, -1 for the function entry
		} {
			var out []struct {
				set  *[256]bool
				pred int
			}
			if b == fn.Blocks[0] {
				out = append(out, struct {
					set  *[256]bool
					pred int
				}{&all, -1})
			}
			for pi, p := range b.Preds {
				for si, s := range p.Succs {
					if s == b {
						if es := edgeSet[edge{p, si}]; es != nil {
							out = append(out, struct {
								set  *[256]bool
								pred int
							}{es, pi})
						}
					}
				}
			}
			return out
		}
		for changed := true; changed; {
			changed = false
			for _, b := range fn.Blocks {
				iff, isIf := b.Instrs[len(b.Instrs)-1].(*ssa.If)
				for _, inc := range incoming(b) {
					var cond ssa.Value
					if isIf && len(b.Succs) == 2 {
						cond = iff.Cond
						if ph, ok := cond.(*ssa.Phi); ok && ph.Block() == b && inc.pred >= 0 {
							cond = ph.Edges[inc.pred]
						}
					}
					for si := range b.Succs {
						dst := edgeSet[edge{b, si}]
						if dst == nil {
							dst = &[256]bool{}
							edgeSet[edge{b, si}] = dst
						}
						for c := 0; c < 256; c++ {
							if !inc.set[c] || dst[c] {
								continue
							}
							if cond != nil {
								env.vals = map[int]int{0: c}
								if val, known := env.eval(cond); known && (val != 0) != (si == 0) {
									continue
								}
							}
							dst[c] = true
							changed = true
						}
					}
				}
			}
		}
		in := map[*ssa.BasicBlock]*[256]bool{}
		for _, b := range fn.Blocks {
			var u [256]bool
			any := false
			for _, inc := range incoming(b) {
				for c := 0; c < 256; c++ {
					if inc.set[c] {
						u[c] = true
						any = true
					}
				}
			}
			if any {
				uu := u
				in[b] = &uu
			}
		}
		allowed := map[byte]bool{'\'': true, '"': true, '-': true, '.': true, '<': true, '>': true}
		bad := ""
		nRet := 0
		for _, b := range fn.Blocks {
			ret, ok := b.Instrs[len(b.Instrs)-1].(*ssa.Return)
			if !ok || len(ret.Results) != 1 || in[b] == nil {
				continue
			}
			nonNil := false
			for _, leaf := range phiLeaves(ret.Results[0]) {
				if !isNilConst(stripMakeIface(leaf)) && !isNilConst(leaf) {
					nonNil = true
				}
			}
			if !nonNil {
				continue
			}
			nRet++
			var extra [256]bool
			any := false
			for c := 0; c < 256; c++ {
				if in[b][c] && !allowed[byte(c)] {
					extra[c] = true
					any = true
				}
			}
			if any {
				bad = fmt.Sprintf("the return of a node at %s is reachable with the first byte in %s", w.InstrPos(ret), byteSetString(extra))
			}
		}
		switch {
		case bad != "":
			r.Bad(key, w.FnPos(fn), bad+": a document without any of the six characters is rewritten")
		case nRet == 0:
			r.Unknown(key, w.FnPos(fn), "no return of a node found")
		default:
			r.OK(key, w.FnPos(fn), fmt.Sprintf("%d returns of a node, each reachable only with the first byte among the six", nRet))
		}
	}
	r.Expect("typographer inline parsers", n, 1)
}

// ruleFootnoteNeedsCaret (C11-F): the footnote parsers produce a node only behind a '^' in the peeked line.
func ruleFootnoteNeedsCaret(w *World, r *Report) {
	r.Rule("C11-F", "In the footnote extension's block parser Open and inline parser Parse, every return of a node is dominated by the true edge of a comparison of a byte of the peeked line with '^' (the line the reader handed out, not a normalised or trimmed copy of the label). A definition or reference recognised after normalising the bracket content accepts '[ ^a]:' — a document without the two bytes '[^' — and swallows what was a link reference definition or plain text.")
	n := 0
	for _, iface := range [][2]string{{"BlockParser", "Open"}, {"InlineParser", "Parse"}} {
		for _, t := range w.Implementers(w.Iface("parser", iface[0])) {
			if !strings.Contains(strings.ToLower(t.Obj().Name()), "footnote") {
				continue
			}
			fn := w.MethodOf(t, iface[1])
			if fn == nil || fn.Blocks == nil {
				continue
			}
			var line ssa.Value
			for _, b := range fn.Blocks {
				for _, ins := range b.Instrs {
					if ex, ok := ins.(*ssa.Extract); ok && ex.Index == 0 && line == nil {
						if c, ok := ex.Tuple.(*ssa.Call); ok && c.Common().IsInvoke() && c.Common().Method.Name() == "PeekLine" {
							line = ex
						}
					}
				}
			}
			key := typeShort(t) + "." + iface[1] + ": a node only behind '^' in the line"
			if line == nil {
				r.Unknown(key, w.FnPos(fn), "the peeked line was not found")
				continue
			}
			n++
			isCaretTest := func(v ssa.Value, truth bool) bool {
				bo, ok := v.(*ssa.BinOp)
				if !ok {
					return false
				}
				for _, pr := range [][2]ssa.Value{{bo.X, bo.Y}, {bo.Y, bo.X}} {
					c, isC := constInt(pr[1])
					if !isC || c != '^' {
						continue
					}
					ld, ok := stripConv(pr[0]).(*ssa.UnOp)
					if !ok {
						continue
					}
					ia, ok := ld.X.(*ssa.IndexAddr)
					if !ok || ia.X != line {
						continue
					}
					if (bo.Op.String() == "==" && truth) || (bo.Op.String() == "!=" && !truth) {
						return true
					}
				}
				return false
			}
			bad := ""
			nRet := 0
			for _, b := range fn.Blocks {
				ret, ok := b.Instrs[len(b.Instrs)-1].(*ssa.Return)
				if !ok || len(ret.Results) == 0 {
					continue
				}
				nonNil := false
				for _, leaf := range phiLeaves(ret.Results[0]) {
					if !isNilConst(stripMakeIface(leaf)) && !isNilConst(leaf) {
						nonNil = true
					}
				}
				if !nonNil {
					continue
				}
				nRet++
				guarded := false
				for _, cf := range dominatingConds(b) {
					for _, a := range condAtoms(cf.If.Cond, cf.Truth) {
						if isCaretTest(a.V, a.Truth) {
							guarded = true
						}
					}
				}
				if !guarded {
					bad = fmt.Sprintf("the return of a node at %s is not dominated by a test of a byte of the peeked line against '^'", w.InstrPos(ret))
				}
			}
			switch {
			case bad != "":
				r.Bad(key, w.FnPos(fn), bad)
			case nRet == 0:
				r.Unknown(key, w.FnPos(fn), "no return of a node found")
			default:
				r.OK(key, w.FnPos(fn), fmt.Sprintf("%d return(s) of a node, each behind line[…] == '^'", nRet))
			}
		}
	}
	r.Expect("footnote parsers", n, 2)
}
